#!/venv/bin/python
"""C15 - elastic-network bonds are exactly the pairs meeting every stated criterion.
Model: lean/VermouthModel/C15.lean; theorems: lean/VermouthProps/C15.lean.

Geometry is exact: coordinates are integers on a lattice of 1/256 nm (exactly representable in
binary floating point, so differences, squares and sums are exact and sqrt is correctly rounded),
distances are compared squared, the upper cut-off is an integer number of lattice units.
The force constant of the decay stream is computed by a numeric oracle (math.exp) and fed to the
model as an exact rational table squared-distance -> constant."""
import functools
import glob
import logging
import math
from fractions import Fraction
from common import *

chk = Check('C15')
chk.extra['rule'] = (
    'molecules with 1-3 chains, residues of 1-3 beads, gaps in resid numbering, chain breaks, cross-links, '
    'repeated residue keys, shuffled node order and sparse node keys, selection by atom-name list, domain '
    'criterion always/chain/regions, lattice coordinates with many pairs exactly at the cut-off, run through the '
    'real ApplyRubberBand.run_molecule or apply_rubber_band; a case is non-trivial if >= 1 elastic bond is emitted '
    'and, over all node pairs, each of the criteria selection, domain, residue separation and distance has >= 1 '
    'passing and >= 1 failing pair (in the decay stream also the force criterion); option-resolution cases count if an '
    'option is left to the force field and the force field defines variables; histories (one processor object over '
    '2-3 molecules with different force-field variables) count if bonds are emitted and the resolved separation '
    'differs between applications; region cases count if regions overlap and the pair shares one; '
    'boundary stream: the same molecules with 1-3 legal boundary values (minimum force = base / just below / 0, base 0, upper 0, '
    'lower = upper, separation 0 or from the force field, empty / one-atom selection, one residue, chain None and empty string, '
    'touching / nested / reversed / negative regions, coincident atoms); shared stream: 2-3 processors sharing one criterion '
    '(and selector) object applied interleaved; command line: random option values through the add_argument calls and the '
    'three statements extracted from bin/martinize2 (count if a region criterion with a mixed truth table or a ValueError '
    'results), int() and region-rendering streams, real in-process martinize2 runs on a two-chain peptide; '
    'distinct = distinct protocol line')
import c15_cli
CLI_X, CLI_ERR = None, None
try:
    CLI_X = c15_cli.extract(REPO)
except Exception as e:  # noqa
    CLI_ERR = '%s: %s' % (type(e).__name__, e)
chk.lean(['VermouthProps.C15', 'VermouthProps.C15_Cli', 'VermouthProps.C15_CliTable', 'VermouthProps.C15_Num', 'VermouthProps.C15_Name'], 'driver_c15',
         generated={'C15Cli.lean': CLI_X['lean']} if CLI_X else None)
if CLI_ERR:
    chk.broken.append(('extract:martinize2-elastic-options', CLI_ERR))
chk.trusted += [
    'harness/c15.py: molecule builder, canonicaliser, independent oracle (five criteria by the property text, residue '
    'distances by networkx single_source_shortest_path_length on its own residue graph), numeric oracle for the decay '
    '(math.exp / math.sqrt, relative tolerance 1e-9)',
    'IEEE-754 double arithmetic on the 1/256 nm lattice: coordinate differences, squares and sums are exact, sqrt is '
    'correctly rounded, so `distance > upper_bound` equals the integer comparison d2 > U^2 for integer U',
]
chk.assumptions += [
    'emit_iff / emit_once / order_invariant are stated for minimum_force >= 0 (F-C15-1 otherwise) and distinct node keys',
    'the decayed constant base*exp(-a (d-lo)^p) enters the model as an input table squared distance -> rational; its '
    'value is checked against the documented formula by the numeric oracle only',
    'cases with a decayed constant within 1e-9 (relative) of minimum_force, or NaN, are excluded and counted',
    'where no decay can apply (decay factor 0; d = lower; d < lower with an odd integer power; base >= 0) the constant must be '
    'the base constant bit for bit: assumes exp(x) >= 1.0 for x >= 0 in the C library and that the float sign of d - lower is '
    'the exact one (checked per case)',
    'command line: option strings are ASCII; the conversion type=float is Python\'s; argparse is the real one',
    'rendered length = str(parameter), the expression of vermouth/gmx/itp.py (compared with a written ITP in one real run)',
]

import numpy as np
import networkx as nx
import vermouth
import vermouth.forcefield
from vermouth.molecule import Molecule
from vermouth import selectors
from vermouth.processors import apply_rubber_band as ARB

UNIT = 256          # lattice units per nm
TOL = 1e-9
FID = 'F-C15-1'


class ListHandler(logging.Handler):
    def __init__(self):
        super().__init__(level=logging.DEBUG)
        self.records = []

    def emit(self, record):
        self.records.append(record)


LOG = quiet_vermouth_logs()
LOG.setLevel(logging.DEBUG)
HANDLER = ListHandler()
LOG.addHandler(HANDLER)


# ---- real command-line runs: started now in a forked child, collected at the end ------------------------------
def cli_opts(**kw):
    o = {'elastic': True, 'go': False, 'ff': 'martini3001', 'ff_given': False, 'floats': {}, 'ermd': None, 'eb': None,
         'eunit': None, 'sep': False, 'name': None, 'other': [], 'nres': 8, 'shift': 14.0, 'finish': False, 'pdb': None,
         'ss': None}
    o.update(kw)
    return o


CLI_RUNS = [
    cli_opts(),                                                  # two molecules, every default, force-field variables
    cli_opts(other=['-merge', 'A,B'], eunit='3:6,5:12', eb='BB,SC1', ermd='0', finish=True, name='prot',
             floats={'-ef': '500', '-el': '0.5', '-eu': '1.0', '-ea': '1', '-ep': '1', '-em': '10'}),
    # a homodimer in two conformations: one molecule type before the network, two after (fix 834f70d)
    cli_opts(ff='martini22', ff_given=True, pdb=os.path.join(VERIF, 'corpus', 'probes', 'c03_elastic_homodimer.pdb'), ss='C',
             finish=True),
]
if chk.thorough:
    CLI_RUNS += [
        cli_opts(elastic=False, ff='elnedyn22', ff_given=True, eunit='all'),
        cli_opts(other=['-merge', 'A,B'], eunit='chain', ermd='1', eb='BB,SC1,SC2'),
        cli_opts(eunit='1:2:3'),
        cli_opts(eunit='a:b'),
        cli_opts(go=True),
        cli_opts(ermd='2.0'),
        cli_opts(other=['-merge', 'A,B'], eunit='-3:4,20:6', floats={'-ea': '0.5', '-ep': '2', '-el': '0.4', '-eu': '0.8984375'},
                 ermd='3'),
        cli_opts(eunit='all', floats={'-em': '700'}, shift=10.0),
        cli_opts(eunit='all', ermd='0', eb='', shift=10.0),
        cli_opts(sep=True, name='x', shift=40.0, finish=True),
        cli_opts(ff='martini22', ff_given=True, pdb=os.path.join(VERIF, 'corpus', 'probes', 'c03_elastic_homodimer.pdb'), ss='C',
                 sep=True, eunit='chain'),
    ]


def cli_argv(o):
    return c15_cli.argv_of(None, o) + list(o['other'])


def cli_probes(extra):
    unit = None
    for i, a in enumerate(extra):
        if a == '-eunit' and i + 1 < len(extra):
            unit = extra[i + 1]
        elif a.startswith('-eunit='):
            unit = a[len('-eunit='):]
    return c15_cli.probes_for(None, unit)


CLI_HANDLE = None
if CLI_X is not None:
    if chk._cov is not None:
        chk._cov.stop()         # the child would trace a whole command-line run line by line
    CLI_HANDLE = c15_cli.start_cli_runs(REPO, [(cli_argv(o), o['nres'], o['shift'], o['finish'], o['pdb'], o['ss'])
                                               for o in CLI_RUNS],
                                        cli_probes)
    if chk._cov is not None:
        chk._cov.start()


# ----------------------------------------------------------------------------
# case specification -> real molecule / protocol line
# ----------------------------------------------------------------------------
def build_molecule(spec):
    ff = vermouth.forcefield.ForceField(name='verif_c15')
    ff.variables = dict(spec['params'].get('ffvars', {}))
    mol = Molecule(force_field=ff)
    mol.moltype = 'verif'
    for a in spec['atoms']:
        attrs = {}
        for k_spec, k_attr in (('name', 'atomname'), ('chain', 'chain'), ('resid', 'resid'), ('resname', 'resname'),
                               ('icode', 'insertion_code'), ('old', '_old_resid')):
            if a.get(k_spec) is not None:
                attrs[k_attr] = a[k_spec]
        pos = a['pos']
        if pos == 'nan':
            attrs['position'] = np.array([float('nan'), 0.0, 0.0])
        elif pos == 'nan2':
            attrs['position'] = np.array([1.0, 0.5, float('nan')])
        elif pos is not None:
            attrs['position'] = np.array(pos, dtype=float) / UNIT
        mol.add_node(a['key'], **attrs)
    for u, v in spec['edges']:
        mol.add_edge(u, v)
    for atoms, params, meta in spec.get('existing', []):
        mol.add_interaction('bonds', tuple(atoms), list(params), meta=dict(meta))
    return mol


def domain_callable(dom):
    if dom[0] == 'always':
        return ARB.always_true
    if dom[0] == 'chain':
        return ARB.same_chain
    return ARB.make_same_region_criterion([tuple(r) for r in dom[1]])


def run_real(spec):
    """Run the real code; returns (status, bonds, n_warnings, other_bonds_intact, exc_name)."""
    p = spec['params']
    mol = build_molecule(spec)
    before = [(i.atoms, list(i.parameters), dict(i.meta)) for i in mol.interactions.get('bonds', [])]
    if p['names'] == ['BB'] and p.get('default_selector'):
        selector = selectors.select_backbone
    else:
        selector = functools.partial(selectors.proto_select_attribute_in, attribute='atomname', values=list(p['names']))
    dom = domain_callable(p['dom'])
    upper = upper_float(p)
    HANDLER.records[:] = []
    exc = None
    try:
        with np.errstate(all='ignore'):
            if p['via'] == 'function':
                ARB.apply_rubber_band(mol, selector, p['lo'], upper, p['a'], p['pw'], p['base'], p['minf'],
                                      p['bond_type'], dom, p['sep'])
            else:
                kw = dict(lower_bound=p['lo'], upper_bound=upper, decay_factor=p['a'], decay_power=p['pw'],
                          base_constant=p['base'], minimum_force=p['minf'], domain_criterion=dom)
                if not (p['names'] == ['BB'] and p.get('default_selector')):
                    kw['selector'] = selector
                if p['via'] == 'processor':
                    kw['res_min_dist'] = p['sep']
                    kw['bond_type'] = p['bond_type']
                # via == 'processor_ffvars': both come from the force field variables
                ARB.ApplyRubberBand(**kw).run_molecule(mol)
    except Exception as e:  # noqa
        exc = type(e).__name__
    warns = [r for r in HANDLER.records if r.levelno >= logging.WARNING]
    after = mol.interactions.get('bonds', [])
    rubber = [i for i in after if i.meta.get('group') == 'Rubber band' and i.meta.get('verif_existing') is None]
    others = [(i.atoms, list(i.parameters), dict(i.meta)) for i in after if i not in rubber]
    return exc, rubber, warns, others == before


def frac(x):
    if x != x or x in (float('inf'), float('-inf')):
        return [0, 0]          # not a finite number: never equal to a model value
    f = Fraction(x)
    return [f.numerator, f.denominator]


def rendered_params(inter):
    """the parameters as the ITP writer prints them: `' '.join(str(x) for x in interaction.parameters)`"""
    r = getattr(inter, 'rendered', None)
    return list(r) if r is not None else [str(x) for x in inter.parameters]


def n5_exact(text):
    """the rendered length as an exact multiple of 1e-5 nm: integer, or None if it is no decimal number / has more
    than 5 decimals.  No floating point involved: the decimal string is read as a fraction."""
    try:
        x = Fraction(text) * 10 ** 5
    except (ValueError, ZeroDivisionError):
        return None
    return int(x) if x.denominator == 1 else None


def n5_of(inter):
    n = n5_exact(rendered_params(inter)[1])
    return -1 if n is None else n


def py_admissible(d2, n):
    """|n 1e-5 - sqrt(d2)/256| <= 0.5e-5 as an integer inequality (the statement the model's bounds are checked against)"""
    x = 4 * d2 * 3125 * 3125
    lo = max(2 * n - 1, 0)
    return lo * lo * 64 <= x <= (2 * n + 1) * (2 * n + 1) * 64


LEN_CHECKS = []      # (errs list of the case, prefix, atoms, d2, rendered length): judged with the model's bounds


def py_bounds(d2):
    """the solution set of py_admissible(d2, .) by trying the integers around sqrt(d2)*3125/8"""
    n0 = math.isqrt(d2 * 3125 * 3125 // 64)
    ok = [n for n in range(max(n0 - 2, 0), n0 + 3) if py_admissible(d2, n)]
    return min(ok), max(ok)


def flush_len_checks():
    """ask the model for the admissible interval of every squared distance met, check the interval against the
    inequality it stands for, then judge the rendered lengths of the real bonds with it"""
    d2s = sorted({c[3] for c in LEN_CHECKS})
    bounds = {}
    if chk.lean_ok and d2s:
        lns = [line('lenbounds', d2) for d2 in d2s]
        for d2, ln, r in zip(d2s, lns, chk.drv.ask(lns)):
            chk.case('lenbounds-%d' % d2, ln, '%d %d' % py_bounds(d2), r, [], False)
            try:
                lo, hi = (int(x) for x in r.split())
                bounds[d2] = (lo, hi)
            except ValueError:
                pass
    for errs, prefix, atoms, d2, text in LEN_CHECKS:
        n = n5_exact(text)
        lo, hi = bounds.get(d2) or py_bounds(d2)
        chk.count('length_checked_against_model_bounds' if d2 in bounds else 'length_checked_without_model')
        if lo != hi:
            chk.count('length_on_exact_tie')
        if n is None or not (lo <= n <= hi):
            errs.append('%sbond %r has length %s; the distance is sqrt(%d)/256 = %.7f nm, admissible: %s'
                        % (prefix, atoms, text, d2, math.sqrt(d2) / UNIT, ' or '.join('%d e-5' % x for x in sorted({lo, hi}))))
    LEN_CHECKS[:] = []


def exact_pair(p, d2):
    """the decay is >= 1 whatever exp is: a = 0, d = lower (p >= 1), or a > 0, d < lower and p odd; base >= 0"""
    a, lo, pw = p['a'], p['lo'], p['pw']
    if p['base'] < 0 or not (float(pw).is_integer() and pw >= 0):
        return False
    if a == 0:
        return True
    if lo < 0:
        return False
    l2 = (Fraction(lo) * UNIT) ** 2
    if pw >= 1 and d2 == l2:
        return True
    return a > 0 and int(pw) % 2 == 1 and d2 < l2


def decay_spec(p):
    pw = p['pw']
    if float(pw).is_integer() and pw >= 0:
        return [frac(p['a']), frac(p['lo']), int(pw)]
    return None


def agrees(p, d2, fc, k):
    """exact pairs must carry the base constant bit for bit; the others agree with the formula within the tolerance"""
    return fc == k if exact_pair(p, d2) else close(fc, k)


def near_thr(k, thr):
    """k within 1e-9 (relative) of the threshold without being identical to it, or in the denormal range"""
    if k == thr:
        return False
    if 0 < abs(k) < 1e-300:
        return True
    return abs(k - thr) <= TOL * max(abs(k), abs(thr))


def close(x, k):
    return x == k or abs(x - k) <= TOL * max(abs(k), 1e-300)


def upper_float(p):
    return p['upper'] if 'upper' in p else p['U'] / UNIT


def upper2_of(p):
    """squared cut-off in lattice units: d <= upper  <=>  d2 <= floor((256 upper)^2)   (upper >= 0)"""
    if 'upper' not in p:
        return p['U'] * p['U']
    return int(math.floor((Fraction(p['upper']) * UNIT) ** 2))


def pos_of(a):
    return a['pos'] if isinstance(a['pos'], list) else None


def d2_of(pa, pb):
    return sum((x - y) ** 2 for x, y in zip(pa, pb))


def k_expected(p, d2):
    """min(base, base * exp(-a (d - lo)^p)) by the documented formula (math, not numpy)."""
    d = math.sqrt(d2) / UNIT
    try:
        x = (d - p['lo']) ** p['pw']
        if isinstance(x, complex):
            return float('nan')
        dec = math.exp(-p['a'] * x)
    except OverflowError:
        dec = float('inf')
    except ZeroDivisionError:
        return float('nan')
    k = p['base'] * dec
    return min(p['base'], k)


def len5_expected(d2):
    """nearest integer (ties to even) to sqrt(d2)/256*1e5 = sqrt(d2 * 3125^2 / 64), integer arithmetic."""
    x = Fraction(d2 * 3125 * 3125, 64)
    n = math.isqrt(x.numerator // x.denominator)
    # candidates n, n+1
    best = None
    for c in (n, n + 1):
        # |c - sqrt(x)| compared via (2c-1)^2 <= 4x <= (2c+1)^2
        if (2 * c - 1) ** 2 <= 4 * x <= (2 * c + 1) ** 2 or (c == 0 and 4 * x <= 1):
            if best is None:
                best = c
            else:  # tie
                best = c if c % 2 == 0 else best
    return best


def selected_atoms(spec):
    names = spec['params']['names']
    return [a for a in spec['atoms'] if a.get('name') is not None and a['name'] in names]


def protocol_line(spec, ktab):
    p = spec['params']
    atoms = []
    for a in spec['atoms']:
        pos = a['pos']
        if pos in ('nan', 'nan2'):
            ppos = []
        else:
            ppos = pos
        atoms.append([a['key'], a.get('name'), a.get('chain'), a.get('resid'), a.get('resname'), a.get('icode'),
                      a.get('old'), ppos])
    if p['dom'][0] == 'always':
        dom = [0]
    elif p['dom'][0] == 'chain':
        dom = [1]
    else:
        dom = [2, [list(r) for r in p['dom'][1]]]
    sep = p['sep']
    params = [list(p['names']), sep, upper2_of(p), frac(p['base']), frac(p['minf']),
              [[d2] + frac(k) for d2, k in sorted(ktab.items())], dom, decay_spec(p)]
    return line('run', atoms, [list(e) for e in spec['edges']], params)


# ----------------------------------------------------------------------------
# the independent statement of the property
# ----------------------------------------------------------------------------
def residue_key(a):
    return (a.get('chain'), a.get('resid'), a.get('resname'), a.get('icode'))


def same_domain(dom, a, b):
    if dom[0] == 'always':
        return True
    if dom[0] == 'chain':
        return a.get('chain') == b.get('chain')
    ra = a['old'] if a.get('old') is not None else a['resid']
    rb = b['old'] if b.get('old') is not None else b['resid']
    return any(min(r) <= ra <= max(r) and min(r) <= rb <= max(r) for r in dom[1])


def criteria_table(spec, ktab_fn):
    """For every unordered pair of distinct nodes: the five criteria, by the property text."""
    p = spec['params']
    atoms = spec['atoms']
    bykey = {a['key']: a for a in atoms}
    G = nx.Graph()
    for a in atoms:
        G.add_node(residue_key(a))
    for u, v in spec['edges']:
        ru, rv = residue_key(bykey[u]), residue_key(bykey[v])
        if ru != rv:
            G.add_edge(ru, rv)
    dist = {}
    for r in G.nodes:
        dist[r] = nx.single_source_shortest_path_length(G, r)
    names = p['names']
    out = {}
    for i, a in enumerate(atoms):
        for b in atoms[i + 1:]:
            sel = (a.get('name') in names and a.get('name') is not None
                   and b.get('name') in names and b.get('name') is not None)
            domok = same_domain(p['dom'], a, b)
            rd = dist[residue_key(a)].get(residue_key(b), math.inf)
            sepok = rd > p['sep']
            pa, pb = pos_of(a), pos_of(b)
            if pa is not None and pb is not None:
                d2 = d2_of(pa, pb)
                distok = d2 <= upper2_of(p)
                k = ktab_fn(d2)
                forceok = k > p['minf']
            else:
                d2, distok, k, forceok = None, None, None, None
            out[frozenset((a['key'], b['key']))] = (sel, domok, sepok, distok, forceok, d2, k)
    return out


def oracle(spec, exc, rubber, warns, intact, table, ktab_fn, sink=None, prefix=''):
    p = spec['params']
    errs = []
    sel = selected_atoms(spec)
    has_missing = any(a['pos'] is None for a in sel)
    has_nan = any(a['pos'] in ('nan', 'nan2') for a in sel)
    if has_missing:
        return errs  # outside the property (the code raises); compared with the model only
    if exc is not None:
        return ['exception %s' % exc]
    if not intact:
        errs.append('pre-existing bonds were modified')
    if has_nan:
        if rubber:
            errs.append('NaN coordinates among the selected atoms but %d elastic bonds were added' % len(rubber))
        if not warns:
            errs.append('NaN coordinates among the selected atoms and no warning')
        return errs
    if warns:
        errs.append('unexpected warning: %s' % warns[0].getMessage())
    expected = {pair for pair, (s, dm, sp, ds, fo, d2, k) in table.items() if s and dm and sp and ds and fo}
    seen = {}
    for inter in rubber:
        atoms = inter.atoms
        if len(atoms) != 2 or atoms[0] == atoms[1]:
            errs.append('self bond or malformed bond %r' % (atoms,))
            continue
        pair = frozenset(atoms)
        seen[pair] = seen.get(pair, 0) + 1
        if pair not in expected:
            why = table.get(pair)
            errs.append('bond %r emitted although criteria (selected, domain, separation, distance, force) = %r'
                        % (tuple(atoms), why[:5] if why else None))
            continue
        s, dm, sp, ds, fo, d2, k = table[pair]
        bt, length, fc = inter.parameters
        if bt != expected_bond_type(spec):
            errs.append('bond type %r instead of %r' % (bt, expected_bond_type(spec)))
        LEN_CHECKS.append((errs if sink is None else sink, prefix, tuple(atoms), d2, rendered_params(inter)[1]))
        if not agrees(p, d2, float(fc), k):
            errs.append('bond %r has force constant %r, expected %r%s' % (tuple(atoms), fc, k,
                        ' exactly (no decay applies to this pair)' if exact_pair(p, d2) else ''))
    for pair, n in seen.items():
        if n > 1:
            errs.append('bond %r emitted %d times' % (tuple(pair), n))
    for pair in expected:
        if pair not in seen:
            errs.append('no bond %r although all five criteria hold' % (tuple(sorted(pair)),))
    del errs[6:]
    return errs


def expected_bond_type(spec):
    p = spec['params']
    if 'expect_bt' in p:
        return p['expect_bt']
    if p['via'] == 'processor_ffvars':
        return p.get('ffvars', {}).get('elastic_network_bond_type', ARB.DEFAULT_BOND_TYPE)
    return p['bond_type']


def effective_sep(spec):
    p = spec['params']
    if 'expect_sep' in p:
        return p['expect_sep']
    if p['via'] == 'processor_ffvars':
        return p.get('ffvars', {}).get('elastic_network_res_min_dist', ARB.DEFAULT_RMD)
    return p['sep']


# ----------------------------------------------------------------------------
# generator
# ----------------------------------------------------------------------------
NAMES = ['BB', 'SC1', 'SC2', 'CA', 'W']
RESNAMES = ['ALA', 'GLY', 'LYS', 'TRP']
# integer vectors whose length is an integer (so that pairs sit exactly at a cut-off)
SELECTIONS = [['BB'], ['BB'], ['BB', 'SC1'], ['SC1'], ['SC1', 'W'], ['BB', 'SC2', 'CA'], ['CA'], ['SC2', 'BB'],
              ['BB', 'SC1', 'SC2', 'CA', 'W'], ['BB', 'SC1'], ['BB', 'W', 'CA'], ['BB'], ['SC1', 'SC2', 'BB'],
              ['BB', 'SC1', 'SC2', 'CA', 'W'], ['XX']]


def gen_spec(rng, decay, big=False):
    nchains = rng.choice([1, 1, 2, 2, 3])
    step = rng.choice([20, 32, 37, 50, 64])      # lattice units between grid points
    box = rng.choice([3, 4, 5, 6])
    atoms, edges = [], []
    keys_pool = None
    keymode = rng.choice(['dense', 'offset', 'sparse', 'sparse'])
    nextkey = [rng.choice([0, 1, 5])]

    def newkey():
        k = nextkey[0]
        nextkey[0] += 1 if keymode in ('dense', 'offset') else rng.choice([1, 1, 2, 3, 7])
        return k

    if keymode == 'offset':
        nextkey[0] = rng.choice([10, 100])
    use_old = rng.random() < 0.35
    chain_ids = rng.choice([['A', 'B', 'C'], ['A', 'A', 'B'], [None, 'A', None], ['X', 'Y', 'X']])
    resid = rng.choice([1, 1, 5, -3])
    bbs_all = []
    for c in range(nchains):
        nres = rng.choice([2, 3, 4, 5, 6, 6, 8, 8]) if not big else rng.choice([6, 8, 10, 12])
        if rng.random() < 0.3:
            resid = rng.choice([1, resid + 1])   # restart numbering (residue keys may collide across chains)
        prev_bb = None
        for r in range(nres):
            resname = rng.choice(RESNAMES)
            nb = rng.choice([1, 1, 2, 2, 3])
            beads = ['BB'] + rng.sample(['SC1', 'SC2', 'CA', 'W'], nb - 1)
            if rng.random() < 0.1:
                beads[0] = rng.choice(['CA', 'W'])     # a residue without BB
            icode = rng.choice([None] * 9 + ['A'])
            old = None
            if use_old:
                old = resid + rng.choice([0, 0, 10, -2])
            first = None
            prevbead = None
            for bn in beads:
                k = newkey()
                pos = [rng.randrange(box) * step, rng.randrange(box) * step, rng.randrange(box) * step]
                atoms.append({'key': k, 'name': bn, 'chain': chain_ids[c], 'resid': resid, 'resname': resname,
                              'icode': icode, 'old': old if rng.random() < 0.9 else None, 'pos': pos})
                if first is None:
                    first = k
                else:
                    edges.append([prevbead if rng.random() < 0.5 else first, k])
                prevbead = k
            if prev_bb is not None and rng.random() < 0.85:     # else: chain break
                edges.append([prev_bb, first])
            prev_bb = first
            bbs_all.append(first)
            resid += rng.choice([1, 1, 1, 1, 2, 5, 0])           # gaps; 0 = same resid again (maybe same key)
    # cross-links (also across chains)
    for _ in range(rng.choice([0, 0, 1, 2, 3])):
        u, v = rng.choice(atoms)['key'], rng.choice(atoms)['key']
        if u != v and [u, v] not in edges and [v, u] not in edges:
            edges.append([u, v])
    # an atom without a name / an unselected atom with NaN or without position
    r = rng.random()
    sel_names = list(rng.choice(SELECTIONS))
    if rng.random() < 0.3:
        rng.shuffle(sel_names)
    if r < 0.10:
        rng.choice(atoms)['name'] = None
    if 0.10 < r < 0.22:
        cands = [a for a in atoms if a['name'] not in sel_names]
        if cands:
            rng.choice(cands)['pos'] = rng.choice(['nan', None, 'nan2'])
    if 0.22 < r < 0.30:
        rng.choice(atoms)['pos'] = rng.choice(['nan', 'nan2'])
    if 0.30 < r < 0.33:
        rng.choice(atoms)['pos'] = None
    # node order
    order = rng.random()
    if order < 0.35:
        rng.shuffle(atoms)
    elif order < 0.5:
        atoms.reverse()
    elif order < 0.6 and len(atoms) > 3:
        i = rng.randrange(len(atoms))
        atoms = atoms[i:] + atoms[:i]
    # parameters
    # cut-off: an integer multiple of the grid step so that pairs sit exactly on it
    U = step * rng.choice([1, 2, 2, 3, 3, 3, 5, 5, 6, 7]) if rng.random() < 0.85 else rng.randrange(step, 6 * step)
    base = rng.choice([500.0, 700.0, 1000.5, 1.0])
    dk = rng.random()
    if rng.random() < 0.25:
        dom = ['always']
    elif rng.random() < 0.5:
        dom = ['chain']
    else:
        rs = []
        for _ in range(rng.choice([1, 1, 2, 2, 3, 4])):
            if rs and rng.random() < 0.5:
                # overlapping: starts strictly inside the previous region, ends beyond it (or inside)
                lo_, hi_ = min(rs[-1]), max(rs[-1])
                a = rng.randint(lo_, hi_)
                b = rng.choice([hi_ + rng.choice([1, 2, 4]), rng.randint(lo_, hi_)])
            else:
                a = rng.choice(atoms)['resid'] + rng.choice([0, 0, -1, 1, 10])
                b = a + rng.choice([1, 2, 3, 5, 8, 8, 12, -2, -4, -9, 0])
            if rng.random() < 0.3:
                a, b = b, a                                   # bounds in either order
            rs.append([a, b])
        if rng.random() < 0.3:
            rng.shuffle(rs)
        dom = ['regions', rs]
    via = rng.choice(['function', 'processor', 'processor', 'processor_ffvars'])
    p = {'names': sel_names, 'U': U, 'lo': 0.0, 'a': 0.0, 'pw': 0.0, 'base': base,
         'minf': rng.choice([0.0, 0.0, 0.0, 0.0, 0.0, base / 2, base / 2, 0.25, 0.25, 0.25, base, base + 1]),
         'sep': rng.choice([0, 1, 1, 2, 2, 2, 3, 4]), 'dom': dom, 'via': via, 'bond_type': rng.choice([6, 6, 1]),
         'default_selector': rng.random() < 0.5}
    if via == 'processor_ffvars':
        p['ffvars'] = rng.choice([{}, {'elastic_network_bond_type': 1, 'elastic_network_res_min_dist': 3},
                                  {'elastic_network_res_min_dist': 0}, {'elastic_network_bond_type': 5}])
    if decay:
        p['lo'] = rng.choice([0.0, 0.0, 0.25, 0.5, step / UNIT])
        p['a'] = rng.choice([0.1, 0.5, 0.5, 1.0, 1.0, 2.5, 6.0])
        p['pw'] = rng.choice([1, 1, 2, 2, 3, 6, 0] + ([0.5] if p['lo'] == 0.0 else []))
        p['minf'] = rng.choice([0.0, 0.0, base * 0.01, base * 0.05, base * 0.3, base * 0.6, base, 1e-3, 1e-3])
    elif rng.random() < 0.25:
        # decay switched off by ONE of the two parameters only: still k = base
        p['lo'] = rng.choice([0.0, 0.5])
        p['pw'] = rng.choice([0.0, 1.0, 2.0])
    if rng.random() < 0.04:
        p['minf'] = rng.choice([-1.0, -0.5])
    spec = {'atoms': atoms, 'edges': edges, 'params': p}
    if rng.random() < 0.3 and len(atoms) >= 2:
        a, b = rng.sample(atoms, 2)
        spec['existing'] = [([a['key'], b['key']], [1, 0.33, 1250], {'verif_existing': 1}),
                            ([b['key'], a['key']], [6, 0.5, 500.0], {'group': 'Rubber band', 'verif_existing': 1})]
    return spec


def gen_boundary(rng):
    """legal boundary / falsy parameter values and degenerate molecules, one to three per case"""
    spec = gen_spec(rng, rng.random() < 0.4)
    p, atoms = spec['params'], spec['atoms']
    tweaks = rng.sample(['minf=base', 'minf_just_below_base', 'base=0', 'minf=0', 'upper=0', 'lower=upper', 'sep=0',
                         'sep_from_force_field', 'selection_empty', 'selection_one_atom', 'one_residue', 'chain_none_empty',
                         'regions_touching', 'regions_reversed_negative', 'coincident_atoms', 'upper=0', 'minf=base',
                         'lower=upper', 'two_atoms'], rng.choice([1, 2, 2, 3]))
    step = 32
    for t in tweaks:
        if t == 'two_atoms':
            del atoms[2:]
            keys = {a['key'] for a in atoms}
            spec['edges'] = [e for e in spec['edges'] if e[0] in keys and e[1] in keys]
            spec.pop('existing', None)
        elif t == 'minf=base':
            p['minf'] = p['base']
        elif t == 'minf_just_below_base':
            p['minf'] = math.nextafter(p['base'], 0.0)
        elif t == 'base=0':
            p['base'] = rng.choice([0.0, 0])
            p['minf'] = rng.choice([0.0, 0, 0.25])
        elif t == 'minf=0':
            p['minf'] = rng.choice([0.0, 0])
        elif t == 'upper=0':
            p['U'] = 0
        elif t == 'lower=upper':
            p['lo'] = p['U'] / UNIT
            if not float(p['pw']).is_integer():
                p['pw'] = 1
            if p['a'] == 0.0 and rng.random() < 0.7:
                p['a'] = rng.choice([0.5, 1.0, 2.5])
                p['pw'] = rng.choice([1, 2, 3])
        elif t == 'sep=0':
            p['sep'] = 0
            if p['via'] == 'processor_ffvars':
                p['via'] = 'processor'
        elif t == 'sep_from_force_field':
            p['via'] = 'processor_ffvars'
            p['ffvars'] = rng.choice([{}, {'elastic_network_res_min_dist': 0}, {'elastic_network_res_min_dist': 1},
                                      {'res_min_dist': 4}, {'elastic_network_bond_type': 0, 'elastic_network_res_min_dist': 0}])
        elif t == 'selection_empty':
            p['names'] = rng.choice([['XX'], [], ['']])
            p['default_selector'] = False
        elif t == 'selection_one_atom':
            rng.choice(atoms)['name'] = 'ZZ'
            p['names'] = ['ZZ']
        elif t == 'one_residue':
            a0 = atoms[0]
            for a in atoms:
                for k in ('chain', 'resid', 'resname', 'icode'):
                    a[k] = a0[k]
        elif t == 'chain_none_empty':
            ids = rng.choice([[None, ''], [None, '', 'A'], ['', 'A'], [None, 'A']])
            m = {}
            for a in atoms:
                a['chain'] = m.setdefault(a['chain'], rng.choice(ids))
            p['dom'] = ['chain']
        elif t == 'regions_touching':
            lo_ = min(a['resid'] for a in atoms)
            b = lo_ + rng.choice([1, 2, 3])
            c = b + rng.choice([1, 2, 4])
            p['dom'] = ['regions', rng.choice([[[lo_, b], [b, c]], [[lo_, b], [b + 1, c]], [[b, c], [lo_, b]],
                                               [[lo_, c], [b, b]], [[b, b]], [[lo_, b], [lo_, b]]])]
        elif t == 'regions_reversed_negative':
            shift = min(a['resid'] for a in atoms) + rng.choice([3, 6, 10])
            for a in atoms:
                a['resid'] -= shift
                if a.get('old') is not None:
                    a['old'] -= shift
            lo_ = min(a['resid'] for a in atoms)
            p['dom'] = ['regions', rng.choice([[[lo_ + 3, lo_]], [[0, lo_]], [[-1, lo_ + 1], [2, 0]], [[lo_ + 2, lo_ - 5], [1, -1]]])]
        elif t == 'coincident_atoms':
            for _ in range(rng.choice([1, 2, 3])):
                a, b = rng.choice(atoms), rng.choice(atoms)
                if isinstance(a['pos'], list) and isinstance(b['pos'], list):
                    b['pos'] = list(a['pos'])
        chk.count('boundary_' + t)
    if p['lo'] * UNIT > 4096 or p['U'] > 4096:
        p['lo'] = 0.0
    return spec


# ----------------------------------------------------------------------------
# run
# ----------------------------------------------------------------------------
def evaluate(cid, spec, stream, real=None):
    p = spec['params']
    p['sep'] = effective_sep(spec)
    sel = selected_atoms(spec)
    # numeric oracle for the force constant: table squared distance -> constant
    ktab = {}
    near = 0
    exact = (p['a'] == 0.0)
    pts = [pos_of(a) for a in sel if pos_of(a) is not None]
    if not exact:
        for i, pa in enumerate(pts):
            for pb in pts[i + 1:]:
                d2 = d2_of(pa, pb)
                if d2 not in ktab:
                    k = k_expected(p, d2)
                    ktab[d2] = k
                    if not (k == k) or near_thr(k, p['minf']):
                        near += 1
        if 0 not in ktab:
            ktab[0] = k_expected(p, 0)
            if ktab[0] != ktab[0]:
                del ktab[0]            # no selected pair at distance 0: the entry would not be used
    if near:
        chk.count('excluded_near_minimum_force')
        return None
    if not exact and p['lo'] >= 0:
        l2 = (Fraction(p['lo']) * UNIT) ** 2
        for d2 in ktab:
            d = math.sqrt(d2) / UNIT
            if (d < p['lo']) != (d2 < l2) or (d == p['lo']) != (d2 == l2):
                chk.count('excluded_float_sign_of_d_minus_lower_differs')
                return None
    n_exact_pairs = sum(1 for d2 in ktab if exact_pair(p, d2)) if not exact else 0
    if n_exact_pairs:
        chk.count('decay_cases_with_pairs_at_or_below_lower_exactly_base')
    ktab_fn = (lambda d2: p['base']) if exact else (lambda d2: ktab[d2] if d2 in ktab else k_expected(p, d2))
    exc, rubber, warns, intact = run_real(spec) if real is None else real
    table = criteria_table(spec, ktab_fn)
    errs = oracle(spec, exc, rubber, warns, intact, table, ktab_fn)
    # canonical form of the real result
    if exc is not None:
        impl = 'error'
        chk.count('exception_' + exc)
    elif not sel:
        impl = 'none' if not rubber and not warns else 'bonds-without-selection'
    elif warns and not rubber:
        impl = 'nanwarn'
    else:
        bl = []
        for inter in rubber:
            a, b = inter.atoms
            bt, length, fc = inter.parameters
            n5 = n5_of(inter)
            pa = next((pos_of(x) for x in spec['atoms'] if x['key'] == a), None)
            pb = next((pos_of(x) for x in spec['atoms'] if x['key'] == b), None)
            kexp = ktab_fn(d2_of(pa, pb)) if pa is not None and pb is not None else None
            fcf = float(fc)
            if kexp is not None and not exact_pair(p, d2_of(pa, pb)) and close(fcf, kexp):
                fcf = kexp          # a constant with decay: compared within the tolerance of the numeric oracle
            bl.append([a, b, n5] + frac(fcf))
        impl = 'bonds ' + enc(bl) + (' +warning' if warns else '')
    ln = protocol_line(spec, {} if exact else ktab)
    # non-triviality
    both = lambda idx: (any(v[idx] for v in table.values()) and any(v[idx] is False for v in table.values()))
    nontriv = bool(rubber) and all(both(i) for i in range(4)) and (exact or both(4))
    chk.count('stream_' + stream)
    chk.count('n_atoms=%s' % ('<10' if len(spec['atoms']) < 10 else '<20' if len(spec['atoms']) < 20 else '>=20'))
    chk.count('n_selected=%s' % ('0' if not sel else '<5' if len(sel) < 5 else '<12' if len(sel) < 12 else '>=12'))
    chk.count('n_bonds=%s' % ('0' if not rubber else '<5' if len(rubber) < 5 else '<20' if len(rubber) < 20 else '>=20'))
    chk.count('domain_' + p['dom'][0])
    chk.count('via_' + p['via'])
    chk.count('sep=%d' % p['sep'])
    chk.count('outcome_' + impl.split()[0])
    if any(v[0] and v[1] and v[2] and v[3] and v[6] is not None and v[6] == p['minf'] for v in table.values()):
        chk.count('cases_with_an_eligible_pair_exactly_on_minimum_force')
    n_at = sum(1 for v in table.values() if v[0] and v[5] == upper2_of(p))
    if n_at:
        chk.count('cases_with_selected_pair_exactly_at_cutoff')
    idx = [i for i, a in enumerate(spec['atoms']) if a in sel]
    if idx and idx != list(range(len(idx))):
        chk.count('selection_not_a_prefix')
    if not rubber and impl.startswith('bonds'):
        selpairs = [v for v in table.values() if v[0]]
        for i, nm in ((1, 'domain'), (2, 'separation'), (3, 'distance'), (4, 'force')):
            if selpairs and not any(v[i] for v in selpairs):
                chk.count('no_bond_because_no_pair_passes_' + nm)
        if not selpairs:
            chk.count('no_bond_because_single_selected_atom')
    finding = FID if (errs and p['minf'] < 0) else None
    if p['minf'] < 0:
        chk.count('minimum_force_negative')
    return cid, ln, impl, errs, nontriv, finding


cases = []
for path in sorted(glob.glob(os.path.join(VERIF, 'corpus', 'c15_*.json'))):
    for j, spec in enumerate(json.load(open(path))['cases']):
        cases.append(('corpus-%s-%d' % (os.path.basename(path)[4:-5], j), spec, 'corpus'))
rng = chk.rng('exact')
N1 = 30000 if chk.thorough else 3000
for i in range(N1):
    cases.append(('exact-%d' % i, gen_spec(rng, False, big=chk.thorough and i % 10 == 0), 'exact'))
rng = chk.rng('decay')
N2 = 14000 if chk.thorough else 1400
for i in range(N2):
    cases.append(('decay-%d' % i, gen_spec(rng, True, big=chk.thorough and i % 10 == 0), 'decay'))

rng = chk.rng('boundary')
for i in range(7000 if chk.thorough else 800):
    cases.append(('boundary-%d' % i, gen_boundary(rng), 'boundary'))

results = []
for cid, spec, stream in cases:
    r = evaluate(cid, spec, stream)
    if r is not None:
        results.append(r)
lines = [r[1] for r in results]
models = chk.drv.ask(lines) if chk.lean_ok else [None] * len(lines)
flush_len_checks()
for (cid, ln, impl, errs, nontriv, finding), mo in zip(results, models):
    if mo is not None and mo.startswith('error '):
        mo = 'error'
    chk.case(cid, ln, impl, mo, errs, nontriv, finding=finding)

# ---- the processor object: option resolution, reuse over several molecules -----------------------
DEFAULT_VARS = ('elastic_network_bond_type', 'elastic_network_res_min_dist')


def gen_proc(rng, decay=False):
    """constructor arguments of one ApplyRubberBand; None = keyword not passed at all, 'None' = passed as None"""
    step = rng.choice([20, 32, 50, 64])
    base = rng.choice([500.0, 700.0, 1.0])
    cfg = {'names': list(rng.choice(SELECTIONS)), 'default_selector': rng.random() < 0.4,
           'step': step, 'U': step * rng.choice([2, 3, 3, 5, 6]), 'lo': 0.0, 'a': 0.0, 'pw': 0.0, 'base': base,
           'minf': rng.choice([0.0, 0.0, 0.0, 0.25, base / 2]),
           'rmd': rng.choice([None, None, 'None', 0, 0, 1, 2, 3]),
           'bt': rng.choice([None, None, 'None', 0, 1, 6, 6]),
           'btv': rng.choice([None, None, 'my_bt']), 'rmdv': rng.choice([None, None, 'my_rmd'])}
    if decay:
        cfg['lo'] = rng.choice([0.0, 0.25, 0.5])
        cfg['a'] = rng.choice([0.5, 1.0, 2.5])
        cfg['pw'] = rng.choice([1, 2, 3])
        cfg['minf'] = rng.choice([0.0, base * 0.05, base * 0.3])
    r = rng.random()
    if r < 0.3:
        cfg['dom'] = ['always']
    elif r < 0.6:
        cfg['dom'] = ['chain']
    else:
        rs = []
        a = rng.choice([1, 1, 2, 5, -3])
        for _ in range(rng.choice([1, 2, 2, 3])):
            b = a + rng.choice([2, 3, 4, 6])
            rs.append([a, b] if rng.random() < 0.7 else [b, a])
            a = rng.choice([b - 1, b - 2, b + 1, b + 2])     # next region overlaps or not
        if rng.random() < 0.4:
            rng.shuffle(rs)
        cfg['dom'] = ['regions', rs]
    return cfg


def gen_ffvars(rng):
    out = {}
    for k, vals in (('elastic_network_bond_type', [0, 1, 5, 6]), ('elastic_network_res_min_dist', [0, 1, 3, 4]),
                    ('my_bt', [0, 2, 7]), ('my_rmd', [0, 1, 4]), ('other', [9])):
        if rng.random() < 0.5:
            out[k] = rng.choice(vals)
    return out


def make_processor(cfg, criterion=None, selector=None):
    """a FRESH ApplyRubberBand from the configuration (criterion / selector: use these existing objects instead of
    new ones); returns (processor, keyword arguments)"""
    kw = dict(lower_bound=cfg['lo'], upper_bound=cfg['U'] / UNIT, decay_factor=cfg['a'], decay_power=cfg['pw'],
              base_constant=cfg['base'], minimum_force=cfg['minf'])
    if not (cfg['names'] == ['BB'] and cfg['default_selector']):
        kw['selector'] = functools.partial(selectors.proto_select_attribute_in, attribute='atomname',
                                           values=list(cfg['names']))
    regions = None
    if cfg['dom'][0] == 'chain':
        kw['domain_criterion'] = ARB.same_chain
    elif cfg['dom'][0] == 'regions':
        regions = [tuple(r) for r in cfg['dom'][1]]
        kw['domain_criterion'] = ARB.make_same_region_criterion(regions)
        # the factory must have taken its own copy: what the caller does to the list afterwards is irrelevant
        regions.append((-1000, 1000))
        regions[0] = (99999, 99999)
    elif cfg.get('pass_always'):
        kw['domain_criterion'] = ARB.always_true
    if criterion is not None:
        kw['domain_criterion'] = criterion
    if selector is not None:
        kw['selector'] = selector
    for key, name in (('rmd', 'res_min_dist'), ('bt', 'bond_type'), ('btv', 'bond_type_variable'),
                      ('rmdv', 'res_min_dist_variable')):
        if cfg[key] == 'None':
            kw[name] = None
        elif cfg[key] is not None:
            kw[name] = cfg[key]
    return ARB.ApplyRubberBand(**kw), kw


def given(v):
    return None if v in (None, 'None') else v


def expected_options(cfg, ffvars):
    """the documented resolution, stated independently: explicit value (0 included) wins, else the variable of
    the molecule's force field, else the default"""
    btv = cfg['btv'] or DEFAULT_VARS[0]
    rmdv = cfg['rmdv'] or DEFAULT_VARS[1]
    bt = given(cfg['bt'])
    if bt is None:
        bt = ffvars[btv] if btv in ffvars else 6
    rmd = given(cfg['rmd'])
    if rmd is None:
        rmd = ffvars[rmdv] if rmdv in ffvars else 2
    return bt, rmd


def proc_tokens(cfg):
    dom = cfg['dom']
    domt = [0] if dom[0] == 'always' else [1] if dom[0] == 'chain' else [2, [list(r) for r in dom[1]]]
    return [list(cfg['names']), frac(cfg['lo']), frac(cfg['U'] / UNIT), frac(cfg['a']), frac(cfg['pw']),
            frac(cfg['base']), frac(cfg['minf']), given(cfg['rmd']), given(cfg['bt']),
            cfg['btv'] or DEFAULT_VARS[0], cfg['rmdv'] or DEFAULT_VARS[1], domt]


def snapshot(proc):
    return {k: (v if isinstance(v, (int, float, str, type(None))) else id(v)) for k, v in vars(proc).items()}


# (a) resolution only: the real run_molecule with apply_rubber_band replaced by a recorder
rng = chk.rng('resolve')
res_lines, res_meta = [], []
real_arb = ARB.apply_rubber_band
record = []
ARB.apply_rubber_band = lambda molecule, selector, **kw: record.append((selector, kw))
try:
    for i in range(4000 if chk.thorough else 500):
        cfg = gen_proc(rng, decay=rng.random() < 0.3)
        cfg['pass_always'] = rng.random() < 0.5
        if rng.random() < 0.3:      # explicit zeros everywhere
            cfg.update({'lo': 0, 'a': 0, 'pw': 0, 'minf': 0, 'base': rng.choice([0, 500.0])})
        proc, kw0 = make_processor(cfg)
        snap0 = snapshot(proc)
        for j in range(rng.choice([1, 2, 3])):
            ffvars = gen_ffvars(rng)
            mol = build_molecule({'atoms': [], 'edges': [], 'params': {'ffvars': ffvars}})
            record[:] = []
            exc = None
            try:
                proc.run_molecule(mol)
            except Exception as e:  # noqa
                exc = type(e).__name__
            errs = []
            if exc or len(record) != 1:
                impl = 'error %s' % exc
                errs.append('run_molecule raised %s / did not call apply_rubber_band once' % exc)
            else:
                selector, kw = record[0]
                if selector is selectors.select_backbone:
                    names = ['BB']
                else:
                    names = list(selector.keywords['values'])
                dc = kw['domain_criterion']
                domt = ([0] if dc is ARB.always_true else [1] if dc is ARB.same_chain
                        else [2, [list(r) for r in cfg['dom'][1]]] if dc is kw0.get('domain_criterion') else ['?'])
                try:
                    impl = ' '.join([enc(names), enc(frac(kw['lower_bound'])), enc(frac(kw['upper_bound'])),
                                     enc(frac(kw['decay_factor'])), enc(frac(kw['decay_power'])),
                                     enc(frac(kw['base_constant'])), enc(frac(kw['minimum_force'])),
                                     enc(kw['bond_type']), enc(kw['res_min_dist']), enc(domt)])
                except Exception as e:  # noqa
                    impl = 'unencodable %r' % (kw,)
                bt, rmd = expected_options(cfg, ffvars)
                if kw['bond_type'] != bt or kw['bond_type'] is None:
                    errs.append('bond_type resolved to %r; constructor %r, force-field variables %r: expected %r'
                                % (kw['bond_type'], cfg['bt'], ffvars, bt))
                if kw['res_min_dist'] != rmd or kw['res_min_dist'] is None:
                    errs.append('res_min_dist resolved to %r; constructor %r, force-field variables %r: expected %r'
                                % (kw['res_min_dist'], cfg['rmd'], ffvars, rmd))
                for name, key in (('lower_bound', 'lo'), ('decay_factor', 'a'), ('decay_power', 'pw'),
                                  ('base_constant', 'base'), ('minimum_force', 'minf')):
                    if kw[name] != cfg[key] or type(kw[name]) is not type(cfg[key]):
                        errs.append('%s = %r handed on as %r' % (name, cfg[key], kw[name]))
                if kw['upper_bound'] != cfg['U'] / UNIT:
                    errs.append('upper_bound changed')
            if snapshot(proc) != snap0:
                errs.append('run_molecule changed the processor object: %r -> %r' % (snap0, snapshot(proc)))
            ln = line('resolve', proc_tokens(cfg), [[k, v] for k, v in ffvars.items()])
            chk.count('resolve_rmd_%s' % ('none' if given(cfg['rmd']) is None else 'zero' if cfg['rmd'] == 0 else 'given'))
            chk.count('resolve_bt_%s' % ('none' if given(cfg['bt']) is None else 'zero' if cfg['bt'] == 0 else 'given'))
            if j:
                chk.count('resolve_reused_processor')
            res_lines.append(ln)
            res_meta.append(('resolve-%d-%d' % (i, j), impl, errs,
                             (given(cfg['rmd']) is None or given(cfg['bt']) is None) and bool(ffvars)))
finally:
    ARB.apply_rubber_band = real_arb
res_models = chk.drv.ask(res_lines) if chk.lean_ok else [None] * len(res_lines)
for ln, (cid, impl, errs, nt), mo in zip(res_lines, res_meta, res_models):
    chk.case(cid, ln, impl, mo, errs, nt)


# (b) histories: ONE processor applied to 2-3 molecules with different force fields; each application must equal
#     what a fresh processor gives and what the model gives
def canon_result(spec, exc, rubber, warns, ktab_fn):
    sel = selected_atoms(spec)
    if exc is not None:
        return 'error'
    if not sel:
        return 'none' if not rubber and not warns else 'bonds-without-selection'
    if warns and not rubber:
        return 'nanwarn'
    bl, bts = [], set()
    for inter in rubber:
        a, b = inter.atoms
        bt, length, fc = inter.parameters
        bts.add(bt)
        pa = next((pos_of(x) for x in spec['atoms'] if x['key'] == a), None)
        pb = next((pos_of(x) for x in spec['atoms'] if x['key'] == b), None)
        kexp = ktab_fn(d2_of(pa, pb)) if pa is not None and pb is not None else None
        fcf = float(fc)
        if kexp is not None and not exact_pair(spec['params'], d2_of(pa, pb)) and close(fcf, kexp):
            fcf = kexp
        bl.append([a, b, n5_of(inter)] + frac(fcf))
    out = 'bonds ' + enc(bl) + (' +warning' if warns else '')
    if bl:
        out += ' bt=' + ','.join(str(b) for b in sorted(bts, key=str))
    return out


def apply_proc(proc, spec):
    mol = build_molecule(spec)
    HANDLER.records[:] = []
    exc = None
    try:
        with np.errstate(all='ignore'):
            proc.run_molecule(mol)
    except Exception as e:  # noqa
        exc = type(e).__name__
    warns = [r for r in HANDLER.records if r.levelno >= logging.WARNING]
    after = mol.interactions.get('bonds', [])
    rubber = [i for i in after if i.meta.get('group') == 'Rubber band' and i.meta.get('verif_existing') is None]
    return exc, rubber, warns


def one_application(proc, cfg, rng, j, errs):
    """apply `proc` (built from `cfg`, maybe long ago, maybe sharing objects with others) to a new molecule; compare
    with a FRESH processor built from cfg, judge with the criteria oracle; returns (tokens of the molecule for the
    model, canonical result, resolved separation, any bond?, skip?)"""
    g = gen_spec(rng, False)
    ffvars = gen_ffvars(rng)
    bt, rmd = expected_options(cfg, ffvars)
    p = {'names': cfg['names'], 'U': cfg['U'], 'lo': cfg['lo'], 'a': cfg['a'], 'pw': cfg['pw'], 'base': cfg['base'],
         'minf': cfg['minf'], 'sep': rmd, 'dom': cfg['dom'], 'via': 'history', 'bond_type': bt,
         'expect_bt': bt, 'expect_sep': rmd, 'ffvars': ffvars}
    spec = {'atoms': g['atoms'], 'edges': g['edges'], 'params': p}
    sel = selected_atoms(spec)
    ktab, skip = {}, False
    exact = cfg['a'] == 0.0
    if not exact:
        pts = [pos_of(a) for a in sel if pos_of(a) is not None]
        for x, pa in enumerate(pts):
            for pb in pts[x + 1:]:
                d2 = d2_of(pa, pb)
                if d2 not in ktab:
                    ktab[d2] = k_expected(p, d2)
                    if ktab[d2] != ktab[d2] or near_thr(ktab[d2], p['minf']):
                        skip = True
        if 0 not in ktab and k_expected(p, 0) == k_expected(p, 0):
            ktab[0] = k_expected(p, 0)
    ktab_fn = (lambda d2, p=p: p['base']) if exact else (lambda d2, ktab=ktab, p=p: ktab[d2] if d2 in ktab else k_expected(p, d2))
    exc, rubber, warns = apply_proc(proc, spec)
    fresh, _ = make_processor(cfg)
    fexc, frubber, fwarns = apply_proc(fresh, spec)
    impl = canon_result(spec, exc, rubber, warns, ktab_fn)
    fimpl = canon_result(spec, fexc, frubber, fwarns, ktab_fn)
    if impl != fimpl:
        errs.append('application %d of a reused processor gives %s; a fresh processor with the same arguments gives '
                    '%s (force-field variables %r)' % (j + 1, clip(impl, 200), clip(fimpl, 200), ffvars))
    table = criteria_table(spec, ktab_fn)
    errs += ['application %d: %s' % (j + 1, e) for e in oracle(spec, exc, rubber, warns, True, table, ktab_fn,
                                                                 sink=errs, prefix='application %d: ' % (j + 1))]
    atoms_t = []
    for a in spec['atoms']:
        pos = a['pos']
        atoms_t.append([a['key'], a.get('name'), a.get('chain'), a.get('resid'), a.get('resname'), a.get('icode'),
                        a.get('old'), [] if pos in ('nan', 'nan2') else pos])
    mol_t = [atoms_t, [list(e) for e in spec['edges']], [[k, v] for k, v in ffvars.items()],
             [[d2] + frac(k) for d2, k in sorted(ktab.items())] if not exact else []]
    return mol_t, impl, rmd, bool(rubber), skip


rng = chk.rng('history')
hist_lines, hist_meta = [], []
for i in range(2500 if chk.thorough else 260):
    decay = rng.random() < 0.25
    cfg = gen_proc(rng, decay)
    proc, _ = make_processor(cfg)
    snap0 = snapshot(proc)
    n_app = rng.choice([2, 2, 3])
    mols, impls, errs, skip, nontriv, finding = [], [], [], False, False, None
    seps = set()
    for j in range(n_app):
        mol_t, impl, rmd, any_bond, sk = one_application(proc, cfg, rng, j, errs)
        skip = skip or sk
        if snapshot(proc) != snap0:
            errs.append('application %d changed the processor object: %r' % (j + 1, snapshot(proc)))
        mols.append(mol_t)
        impls.append(impl)
        seps.add(rmd)
        nontriv = nontriv or any_bond
    if skip:
        chk.count('excluded_near_minimum_force')
        LEN_CHECKS[:] = [c for c in LEN_CHECKS if c[0] is not errs]
        continue
    chk.count('history_applications=%d' % n_app)
    chk.count('history_rmd_%s' % ('none' if given(cfg['rmd']) is None else 'zero' if cfg['rmd'] == 0 else 'given'))
    if len(seps) > 1:
        chk.count('history_separation_differs_between_applications')
    chk.count('history_domain_' + cfg['dom'][0])
    hist_lines.append(line('history', proc_tokens(cfg), mols))
    hist_meta.append(('history-%d' % i, ' ; '.join(impls), errs, nontriv and len(seps) > 1))
hist_models = chk.drv.ask(hist_lines) if chk.lean_ok else [None] * len(hist_lines)
flush_len_checks()
for ln, (cid, impl, errs, nt), mo in zip(hist_lines, hist_meta, hist_models):
    chk.case(cid, ln, impl, mo, errs, nt)

# (b2) several processors sharing ONE criterion object (and often one selector object), applied interleaved
rng = chk.rng('shared')
sh_lines, sh_meta = [], []
for i in range(1500 if chk.thorough else 170):
    n_proc = rng.choice([2, 2, 3])
    cfgs = [gen_proc(rng, rng.random() < 0.2) for _ in range(n_proc)]
    dom0 = cfgs[0]['dom']
    crit_obj = ({'always': ARB.always_true, 'chain': ARB.same_chain}.get(dom0[0])
                or ARB.make_same_region_criterion([tuple(r) for r in dom0[1]]))
    sel_obj = functools.partial(selectors.proto_select_attribute_in, attribute='atomname', values=list(cfgs[0]['names']))
    procs, n_shared = [], 0
    for k, c in enumerate(cfgs):
        share = k == 0 or rng.random() < 0.75
        kw = {}
        if share:
            c['dom'] = dom0
            c['pass_always'] = True
            kw['criterion'] = crit_obj
            n_shared += 1
            if rng.random() < 0.5:
                c['names'], c['default_selector'] = list(cfgs[0]['names']), False
                kw['selector'] = sel_obj
        procs.append(make_processor(c, **kw)[0])
    snaps = [snapshot(p) for p in procs]
    cells = None
    if getattr(crit_obj, '__closure__', None):
        cells = repr([c.cell_contents for c in crit_obj.__closure__])
    sched = [rng.randrange(n_proc) for _ in range(rng.choice([3, 4, 4, 5]))]
    entries, impls, errs, skip, nontriv = [], [], [], False, False
    for j, k in enumerate(sched):
        mol_t, impl, rmd, any_bond, sk = one_application(procs[k], cfgs[k], rng, j, errs)
        skip = skip or sk
        entries.append([k, mol_t])
        impls.append(impl)
        nontriv = nontriv or any_bond
        for q, (pr, sn) in enumerate(zip(procs, snaps)):
            if snapshot(pr) != sn:
                errs.append('application %d (processor %d) changed processor %d: %r' % (j + 1, k, q, snapshot(pr)))
        if cells is not None and repr([c.cell_contents for c in crit_obj.__closure__]) != cells:
            errs.append('application %d changed what the shared criterion holds: %s' % (j + 1, cells))
    if skip:
        chk.count('excluded_near_minimum_force')
        LEN_CHECKS[:] = [c for c in LEN_CHECKS if c[0] is not errs]
        continue
    chk.count('shared_processors=%d_sharing_the_criterion=%d' % (n_proc, n_shared))
    chk.count('shared_domain_' + dom0[0])
    sh_lines.append(line('shared', [proc_tokens(c) for c in cfgs], entries))
    sh_meta.append(('shared-%d' % i, ' ; '.join(impls), errs, nontriv and n_shared > 1 and len(set(sched)) > 1))
sh_models = chk.drv.ask(sh_lines) if chk.lean_ok else [None] * len(sh_lines)
flush_len_checks()
for ln, (cid, impl, errs, nt), mo in zip(sh_lines, sh_meta, sh_models):
    chk.case(cid, ln, impl, mo, errs, nt)

# (c) the region criterion on its own: overlapping, unordered, reused, caller mutates its list afterwards
rng = chk.rng('regions')
reg_lines, reg_meta = [], []
for i in range(3000 if chk.thorough else 400):
    rs = []
    a = rng.randint(-3, 6)
    for _ in range(rng.choice([1, 2, 2, 3, 4])):
        b = a + rng.choice([0, 1, 2, 3, 5])
        rs.append((a, b) if rng.random() < 0.6 else (b, a))
        a = rng.choice([b - 2, b - 1, b, b + 1, b + 3])
    if rng.random() < 0.5:
        rng.shuffle(rs)
    handed = list(rs)
    crit_fn = ARB.make_same_region_criterion(handed)
    handed[:] = [(-50, 50)]                      # the caller's list changes after the criterion was made
    lo_all = min(min(r) for r in rs) - 2
    hi_all = max(max(r) for r in rs) + 2
    g = nx.Graph()
    vals = {}
    for k in range(6):
        resid = rng.randint(lo_all, hi_all)
        attrs = {'resid': resid}
        if rng.random() < 0.5:
            attrs['_old_resid'] = rng.randint(lo_all, hi_all)
        g.add_node(k, **attrs)
        vals[k] = attrs.get('_old_resid', resid)
    for _ in range(6):                           # the same criterion object is asked several times
        l, r = rng.randrange(6), rng.randrange(6)
        try:
            got = bool(crit_fn(g, l, r))
            got_rev = bool(crit_fn(g, r, l))
            impl = enc(got)
        except Exception as e:  # noqa
            got = got_rev = None
            impl = 'error ' + type(e).__name__
        want = any(min(x) <= vals[l] <= max(x) and min(x) <= vals[r] <= max(x) for x in rs)
        errs = []
        if got is not want:
            errs.append('regions %r: residues %d and %d -> %r, but %s region holds both' % (rs, vals[l], vals[r], got,
                                                                                          'a' if want else 'no'))
        if got_rev is not got:
            errs.append('regions %r: criterion(%d, %d) = %r but criterion(%d, %d) = %r' % (rs, vals[l], vals[r], got,
                                                                                         vals[r], vals[l], got_rev))
        overlapping = any(max(min(x), min(y)) <= min(max(x), max(y)) for ix, x in enumerate(rs) for y in rs[ix + 1:])
        chk.count('regions_overlapping' if overlapping else 'regions_disjoint')
        reg_lines.append(line('region', [list(x) for x in rs], vals[l], vals[r]))
        reg_meta.append(('region-%d-%d-%d' % (i, l, r), impl, errs, overlapping and want))
reg_models = chk.drv.ask(reg_lines) if chk.lean_ok else [None] * len(reg_lines)
for ln, (cid, impl, errs, nt), mo in zip(reg_lines, reg_meta, reg_models):
    chk.case(cid, ln, impl, mo, errs, nt)


# ---- the command-line layer -------------------------------------------------------------------------------------
def cli_line(o, probes):
    fl = [frac(float(o['floats'][f])) if f in o['floats'] else None for f in ('-ef', '-el', '-eu', '-ea', '-ep', '-em')]
    return line('cli', bool(o['elastic']), bool(o['go']), o['ff'], *fl, o['ermd'], o['eb'], o['eunit'], bool(o.get('sep')),
                o.get('name'), probes)


if CLI_X is not None:
    # (a) int(): the model's pyInt against Python on random ASCII strings
    rng = chk.rng('pyint')
    ALPH = '0123456789' * 3 + '+-_ \t\n\r\x0b\x0c' + '.xeE:,a\x1c'
    ilines, imeta = [], []
    for i in range(6000 if chk.thorough else 700):
        if rng.random() < 0.5:
            st = c15_cli.decorate_int(rng, rng.choice([0, 1, 7, 10, 12, 105, 2024, -3, -10, -999]))
            if rng.random() < 0.3:
                k = rng.randrange(len(st) + 1)
                st = st[:k] + rng.choice(ALPH) + st[k:]
        else:
            st = ''.join(rng.choice(ALPH) for _ in range(rng.choice([0, 1, 1, 2, 3, 4, 6])))
        try:
            impl = str(int(st))
        except ValueError:
            impl = '-'
        errs = []
        if (impl != '-') != c15_cli.is_int_literal(st):
            errs.append('int(%r) %s, the documented literal grammar says otherwise' % (st, 'accepted' if impl != '-' else 'rejected'))
        chk.count('pyint_' + ('accepted' if impl != '-' else 'rejected'))
        ilines.append(line('pyint', st))
        imeta.append(('pyint-%d' % i, impl, errs, impl != '-' and st.strip() != impl))
    for ln, (cid, impl, errs, nt), mo in zip(ilines, imeta, chk.drv.ask(ilines) if chk.lean_ok else [None] * len(ilines)):
        chk.case(cid, ln, impl, mo, errs, nt)

    # (b) canonical rendering of region lists: model's renderer = '%d:%d' joined by commas, and parses back
    rng = chk.rng('render')
    rlines, rmeta = [], []
    for i in range(3000 if chk.thorough else 400):
        rs = c15_cli.gen_regions(rng)
        if rng.random() < 0.2:
            rs = [(rng.randint(-10 ** 9, 10 ** 9), rng.randint(-10 ** 12, 10 ** 12)) for _ in range(rng.choice([1, 2]))]
        text = ','.join('%d:%d' % r for r in rs)
        impl = enc(text) + ' regions ' + enc([list(r) for r in rs])
        errs = [] if c15_cli.documented_regions(text) == rs else ['rendering %r is not read back as %r' % (text, rs)]
        rlines.append(line('render', [list(r) for r in rs]))
        rmeta.append(('render-%d' % i, impl, errs, len(rs) > 1))
    for ln, (cid, impl, errs, nt), mo in zip(rlines, rmeta, chk.drv.ask(rlines) if chk.lean_ok else [None] * len(rlines)):
        chk.case(cid, ln, impl, mo, errs, nt)

    # (c) the extracted parser + statements on random option values
    rng = chk.rng('cli')
    runner = c15_cli.make_runner(CLI_X, vermouth, ARB, selectors, enc)
    clines, cmeta = [], []
    for i in range(12000 if chk.thorough else 1500):
        o = c15_cli.gen_cli_options(rng)
        argv = c15_cli.argv_of(rng, o)
        if not all(c15_cli.ascii_only(x) for x in argv):
            chk.count('cli_excluded_non_ascii')
            continue
        probes = c15_cli.probes_for(rng, o['eunit'])
        impl, info = runner(argv, probes)
        errs = c15_cli.cli_oracle(o, probes, impl, info)
        head = impl.split(' ')[0]
        chk.count('cli_outcome_' + head)
        chk.count('cli_unit_' + o['unit_kind'])
        if head == 'proc':
            chk.count('cli_domain_kind_' + info['kind'])
        clines.append(cli_line(o, probes))
        cmeta.append(('cli-%d' % i, impl, errs,
                      (head == 'proc' and info['kind'] == '2' and 1 in info['table'] and 0 in info['table'])
                      or head in ('errint', 'errfaulty')))
    for ln, (cid, impl, errs, nt), mo in zip(clines, cmeta, chk.drv.ask(clines) if chk.lean_ok else [None] * len(clines)):
        chk.case(cid, ln, impl, mo, errs, nt)


    # (c2) the molecule types after the network: the real NameMolType on systems of molecules that are equal but for their
    #      coordinates and the elastic bonds added to them
    rng = chk.rng('typesafter')
    tlines, tmeta = [], []
    for i in range(3000 if chk.thorough else 350):
        ff = vermouth.forcefield.ForceField(name='verif_c15')
        n = rng.choice([3, 4, 5])
        pairs = [(a, b) for a in range(n) for b in range(a + 1, n)]
        prior = [(a, b, [1, rng.choice([0.35, 0.47]), 1250]) for a, b in rng.sample(pairs, rng.choice([0, 1, 2]))]

        def rnet():
            return [(a, b, [6, rng.choice([0.61, 0.58, 0.58001]), rng.choice([500.0, 700.0])])
                    for a, b in rng.sample(pairs, rng.choice([0, 1, 2, 3]))]
        pool = [rnet(), rnet()]
        if pool[0]:
            v = [list(x) for x in pool[0]]
            k = rng.randrange(len(v))
            how = rng.choice(['length', 'order', 'orientation', 'drop'])
            if how == 'length':
                v[k] = (v[k][0], v[k][1], [6, v[k][2][1] + 0.00001, v[k][2][2]])
            elif how == 'order':
                v.reverse()
            elif how == 'orientation':
                v[k] = (v[k][1], v[k][0], v[k][2])
            else:
                del v[k]
            pool.append([tuple(x) for x in v])
        dedup = rng.random() < 0.8
        system = vermouth.System()
        mols_t, bondlists = [], []
        for _ in range(rng.choice([2, 2, 3, 4])):
            mol = Molecule(force_field=ff, nrexcl=1)
            for a in range(n):
                mol.add_node(a, atomname='BB', resname='ALA', resid=a + 1, chain=rng.choice('AB'),
                             position=np.array([rng.random(), rng.random(), rng.random()]))
            for a in range(n - 1):
                mol.add_edge(a, a + 1)
            for a, b, prm in prior:
                mol.add_interaction('bonds', (a, b), list(prm))
            net = rng.choice(pool)
            for a, b, prm in net:                          # what apply_rubber_band does with each emitted bond
                mol.add_interaction('bonds', atoms=(a, b), parameters=list(prm), meta={'group': 'Rubber band'})
            system.add_molecule(mol)
            enc_b = lambda a, b, prm, grp: [a, b, ' '.join(str(x) for x in prm) + grp]
            mols_t.append([n, [enc_b(a, b, prm, '') for a, b, prm in prior], [enc_b(a, b, prm, ' Rubber band') for a, b, prm in net]])
            bondlists.append([(tuple(x.atoms), list(x.parameters), dict(x.meta)) for x in mol.interactions.get('bonds', [])])
        try:
            vermouth.NameMolType(deduplicate=dedup).run_system(system)
            ids = [int(m.meta['moltype'].rsplit('_', 1)[1]) for m in system.molecules]
            impl = enc(ids)
        except Exception as e:  # noqa
            ids, impl = None, 'error ' + type(e).__name__
        errs = []
        if ids is not None:
            for x in range(len(ids)):
                for y in range(x + 1, len(ids)):
                    same = bondlists[x] == bondlists[y]
                    if (ids[x] == ids[y]) != (same and dedup):
                        errs.append('molecules %d and %d (equal but for coordinates and elastic bonds; networks %s) get the types '
                                    '%d and %d, deduplicate=%r' % (x, y, 'equal' if same else 'different', ids[x], ids[y], dedup))
        chk.count('typesafter_types=%s' % (len(set(ids)) if ids else 'error'))
        tlines.append(line('typesafter', dedup, mols_t))
        tmeta.append(('typesafter-%d' % i, impl, errs, ids is not None and dedup and 1 < len(set(ids)) < len(ids)))
    for ln, (cid, impl, errs, nt), mo in zip(tlines, tmeta, chk.drv.ask(tlines) if chk.lean_ok else [None] * len(tlines)):
        chk.case(cid, ln, impl, mo, errs, nt)

# ---- length rounding: model vs numpy on all small squared distances -----------------------------
rng = chk.rng('len5')
d2s = list(range(0, 3000 if chk.thorough else 600)) + [rng.randrange(10 ** 6) for _ in range(3000 if chk.thorough else 400)]
d2s += [(4 + 8 * j) ** 2 for j in range(40)]        # exact ties of the 5th decimal
arr = np.sqrt(np.array(d2s, dtype=float) / (UNIT * UNIT)).round(5)
llines = [line('len5', d2) for d2 in d2s]
lmodels = chk.drv.ask(llines) if chk.lean_ok else [None] * len(llines)
for d2, ln, val, mo in zip(d2s, llines, arr, lmodels):
    n5 = n5_exact(str(val))
    errs = []
    if n5 is None or not py_admissible(d2, n5):
        errs.append('round(sqrt(%d)/256, 5) = %s, nearest 1e-5 multiple is %d' % (d2, val, len5_expected(d2)))
    chk.count('len5_cases')
    chk.case('len5-%d' % d2, ln, str(n5), mo, errs, False)

# ---- (d) real command-line runs (done meanwhile in the forked child): processor built, networks produced ----------
class Inter:
    def __init__(self, atoms, parameters, rendered, meta):
        self.atoms, self.parameters, self.rendered, self.meta = tuple(atoms), parameters, rendered, meta


class Warn:
    def __init__(self, msg):
        self.msg = msg

    def getMessage(self):
        return self.msg


if CLI_HANDLE is not None:
    cli_results = c15_cli.collect_cli_runs(CLI_HANDLE)
    if cli_results is None or len(cli_results) != len(CLI_RUNS):
        chk.case('clirun-all', 'martinize2 -elastic ...', 'no result', None,
                 ['the in-process command-line runs did not come back'], True)
        cli_results = []
    run_lines, run_meta, mol_cases = [], [], []
    for i, (o, res) in enumerate(zip(CLI_RUNS, cli_results)):
        argv = cli_argv(o)
        probes = cli_probes(argv)
        oc = res['outcome']
        info = None
        if res.get('proc'):
            impl = res['proc']
            info = dict(res['info'])
            info['attrs'] = info['nums']
        elif oc == 'exit 2':
            impl = 'usage'
        elif oc.startswith('exc ValueError: Faulty resid interval'):
            impl, info = 'errfaulty', {'message': oc[len('exc ValueError: '):]}
        elif oc.startswith('exc ValueError: invalid literal for int()'):
            impl, info = 'errint', {'message': oc}
        elif oc == 'end':
            impl = 'noelastic'
        else:
            impl = oc
        errs = c15_cli.cli_oracle(o, probes, impl, info)
        if res.get('proc') and oc not in ('stop', 'end'):
            errs.append('martinize2 %s ended with %s (%s)' % (' '.join(argv), oc, res['stderr'][-200:]))
        if res.get('proc') and res['n_rb_calls'] != 1:
            errs.append('ApplyRubberBand.run_system called %d times' % res['n_rb_calls'])
        if res.get('proc') and (o['eunit'] == 'all') != (res['merged'] == 1 and len(res['mols']) == 1):
            errs.append('-eunit %r: MergeAllMolecules called %d times, %d molecules afterwards'
                        % (o['eunit'], res['merged'], len(res['mols'])))
        chk.count('clirun_' + impl.split(' ')[0])
        run_lines.append(cli_line(o, probes))
        run_meta.append(('clirun-%d' % i, impl, errs, True))
        if not res.get('proc') or res.get('mols') is None:
            continue
        nums = info['nums']
        unit = 'molecule' if o['eunit'] is None else o['eunit']
        dom = (['always'] if unit in ('molecule', 'all') else ['chain'] if unit == 'chain'
               else ['regions', [list(r) for r in (c15_cli.documented_regions(unit) or [])]])
        all_rendered = []
        for j, m in enumerate(res['mols']):
            ffv = m['ffvars']
            bt = ffv.get('elastic_network_bond_type', ARB.DEFAULT_BOND_TYPE)
            sep = int(o['ermd']) if o['ermd'] is not None else ffv.get('elastic_network_res_min_dist', ARB.DEFAULT_RMD)
            if o['ermd'] is None and 'res_min_dist' in ffv and 'elastic_network_res_min_dist' not in ffv:
                chk.count('clirun_force_field_defines_res_min_dist_%d_but_processor_reads_elastic_network_res_min_dist'
                          % ffv['res_min_dist'])
            p = {'names': info['names'], 'upper': float(nums['upper_bound']), 'lo': nums['lower_bound'],
                 'a': nums['decay_factor'], 'pw': nums['decay_power'], 'base': nums['base_constant'],
                 'minf': nums['minimum_force'], 'sep': sep, 'dom': dom, 'via': 'cli', 'bond_type': bt, 'expect_bt': bt,
                 'expect_sep': sep}
            spec = {'atoms': m['atoms'], 'edges': m['edges'], 'params': p}
            rubber = [Inter(a, prm, rnd, meta) for a, prm, rnd, meta in m['rubber']]
            all_rendered += [' '.join(b.rendered) for b in rubber]
            real = (res['exc'], rubber, [Warn(w) for w in res['warnings']], m['intact'])
            mol_cases.append(('clirun-%d-mol%d' % (i, j), spec, 'clirun', real))
        rerrs = run_meta[-1][2]
        names = res.get('names_after')
        rendered = [sorted((tuple(b[0]), ' '.join(b[2])) for b in m['rubber']) for m in res['mols']]
        if names is None:
            rerrs.append('the molecule types were not assigned again after the network')
            names = res.get('names_last')          # the types the writer will use
        if names is None or len(names) != len(res['mols']):
            rerrs.append('%d molecules, types %r' % (len(res['mols']), names))
            continue
        # same type only if same network; -sep: all types differ
        for x in range(len(names)):
            for y in range(x + 1, len(names)):
                if names[x] == names[y] and rendered[x] != rendered[y]:
                    rerrs.append('molecules %d and %d are both of type %r but carry different elastic networks (%d / %d bonds)'
                                 % (x, y, names[x], len(rendered[x]), len(rendered[y])))
                if names[x] == names[y] and o['sep']:
                    rerrs.append('-sep: molecules %d and %d share the type %r' % (x, y, names[x]))
        chk.count('clirun_types_after_network=%d_of_%d_molecules' % (len(set(names)), len(names)))
        if len(set(map(repr, rendered))) > 1:
            chk.count('clirun_molecules_with_different_networks')
        if 'itps' in res:
            # every molecule against the ITP of ITS type: same parameter strings, and every length is the distance of the
            # two beads in THIS molecule's coordinates
            for j, (m, nm) in enumerate(zip(res['mols'], names)):
                text = res['itps'].get('%s.itp' % nm)
                if text is None:
                    rerrs.append('no ITP written for type %r of molecule %d (files: %r)' % (nm, j, sorted(res['itps'])))
                    continue
                iatoms = c15_cli.itp_atoms(text)
                if [(a[1], a[2], a[3]) for a in iatoms] != [(a['resid'], a['resname'], a['name']) for a in m['atoms']]:
                    rerrs.append('the atoms of %s.itp are not those of molecule %d in order' % (nm, j))
                    continue
                node = {a[0]: at for a, at in zip(iatoms, m['atoms'])}
                lines_ = c15_cli.itp_rubber_lines(text)
                chk.count('clirun_itp_rubber_lines', len(lines_))
                if sorted(' '.join(prm) for _, _, prm in lines_) != sorted(t for _, t in rendered[j]):
                    rerrs.append('%s.itp lists %d rubber-band bonds, molecule %d (of that type) carries %d; parameters differ'
                                 % (nm, len(lines_), j, len(rendered[j])))
                for u, v, prm in lines_:
                    pu, pv = node[u]['pos'], node[v]['pos']
                    if isinstance(pu, list) and isinstance(pv, list) and len(prm) >= 2:
                        LEN_CHECKS.append((rerrs, '%s.itp, molecule %d: ' % (nm, j), (u, v), d2_of(pu, pv), prm[1]))
    flush_len_checks()
    for ln, (cid, impl, errs, nt), mo in zip(run_lines, run_meta, chk.drv.ask(run_lines) if chk.lean_ok else [None] * len(run_lines)):
        chk.case(cid, ln, impl, mo, errs, nt)
    mres = [evaluate(cid, spec, stream, real) for cid, spec, stream, real in mol_cases]
    mres = [r for r in mres if r is not None]
    mmod = chk.drv.ask([r[1] for r in mres]) if chk.lean_ok else [None] * len(mres)
    flush_len_checks()
    for (cid, ln, impl, errs, nontriv, finding), mo in zip(mres, mmod):
        if mo is not None and mo.startswith('error '):
            mo = 'error'
        chk.case(cid, ln, impl, mo, errs, bool(impl.startswith('bonds [ [')), finding=finding)

chk.finish()
