# Real charmm modifications on real charmm residues through RepairGraph + CanonicalizeModifications
# (oracle only; executed by c14.py in its namespace).
import vermouth.forcefield as _vff


def charmm_case(rng, ff):
    seq = [rng.choice(['GLY', 'ALA', 'SER', 'ASP', 'GLU', 'VAL', 'HIS']) for _ in range(rng.randint(1, 3))]
    mol = Molecule(force_field=ff)
    key = 0
    idx = []
    for r, resname in enumerate(seq, start=1):
        block = ff.blocks[resname]
        names = {}
        for n in block.nodes:
            an = block.nodes[n]['atomname']
            mol.add_node(key, atomname=an, resname=resname, resid=r, chain='A', element=an[0], atomid=key + 1)
            names[n] = key
            key += 1
        for u, v in block.edges:
            mol.add_edge(names[u], names[v])
        idx.append({block.nodes[n]['atomname']: k for n, k in names.items()})
        if r > 1:
            mol.add_edge(idx[r - 2]['C'], idx[r - 1]['N'])
    expect = {}      # resid -> set of modification names
    exact, unknown = [], []

    def attach(r, anchor, atoms, modname):
        nonlocal key
        prev = idx[r - 1][anchor]
        new = []
        for el, parent in atoms:
            mol.add_node(key, atomname='X%s%d' % (el, key), resname=seq[r - 1], resid=r, chain='A', element=el,
                         atomid=key + 1)
            mol.add_edge(prev if parent is None else new[parent], key)
            new.append(key)
            key += 1
        if modname is None:
            unknown.extend(new)
        else:
            expect.setdefault(r, set()).add(modname)
            exact.extend((k, modname) for k in new)

    n = len(seq)
    t = rng.random()
    if t < 0.5:
        attach(1, 'N', [('H', None), ('H', None)], 'N-ter')
    elif t < 0.7:
        attach(1, 'N', [('H', None)], 'NH2-ter')
    t = rng.random()
    if t < 0.4:
        attach(n, 'C', [('O', None)], 'C-ter')
    elif t < 0.7:
        attach(n, 'C', [('O', None), ('H', 0)], 'COOH-ter')
    for r, resname in enumerate(seq, start=1):
        if resname == 'ASP' and rng.random() < 0.5:
            attach(r, 'OD2', [('H', None)], 'ASP-HD2')
        if resname == 'GLU' and rng.random() < 0.5:
            attach(r, rng.choice(['OE1', 'OE2']), [('H', None)], None if False else 'GLU-HE')
        if resname == 'HIS' and rng.random() < 0.7:
            # the template has HE2 on NE2; one more H on ND1 is HIS-HD (never HIS-HP, whose HE2 is an added atom)
            attach(r, 'ND1', [('H', None)], 'HIS-HD')
        if resname in ('ALA', 'SER', 'VAL') and rng.random() < 0.25:
            attach(r, 'CB', [('S', None)] if rng.random() < 0.5 else [('S', None), ('O', 0)], None)
    return seq, mol, expect, exact, unknown


def run_charmm():
    ff = copy.deepcopy(_vff.get_native_force_field('charmm'))
    rng = chk.rng('charmm')
    n = 400 if chk.thorough else 25
    for i in range(n):
        seq, mol, expect, exact, unknown = charmm_case(rng, ff)
        resid0 = {k: mol.nodes[k]['resid'] for k in mol.nodes}
        rec = Recorder()
        lg = logging.getLogger('vermouth')
        lg.addHandler(rec)
        status = 'ok'
        flagged = []
        try:
            mol = vermouth.RepairGraph().run_molecule(mol)
            flagged = [k for k in mol.nodes if mol.nodes[k].get('PTM_atom')]
            canmod.CanonicalizeModifications().run_molecule(mol)
        except Exception as e:  # pylint: disable=broad-except
            status = 'crash-' + type(e).__name__
        finally:
            lg.removeHandler(rec)
        run = {'records': rec.records}
        warned = set()
        for w in warnings_of(run):
            if w['type'] == 'unknown-input' and w['name'].startswith('vermouth') and w['level'] == logging.WARNING:
                warned.update(w['atoms'] or [])
        errs = []
        if status != 'ok':
            errs.append('RepairGraph + CanonicalizeModifications raised %s on %s' % (status, seq))
        else:
            want_flagged = sorted([k for k, _ in exact] + unknown)
            if sorted(flagged) != want_flagged:
                errs.append('RepairGraph flagged %s, attachments are %s' % (sorted(flagged), want_flagged))
            bad_res = {resid0[k] for k in unknown}
            for k, modname in exact:
                if k not in mol.nodes:
                    # identification is all-or-nothing per group of residues: next to an unknown
                    # attachment on the same residue the atoms may be removed, with the warning
                    if resid0[k] not in bad_res:
                        errs.append('atom %d of a %s attachment was removed' % (k, modname))
                    elif k not in warned:
                        errs.append('atom %d of a %s attachment was removed without warning' % (k, modname))
                    continue
                nd = mol.nodes[k]
                names = [m.name for m in nd.get('modifications', [])]
                hit = [m for m in nd.get('modifications', []) if m.name.startswith(modname)]
                if not hit:
                    errs.append('atom %d of a %s attachment is labelled %s' % (k, modname, names))
                    continue
                ok_name = any(nd['atomname'] == (m.nodes[q].get('replace', {}).get('atomname', m.nodes[q]['atomname']))
                              and m.nodes[q].get('PTM_atom') and m.nodes[q].get('element') == nd['element']
                              for m in hit for q in m.nodes)
                if not ok_name:
                    errs.append('atom %d (%s) carries name %r which is no added atom of %s'
                                % (k, nd['element'], nd['atomname'], [m.name for m in hit]))
            for r, wanted in expect.items():
                if r in bad_res:
                    continue
                for k in mol.nodes:
                    if mol.nodes[k]['resid'] == r:
                        names = {m.name for m in mol.nodes[k].get('modifications', [])}
                        if not all(any(x.startswith(w) for x in names) for w in wanted):
                            errs.append('atom %d of residue %d is labelled %s, expected %s' % (k, r, sorted(names), sorted(wanted)))
                            break
            for k in unknown:
                if k in mol.nodes:
                    errs.append('unknown attachment atom %d is still in the molecule' % k)
                elif k not in warned:
                    errs.append('unknown attachment atom %d was removed without an unknown-input warning' % k)
            pernames = {}
            for k in mol.nodes:
                pernames.setdefault((mol.nodes[k]['resid'], mol.nodes[k]['atomname']), []).append(k)
            dup = [v for v in pernames.values() if len(v) > 1]
            if dup:
                errs.append('two atoms of one residue carry the same name after canonicalisation: %s' % dup[:2])
        chk.count('charmm_' + ('unknown' if unknown else 'exact' if exact else 'plain'))
        inp = line('charmm', seq, sorted([k, m] for k, m in exact), unknown)
        chk.case('charmm-%d' % i, inp, status, None, errs, bool(exact or unknown))


run_charmm()
