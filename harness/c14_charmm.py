# Real charmm residues with the modifications the charmm force field ships (plus one synthetic modification
# spanning two residues: charmm ships none) through RepairGraph + CanonicalizeModifications, compared with
# the Lean model (same protocol as the toy streams), the generic oracle of c14.py and expectations that come
# from how the case was built.  Executed by c14.py in its namespace.
import vermouth.forcefield as _vff

CH_RES = ['GLY', 'ALA', 'SER', 'THR', 'ASP', 'GLU', 'VAL', 'HIS', 'TYR', 'LYS']


def charmm_ff():
    ff = copy.deepcopy(_vff.get_native_force_field('charmm'))
    # synthetic: a carbon bridging the NZ of two lysines (two anchors of the same name in two residues)
    mod = Modification(force_field=ff)
    mod.name = 'XLINK-NZ'
    mod.add_node('NZ', atomname='NZ', element='N', PTM_atom=False)
    mod.add_node('CX', atomname='CX', element='C', PTM_atom=True, replace={'atomname': 'CX1'})
    mod.add_node('NZb', atomname='NZ', element='N', PTM_atom=False)
    mod.add_edges_from([('NZ', 'CX'), ('CX', 'NZb')])
    ff.modifications['XLINK-NZ'] = mod
    return ff


def charmm_case(rng, ff):
    seq = [rng.choice(CH_RES) for _ in range(rng.randint(1, 3))]
    if rng.random() < 0.25:
        seq[rng.randrange(len(seq))] = 'LYS'
        seq.append('LYS')
    n = len(seq)
    annotated = {}            # resid -> list of modification names requested through `modification`
    t = rng.random()
    if t < 0.12:
        annotated[n] = ['C-ter']
    elif t < 0.2:
        annotated[1] = ['N-ter']
    elif t < 0.25 and n >= 2:
        annotated[1] = ['N-ter']
        annotated[n] = ['COOH-ter']
    drop_hh = set()
    phos = [r for r, x in enumerate(seq, start=1) if x == 'TYR' and rng.random() < 0.7 and not annotated]
    mol = Molecule(force_field=ff)
    key = 0
    idx = []
    for r, resname in enumerate(seq, start=1):
        block = ff.blocks[resname]
        names = {}
        for nn in block.nodes:
            an = block.nodes[nn]['atomname']
            if an == 'HH' and r in drop_hh:
                continue
            kw = {'modification': list(annotated[r])} if r in annotated else {}
            mol.add_node(key, atomname=an, resname=resname, resid=r, chain='A', element=an[0], atomid=key + 1, **kw)
            names[nn] = key
            key += 1
        for u, v in block.edges:
            if u in names and v in names:
                mol.add_edge(names[u], names[v])
        idx.append({block.nodes[nn]['atomname']: k for nn, k in names.items()})
        if r > 1:
            mol.add_edge(idx[r - 2]['C'], idx[r - 1]['N'])
    att = []       # attachments: dict(atoms, mod (name or None), key (sorted anchor resids), resids)
    silently = []  # atoms RepairGraph itself removes (extra atoms of a residue with a requested modification)

    def attach(r, anchors, atoms, modname, names=None):
        """atoms: [(element, parent)] parent None = bonded to the anchor(s); names: canonical names or None"""
        nonlocal key
        new = []
        for j, (el, parent) in enumerate(atoms):
            kw = {'modification': list(annotated[r])} if r in annotated else {}
            mol.add_node(key, atomname=(names[j] if names else 'X%s%d' % (el, key)), resname=seq[r - 1], resid=r,
                         chain='A', element=el, atomid=key + 1, **kw)
            if parent is None:
                for rr, an in anchors:
                    mol.add_edge(idx[rr - 1][an], key)
            else:
                mol.add_edge(new[parent], key)
            new.append(key)
            key += 1
        att.append({'atoms': new, 'mod': modname, 'key': tuple(sorted(rr for rr, _ in anchors)), 'res': r})
        return new

    ME = [('C', None), ('H', 0), ('H', 0), ('H', 0)]
    # N-terminus
    if 'N-ter' in annotated.get(1, []):
        attach(1, [(1, 'N')], [('H', None), ('H', None)], 'N-ter', names=['HN2', 'HN3'])
        att[-1]['annot'] = True
    else:
        t = rng.random()
        if t < 0.35:
            attach(1, [(1, 'N')], [('H', None), ('H', None)], 'N-ter')
        elif t < 0.5:
            attach(1, [(1, 'N')], [('H', None)], 'NH2-ter')
        elif t < 0.62 and not annotated:
            attach(1, [(1, 'N')], ME, 'NCAP-ter')
    # C-terminus
    if n in annotated and annotated[n][0] in ('C-ter', 'COOH-ter'):
        if annotated[n][0] == 'C-ter':
            attach(n, [(n, 'C')], [('O', None)], 'C-ter', names=['OXT'])
        else:
            attach(n, [(n, 'C')], [('O', None), ('H', 0)], 'COOH-ter', names=['OXT', 'HO'])
        att[-1]['annot'] = True
    else:
        t = rng.random()
        if t < 0.3:
            attach(n, [(n, 'C')], [('O', None)], 'C-ter')
        elif t < 0.5:
            attach(n, [(n, 'C')], [('O', None), ('H', 0)], 'COOH-ter')
        elif t < 0.62 and not annotated:
            attach(n, [(n, 'C')], [('O', None), ('C', 0), ('H', 1), ('H', 1), ('H', 1)], 'CCAP-ter')
    # side chains
    lys = [r for r, x in enumerate(seq, start=1) if x == 'LYS']
    bridged = set()
    if len(lys) >= 2 and rng.random() < 0.6:
        a, b = rng.sample(lys, 2)
        attach(a, [(a, 'NZ'), (b, 'NZ')], [('C' if rng.random() < 0.8 else 'S', None)], 'XLINK-NZ')
        if mol.nodes[att[-1]['atoms'][0]]['element'] != 'C':
            att[-1]['mod'] = None
        bridged = {a, b}
    for r, resname in enumerate(seq, start=1):
        if resname == 'ASP' and rng.random() < 0.5:
            which = rng.choice(['1', '2'])
            attach(r, [(r, 'OD' + which)], [('H', None)], 'ASP-HD' + which)
        if resname == 'GLU' and rng.random() < 0.5:
            which = rng.choice(['1', '2'])
            attach(r, [(r, 'OE' + which)], [('H', None)], 'GLU-HE' + which)
        if resname == 'HIS' and rng.random() < 0.7:
            # the template has HE2 on NE2; one more H on ND1 is HIS-HD (never HIS-HP, whose HE2 is an added atom)
            attach(r, [(r, 'ND1')], [('H', None)], 'HIS-HD')
        if resname == 'LYS' and r not in bridged and rng.random() < 0.7:
            k3 = rng.random() < 0.5
            attach(r, [(r, 'NZ')], [('H', None)] * (3 if k3 else 2), 'LYS-HZ3' if k3 else 'LYS-LSN')
        if r in phos:
            attach(r, [(r, 'OH')], [('P', None), ('O', 0), ('H', 1), ('O', 0), ('O', 0)], 'TYRPHOS')
        if resname in ('ALA', 'SER', 'VAL', 'THR') and rng.random() < 0.2:
            attach(r, [(r, 'CB')], [('S', None)] if rng.random() < 0.5 else [('S', None), ('O', 0)], None)
        if resname == 'ASP' and rng.random() < 0.1:
            attach(r, [(r, 'OD2')], [('F', None)], None)       # right place, wrong element
    for a in att:
        if a['res'] in annotated and not a.get('annot'):
            silently.extend(a['atoms'])
            a['silent'] = True
    # RepairGraph (ISMAGS) needs seconds to minutes on residues with five or more extra atoms (phosphate, caps):
    # those cases are flagged here the way RepairGraph flags (every attached atom PTM_atom, template names kept)
    heavy = any(a['mod'] in ('TYRPHOS', 'CCAP-ter', 'NCAP-ter') for a in att)
    if heavy and not annotated:
        for a in att:
            for k in a['atoms']:
                mol.nodes[k]['PTM_atom'] = True
    return seq, mol, att, silently, annotated, (not heavy or bool(annotated))


def charmm_spec(mol, mods):
    """the molecule (as RepairGraph leaves it) and the library as a model spec; node keys of the modifications
    become integers (`qmaps`)"""
    atoms = []
    for k in mol.nodes:
        nd = mol.nodes[k]
        attrs = {a: v for a, v in nd.items() if a not in SKIP_ATTRS and (v is None or isinstance(v, str))}
        atoms.append([k, nd['resid'], int(bool(nd.get('PTM_atom', False))), int('modification' in nd),
                      [mods.index(m) for m in nd.get('modifications', [])], attrs])
    qmaps, mspecs = [], []
    for m in mods:
        qm = {nn: i for i, nn in enumerate(m.nodes)}
        qmaps.append(qm)
        mspecs.append({'name': m.name,
                       'atoms': [[qm[nn], int(bool(m.nodes[nn].get('PTM_atom', False))),
                                  {a: v for a, v in m.nodes[nn].items()
                                   if a not in ('PTM_atom', 'replace') and (v is None or isinstance(v, str))},
                                  m.nodes[nn].get('replace')] for nn in m.nodes],
                       'edges': [[qm[u], qm[v]] for u, v in m.edges]})
    return {'atoms': atoms, 'edges': [list(e) for e in mol.edges], 'mods': mspecs}, qmaps


def translate_run(run, qmaps):
    out = {'status': run['status'], 'records': run['records'], 'iters': []}
    for it in run['iters']:
        t = dict(it)
        t['options'] = [(mi, [[(a, qmaps[mi][q]) for a, q in pl] for pl in pls]) for mi, pls in it['options']]
        for f in ('used', 'result'):
            t[f] = None if it[f] is None else [(mi, [(a, qmaps[mi][q]) for a, q in pl]) for mi, pl in it[f]]
        out['iters'].append(t)
    return out


def run_charmm():
    ff = charmm_ff()
    mods = list(ff.modifications.values())
    rng = chk.rng('charmm')
    n = 600 if chk.thorough else 36
    rows = []
    for i in range(n):
        seq, mol, att, silently, annotated, use_repair = charmm_case(rng, ff)
        resid0 = {k: mol.nodes[k]['resid'] for k in mol.nodes}
        status = 'ok'
        known = []
        spec, qmaps, run = None, None, None
        flagged = []
        try:
            if use_repair:
                mol = vermouth.RepairGraph().run_molecule(mol)
            chk.count('charmm_through_RepairGraph' if use_repair else 'charmm_flagged_by_harness')
            flagged = [k for k in mol.nodes if mol.nodes[k].get('PTM_atom')]
            repaired = set(mol.nodes)
        except Exception as e:  # pylint: disable=broad-except
            status = 'crash-repair-' + type(e).__name__
        if status == 'ok':
            spec, qmaps = charmm_spec(mol, mods)
            mol0 = mol.copy()
            run = run_real(spec, mods, mol)
            status = run['status']
        errs = []
        impl, ln = status, line('charmm', seq, [[a['atoms'], a['mod']] for a in att], sorted(annotated))
        if run is None or status != 'ok':
            errs.append('RepairGraph + CanonicalizeModifications raised %s on %s' % (status, seq))
        else:
            trun = translate_run(run, qmaps)
            given = [[[[list(q) for q in p] for p in pls] for _, pls in it['options']] for it in trun['iters']]
            sortmods = int(any(len(it['used'] or []) >= 2 for it in run['iters'])
                           or sum(1 for it in run['iters'] if it['used']) >= 1 and any(
                               len([g for g in it['groups'] if any(spec_mods_of(spec, a) for a in g[0])]) >= 2
                               for it in run['iters']))
            ln = proto_line(spec, given, sortmods)
            impl = impl_canon(spec, mods, mol, trun, sortmods)
            gen_errs, known = split_f6(oracle(spec, mods, mol0, mol, run), f6_atoms(spec, mol, run))
            errs += gen_errs
            warned = set()
            for w in warnings_of(run):
                if w['type'] == 'unknown-input' and w['name'].startswith('vermouth') and w['level'] == logging.WARNING:
                    warned.update(w['atoms'] or [])
            # expectations from the construction
            for k in silently:
                if k in repaired:
                    errs.append('extra atom %d of a residue with a requested modification survived RepairGraph' % k)
            live = [a for a in att if not a.get('silent')]
            want_flagged = sorted(k for a in live for k in a['atoms'])
            if sorted(flagged) != want_flagged:
                errs.append('RepairGraph flagged %s, attachments are %s' % (sorted(flagged), want_flagged))
            bad_keys = {a['key'] for a in live if a['mod'] is None}
            for a in live:
                for k in a['atoms']:
                    if a['mod'] is None:
                        if k in mol.nodes:
                            errs.append('unknown attachment atom %d is still in the molecule' % k)
                        elif k not in warned:
                            errs.append('unknown attachment atom %d was removed without an unknown-input warning' % k)
                        continue
                    if k not in mol.nodes:
                        # identification is all-or-nothing per iteration (groups with the same anchor-resid key)
                        if a['key'] not in bad_keys:
                            errs.append('atom %d of a %s attachment was removed' % (k, a['mod']))
                        elif k not in warned:
                            errs.append('atom %d of a %s attachment was removed without warning' % (k, a['mod']))
                        continue
                    nd = mol.nodes[k]
                    hit = [m for m in nd.get('modifications', []) if m.name == a['mod']]
                    if not hit:
                        errs.append('atom %d of a %s attachment is labelled %s'
                                    % (k, a['mod'], [m.name for m in nd.get('modifications', [])]))
                        continue
                    ok_name = any(nd['atomname'] == (m.nodes[q].get('replace', {}).get('atomname', m.nodes[q]['atomname']))
                                  and m.nodes[q].get('PTM_atom') and m.nodes[q].get('element') == nd['element']
                                  for m in hit for q in m.nodes)
                    if not ok_name:
                        errs.append('atom %d (%s) carries name %r which is no added atom of %s'
                                    % (k, nd['element'], nd['atomname'], a['mod']))
                if a['mod'] is not None and a['key'] not in bad_keys:
                    for k in mol.nodes:
                        if mol.nodes[k]['resid'] in a['key']:
                            if a['mod'] not in {m.name for m in mol.nodes[k].get('modifications', [])}:
                                errs.append('atom %d of residue %d is not labelled %s' % (k, mol.nodes[k]['resid'], a['mod']))
                                break
            for a in live:
                if a['mod'] == 'TYRPHOS' and a['key'] not in bad_keys:
                    hh = [k for k in mol.nodes if mol.nodes[k]['resid'] == a['res'] and mol.nodes[k].get('_old_atomname') == 'HH']
                    if len(hh) != 1 or mol.nodes[hh[0]]['atomname'] is not None:
                        errs.append('TYRPHOS on residue %d: HH was not renamed to None (replace)' % a['res'])
            pernames = {}
            for k in mol.nodes:
                if mol.nodes[k]['atomname'] is not None:
                    pernames.setdefault((mol.nodes[k]['resid'], mol.nodes[k]['atomname']), []).append(k)
            dup = [v for v in pernames.values() if len(v) > 1]
            if dup:
                errs.append('two atoms of one residue carry the same name after canonicalisation: %s' % dup[:2])
            for it in run['iters']:
                chk.count('charmm_iter_' + ('unknown' if it['result'] is None else 'identified'))
                if it['result'] and len(it['result']) >= 2:
                    chk.count('charmm_two_modifications_one_iteration')
                if it['used']:
                    chk.count('charmm_annotated_branch')
                if len(set(it['key'])) >= 2:
                    chk.count('charmm_spans_residues')
        for a in att:
            chk.count('charmm_' + (a['mod'] or 'unknown') + ('_annotated' if a.get('annot') else '')
                      + ('_removed_by_repair_graph' if a.get('silent') else ''))
        rows.append(('charmm-%d' % i, ln, impl, errs, bool(att), run is not None and status == 'ok', known))
    models = chk.drv.ask([r[1] for r in rows if r[5]]) if chk.lean_ok else []
    mi = iter(models)
    for cid, ln, impl, errs, nontriv, has_model, known in rows:
        model = next(mi, None) if has_model and chk.lean_ok else None
        case_f6(cid, ln, impl, model, errs, known, nontriv)


run_charmm()
