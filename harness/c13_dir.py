"""C13: loading from DIRECTORIES - `ForceField(directory)` (vermouth/forcefield.py: __init__, read_from,
_read_from_file, iter_force_field_files) and `read_mapping_directory` (vermouth/map_input.py) on real
temporary directories, against the Lean model `C13.Dir` (lean/VermouthModel/C13_Dir.lean).

Protocol
    ffdir <directory|-> <name|-> [ [ name isdir [ lines ] ] ... ]   (entries in os.scandir order)
          -> "error" | "unmodelled" | [ name [ names read, in order ] [ dump variables ] ]
    splitext <name> -> [ os.path.splitext(name)[-1]  os.path.basename(name) ]
    mapdir <backmap library> <mapping library> [ tree ... ]         tree := [ 0 name [ lines ] ] | [ 1 name [ tree ... ] ]
          -> "error" | [ [ ff_from ff_to key path index ] ... ]     key := [ 0 name ] | [ 1 [ names ] ]
"""
import hashlib
import os
import shutil
import sys
import tempfile

from common import *

_REAL_SCANDIR = os.scandir
# a memory file system when there is one (directory operations on the default one are slow here)
_TMPROOT = '/dev/shm' if os.path.isdir('/dev/shm') and os.access('/dev/shm', os.W_OK) else None
_OPENED = None          # list the audit hook appends to while a directory is being loaded
_HOOKED = False


def _audit(event, args):
    if _OPENED is not None and event == 'open' and isinstance(args[0], str):
        _OPENED.append(args[0])


def _hook():
    global _HOOKED
    if not _HOOKED:
        sys.addaudithook(_audit)
        _HOOKED = True


class _ScanResult:
    def __init__(self, entries):
        self.entries = entries

    def __iter__(self):
        return iter(self.entries)

    def __enter__(self):
        return self

    def __exit__(self, *a):
        return False

    def close(self):
        pass


class Enumeration:
    """The order in which the operating system enumerates a directory is not specified. Policy None = what
    this file system does; a string = a deterministic pseudo-random order (as another file system might
    give), installed by replacing os.scandir, which is what glob and pathlib iterate."""

    def __init__(self, policy):
        self.policy = policy

    def entries(self, path='.'):
        with _REAL_SCANDIR(path) as it:
            es = list(it)
        if self.policy is None:
            return es
        if self.policy == 'sorted':
            return sorted(es, key=lambda e: e.name)
        if self.policy == 'reversed':
            return sorted(es, key=lambda e: e.name, reverse=True)
        return sorted(es, key=lambda e: hashlib.sha1((self.policy + '|' + e.name).encode()).hexdigest())

    def __enter__(self):
        if self.policy is not None:
            os.scandir = lambda path='.': _ScanResult(self.entries(path))
        return self

    def __exit__(self, *a):
        os.scandir = _REAL_SCANDIR
        return False


FF_NAMES = ['a.ff', 'b.ff', 'aa.ff', 'z.ff', 'm.ff', 'links.ff', '0.ff', 'x.y.ff', 'A.ff', 'mods.ff']
DISTRACTORS = ['c.FF', '.hidden.ff', 'x.ff~', 'notes.txt', 'ff', 'a.ff.bak', 'b.itp', '.ff', 'readme', 'q.rtp.txt']


def run_ffdir(chk, ask, Gen, inject, FAULTS, dump_ff, load_ff, repr_j, pending):
    from vermouth.forcefield import ForceField
    _hook()
    global _OPENED
    rng = chk.rng('ffdir')
    base = tempfile.mkdtemp(prefix='c13dir_', dir=_TMPROOT)
    cases = []
    try:
        n = 2500 if chk.thorough else 180
        for i in range(n):
            d = os.path.join(base, 'case%d' % i)
            os.mkdir(d)
            files = {}           # name -> lines (None = directory)
            gens = {}
            for name in rng.sample(FF_NAMES, rng.randint(2, 4)):
                g = Gen(rng)
                if rng.random() < 0.5:
                    g.variables_section()
                g.build()
                files[name], gens[name] = g.text(), g
            fault = None
            k = rng.random()
            if k < 0.12:
                name = rng.choice(sorted(gens))
                f = rng.choice([x for x in FAULTS if x != 'index_zero'])
                bad = inject(gens[name], f, rng)
                if bad is not None:
                    files[name], fault = bad, 'file:' + f
            elif k < 0.17:
                files[rng.choice(['sub.ff', 'd.rtp', 'x.bib'])] = None
                fault = 'directory-named-like-a-file'
            for name in rng.sample(DISTRACTORS, rng.randint(0, 3)):
                files[name] = rng.choice([[], ['[ link ]', '[ bonds ]', 'QQ1 QQ2 1'], ['[ nonsense ]', 'x']])
            if rng.random() < 0.3:
                files[rng.choice(['e.rtp', 'lib.rtp'])] = []
            if rng.random() < 0.3:
                files[rng.choice(['cite.bib', 'a.bib'])] = rng.choice([[], ['', '  ']])
            if rng.random() < 0.15:
                files['inner'] = None         # an ordinary sub-directory: there is no recursion
            names = sorted(files)
            rng.shuffle(names)
            for name in names:
                p = os.path.join(d, name)
                if files[name] is None:
                    os.mkdir(p)
                    if name == 'inner':
                        open(os.path.join(p, 'deep.ff'), 'w').write('[ link ]\n[ bonds ]\nDEEP1 DEEP2 1\n')
                else:
                    open(p, 'w').write('\n'.join(files[name]) + ('\n' if files[name] else ''))
            policy = None if i % 2 == 0 else 'h%d' % i
            how = rng.random()
            given = None if how < 0.6 else rng.choice(['martini', 'x', ''])
            arg = d + '/' if 0.55 < how < 0.6 else d
            cases.append((d, arg, given, files, policy, fault))
        # without a directory
        cases += [(None, None, 'verif', {}, None, None), (None, None, None, {}, None, 'no-name'),
                  (None, None, '', {}, None, None)]
        reqs, metas = [], []
        for d, arg, given, files, policy, fault in cases:
            enum = Enumeration(policy)
            listing = []
            if d is not None:
                for e in enum.entries(d):
                    isdir = e.is_dir()
                    ls = [] if isdir else open(e.path).read().split('\n')
                    listing.append([e.name, 1 if isdir else 0, ls])
            reqs.append(line('ffdir', arg, given, listing))
            metas.append((enum, listing))
        models = ask(reqs)
        for ci, ((d, arg, given, files, policy, fault), (enum, listing), ln, mo) in enumerate(zip(cases, metas, reqs, models)):
            _OPENED = []
            try:
                with enum:
                    try:
                        kw = {}
                        if given is not None:
                            kw['name'] = given
                        ff = ForceField(arg, **kw) if arg is not None else ForceField(**kw)
                        exc = None
                    except Exception as e:
                        ff, exc = None, type(e).__name__
            finally:
                opened, _OPENED = _OPENED, None
            opened = [os.path.basename(p) for p in opened if d is not None and os.path.dirname(p) == d]
            if ff is None:
                im = 'error'
            else:
                variables = [[k, repr_j(v)] for k, v in ff.variables.items()]
                im = enc([ff.name, opened, [dump_ff(ff), variables]])
            errs = []
            # ---- oracle: stated on the files and what was loaded, not on the model ----
            names = [l[0] for l in listing]
            eligible = [x for x in names if not x.startswith('.') and x.endswith(('.rtp', '.ff', '.bib'))]
            hidden = [x for x in names if x.startswith('.') and x.endswith(('.rtp', '.ff', '.bib'))]
            if hidden:
                chk.count('ffdir_hidden_file_not_read')
            alone = {}
            for x in eligible:
                if files.get(x) is not None and x.endswith('.ff'):
                    alone[x] = load_ff(files[x])[0]
            must_fail = (any(files.get(x) is None for x in eligible) or any(v is None for v in alone.values())
                         or (arg is None and given is None))
            if ff is None:
                if not must_fail:
                    errs.append('well-formed directory rejected with %s' % exc)
                chk.count('ffdir_rejected_' + (fault or 'other').split(':')[0])
            else:
                if must_fail:
                    errs.append('a directory with a malformed force field file (%s) was loaded' % fault)
                if sorted(opened) != sorted(eligible):
                    errs.append('force field files of the directory %r, files opened %r' % (sorted(eligible), opened))
                if arg is not None:
                    want_name = given if given is not None else os.path.basename(arg)
                    if ff.name != want_name:
                        errs.append('name %r, expected %r' % (ff.name, want_name))
                if not must_fail:
                    order = [x for x in opened if x in alone]
                    got = dump_ff(ff)
                    adump = {x: dump_ff(alone[x]) for x in order}
                    want_links = [l for x in order for l in adump[x][1]]
                    if got[1] != want_links:
                        errs.append('links are not the concatenation of the links of %r in reading order' % order)
                    for idx, what in ((0, 'blocks'), (2, 'modifications')):
                        want = {}
                        for x in order:
                            for row in adump[x][idx]:
                                want[row[0]] = row
                        if [r[0] for r in got[idx]] != list(want):
                            errs.append('%s %r, declared in reading order %r' % (what, [r[0] for r in got[idx]], list(want)))
                        elif got[idx] != list(want.values()):
                            errs.append('a %s entry is not the last declaration of its name in reading order' % what[:-1])
                        if sum(len(adump[x][idx]) for x in order) > len(want):
                            chk.count('ffdir_%s_redeclared_in_later_file' % what)
                    wantv = {}
                    for x in order:
                        wantv.update(alone[x].variables)
                    if list(ff.variables.items()) != list(wantv.items()):
                        errs.append('variables %r, declared %r' % (ff.variables, wantv))
                    chk.count('ffdir_files_read=%d' % min(len(order), 4))
                    if order != sorted(order):
                        chk.count('ffdir_read_in_unsorted_order')
                chk.count('ffdir_loaded')
            chk.count('ffdir_enumeration_' + ('natural' if policy is None else 'permuted'))
            if mo == 'unmodelled':
                chk.count('ffdir_unmodelled')
                mo = None
            chk.case('ffdir-%d' % ci, ln, im, mo, errs, d is not None and (len(files) >= 3 or fault is not None))

        # ---- the result depends on the enumeration order (no sort in iter_force_field_files) ----
        dep = 0
        for ci, (d, arg, given, files, policy, fault) in enumerate(cases[:(400 if chk.thorough else 30)]):
            if d is None or fault:
                continue
            res = []
            for pol in ('sorted', 'reversed'):
                with Enumeration(pol):
                    try:
                        f2 = ForceField(d)
                        res.append(enc([dump_ff(f2), [[k, repr_j(v)] for k, v in f2.variables.items()]]))
                    except Exception:
                        res.append('error')
            if res[0] != res[1]:
                dep += 1
                pending('F-C13-12', 'ffdir-%d' % ci,
                        'ForceField(directory) reads the files in os.scandir order (no sort): the same directory '
                        'gives different links order / a different winner for a redeclared block under two '
                        'enumeration orders; files %r' % sorted(x for x in files if x.endswith('.ff')))
        chk.count('ffdir_result_depends_on_enumeration_order', dep)

        # ---- glob metacharacters in the directory name: it is used as a PATTERN ----
        os.mkdir(os.path.join(base, 'ff1'))
        open(os.path.join(base, 'ff1', 'other.ff'), 'w').write('[ link ]\n[ bonds ]\nX Y 1\n[ link ]\n[ bonds ]\nY Z 1\n')
        for j, dn in enumerate(['ff[1]', 'ff[2]', 'mar*tini', 'what?', 'plain']):
            d = os.path.join(base, dn)
            os.mkdir(d)
            open(os.path.join(d, 'a.ff'), 'w').write('[ link ]\n[ bonds ]\nA B 1\n')
            try:
                ff = ForceField(d)
                got = [sorted(str(n) for n in l.nodes) for l in ff.links]
            except Exception:
                got = None
            ok = got == [['A', 'B']]
            chk.count('ffdir_magic_name_%s' % ('loaded' if ok else 'WRONG' if got is not None else 'error'))
            errs = []
            if not ok and '[' in dn:
                pending('F-C13-11', 'ffdir-magic-%d' % j,
                        'ForceField(%r): the directory name is used as a glob pattern; its own a.ff (one link A-B) is '
                        'not read and nothing is raised; loaded links: %r (ff[1] reads the files of the sibling '
                        'directory ff1 instead, ff[2] returns an empty force field)' % (dn, got))
            elif not ok:
                errs.append('ForceField(%r) on a directory with one .ff file declaring one link A-B: %r' % (dn, got))
            chk.case('ffdir-magic-%d' % j, 'ForceField(<tmp>/%s)' % dn, str(got), None, errs, True)
        # ---- find_force_fields(directory[, force_fields]): one force field per sub-directory that has force
        #      field files, in os.listdir order; a name already in the dictionary is updated in place ----
        from vermouth.forcefield import find_force_fields
        from vermouth.ffinput import read_ff
        fcases = []
        for i in range(400 if chk.thorough else 40):
            top = os.path.join(base, 'top%d' % i)
            os.mkdir(top)
            subs = rng.sample(['martini', 'aa', 'cg', 'x.y', 'Z'], rng.randint(1, 3))
            fault = None
            for sname in subs:
                os.mkdir(os.path.join(top, sname))
                for fn in rng.sample(FF_NAMES, rng.randint(1, 2)):
                    g = Gen(rng)
                    if rng.random() < 0.4:
                        g.variables_section()
                    g.build()
                    text = g.text()
                    if fault is None and rng.random() < 0.08:
                        bad = inject(g, 'unknown_section', rng)
                        if bad is not None:
                            text, fault = bad, 'file'
                    open(os.path.join(top, sname, fn), 'w').write('\n'.join(text) + '\n')
            if rng.random() < 0.5:
                os.mkdir(os.path.join(top, 'empty'))
                open(os.path.join(top, 'empty', 'readme.txt'), 'w').write('nothing\n')
            if rng.random() < 0.5:
                open(os.path.join(top, 'stray.ff'), 'w').write('[ link ]\n[ bonds ]\nS1 S2 1\n')
            pre = []
            if rng.random() < 0.5:
                g = Gen(rng).build()
                pre.append([rng.choice(subs + ['unrelated']), g.text()])
            fcases.append((top, pre, fault))
        reqs, listings = [], []
        for top, pre, fault in fcases:
            enum = Enumeration(None)
            tl = []
            for name in os.listdir(top):
                p = os.path.join(top, name)
                if os.path.isdir(p):
                    tl.append([name, 1, [[e.name, 1 if e.is_dir() else 0, [] if e.is_dir() else open(e.path).read().split('\n')]
                                         for e in enum.entries(p)]])
                else:
                    tl.append([name, 0])
            reqs.append(line('findffs', pre, tl))
            listings.append(tl)
        for ci, ((top, pre, fault), tl, ln, mo) in enumerate(zip(fcases, listings, reqs, ask(reqs))):
            given = {}
            pre_error = None
            for name, text in pre:
                given[name] = ForceField(name=name)
                try:
                    read_ff(text, given[name])
                except Exception as e:   # a well-formed generated file that the real reader refuses
                    pre_error = '%s: %s' % (type(e).__name__, str(e)[:160])
            before = {k: len(v.links) for k, v in given.items()}
            try:
                if pre_error is not None:
                    raise IOError(pre_error)
                out = find_force_fields(top, dict(given)) if pre else find_force_fields(top)
                im = enc([[k, [dump_ff(v), [[a, repr_j(b)] for a, b in v.variables.items()]]] for k, v in out.items()])
            except Exception as e:
                out, im = None, 'error'
            errs = []
            if out is None:
                if fault is None:
                    errs.append('well-formed force field library rejected' + (' (pre-loaded file: %s)' % pre_error if pre_error else ''))
            else:
                if fault is not None:
                    errs.append('a library with a malformed file was loaded')
                want = list(given) + [t[0] for t in tl if t[1] == 1 and t[0] not in given
                                      and any(x[0].endswith(('.ff', '.rtp', '.bib')) and not x[0].startswith('.') for x in t[2])]
                if list(out) != want:
                    errs.append('force fields %r, sub-directories with force field files (after those given) %r' % (list(out), want))
                for k, v in out.items():
                    if v.name != k:
                        errs.append('force field %r registered under %r' % (v.name, k))
                for k, n0 in before.items():
                    if k in out and out[k] is given[k] and len(out[k].links) < n0:
                        errs.append('updating %r lost links' % k)
                if any(k in [t[0] for t in tl if t[1] == 1] for k in given):
                    chk.count('findffs_updated_existing')
            chk.count('findffs_' + ('loaded' if out is not None else 'rejected'))
            chk.case('findffs-%d' % ci, ln, im, mo, errs, True)
    finally:
        os.scandir = _REAL_SCANDIR
        shutil.rmtree(base, ignore_errors=True)

    # ---- os.path.splitext / basename as used by _read_from_file / __init__ ----
    names = ['a.ff', '.ff', '..ff', 'a..ff', 'a.b.ff', 'ff', 'a.', '.', '..', '', 'x.rtp.ff', '...a.ff', 'a.ff.', '.a', 'a.FF',
             'dir/a.ff', 'dir.x/a', '/abs/path/', 'p/q', 'p/.ff']
    alpha = ['a', 'b', '.', '.', 'f', '/']
    for _ in range(2000 if chk.thorough else 300):
        names.append(''.join(rng.choice(alpha) for _ in range(rng.randint(0, 7))))
    reqs = [line('splitext', x) for x in names]
    lasts = ask([line('splitext', x.rsplit('/', 1)[-1]) for x in names])
    for x, ln, mo, lm in zip(names, reqs, ask(reqs), lasts):
        # the model's splitext works on a directory entry (no '/'): extension of the last component
        im = enc([os.path.splitext(x)[-1], os.path.basename(x)])
        if mo is not None:
            mo = enc([dec(lm)[0][0], dec(mo)[0][1]])
        chk.count('splitext')
        chk.case('splitext-' + x, ln, im, mo, [], '.' in x)


# ----------------------------------------------------------------------------------------------
# read_mapping_directory
# ----------------------------------------------------------------------------------------------
def gen_map_file(rng, spec):
    """a backward-style .map file over the toy force fields aa -> cg (and sometimes back)"""
    lines = []
    if rng.random() < 0.3:
        lines += ['; a mapping file', '']
    for res in rng.sample(['ALA', 'GLY', 'SER'], rng.randint(1, 3)):
        back = rng.random() < 0.2
        f, t = ('cg', 'aa') if back else ('aa', 'cg')
        lines += [rng.choice(['[ molecule ]', '[molecule]']), res]
        if rng.random() < 0.3:
            lines.append(rng.choice(['', '   ', '; note']))
        lines += ['[ from ]', f, '[ to ]', t, '[ atoms ]']
        fa = [a for a, _, _ in spec[f]['blocks'][res]]
        ta = [a for a, _, _ in spec[t]['blocks'][res]]
        for k, a in enumerate(rng.sample(fa, rng.randint(1, len(fa)))):
            nulls = {x for x in ta if rng.random() < 0.15}
            tos = [('!' + x) if x in nulls else x for x in (rng.choice(ta) for _ in range(rng.randint(0, 3)))]
            lines.append('%d %s %s' % (k + 1, a, ' '.join(tos)))
            if rng.random() < 0.1:
                lines.append('')
    return lines


def run_mapdir(chk, ask, backmap_library):
    import c13_mapping
    from vermouth import map_input
    _hook()
    global _OPENED
    rng = chk.rng('mapdir')
    ffs = c13_mapping.toy_ffs()
    blib = backmap_library(ffs)
    mlib = c13_mapping.library(ffs)
    base = tempfile.mkdtemp(prefix='c13map_', dir=_TMPROOT)
    MAPN = ['a.map', 'b.map', '.c.map', 'zz.map', 'x.y.map']
    MPGN = ['n.mapping', 'o.mapping', '.p.mapping']
    OTHER = ['A.MAP', 'z.backmap', 'notes.txt', 'map', 'q.map~', 'r.mappings']
    SUBS = ['sub', '.hid', 'deep']
    try:
        cases = []
        for i in range(1500 if chk.thorough else 160):
            root = os.path.join(base, 'm%d' % i)
            os.mkdir(root)
            dirs = ['']
            for s in rng.sample(SUBS, rng.randint(0, 2)):
                parent = rng.choice(dirs)
                os.mkdir(os.path.join(root, parent, s))
                dirs.append(os.path.join(parent, s))
            fault = None
            todo = []
            for nm in rng.sample(MAPN, rng.randint(1, 3)):
                todo.append((rng.choice(dirs), nm, gen_map_file(rng, c13_mapping.SPEC)))
            for nm in rng.sample(MPGN, rng.randint(0, 2)):
                secs = [c13_mapping.gen_section(rng, False) for _ in range(rng.randint(1, 2))]
                todo.append((rng.choice(dirs), nm, c13_mapping.render(rng, secs, False)))
            for nm in rng.sample(OTHER, rng.randint(0, 2)):
                todo.append((rng.choice(dirs), nm, ['[ molecule ]', 'ALA', '[ atoms ]', '1 N BB !BB']))
            k = rng.random()
            if k < 0.1:
                j = rng.randrange(len(todo))
                if todo[j][1].endswith('.map'):
                    todo[j] = (todo[j][0], todo[j][1], todo[j][2] + ['[ atoms ]', '9 QX BB !BB'])
                    fault = 'conflict'
                elif todo[j][1].endswith('.mapping'):
                    todo[j] = (todo[j][0], todo[j][1], todo[j][2] + ['[ molecule ]', 'ALA'])
                    fault = 'old-style-section'
            elif k < 0.15:
                os.mkdir(os.path.join(root, rng.choice(dirs), rng.choice(['d.map', 'e.mapping'])))
                fault = 'directory-named-like-a-file'
            rng.shuffle(todo)
            for sub, nm, ls in todo:
                open(os.path.join(root, sub, nm), 'w').write('\n'.join(ls) + '\n')
            cases.append((root, None if i % 2 == 0 else 'm%d' % i, fault))

        def tree(enum, path):
            out = []
            for e in enum.entries(path):
                if e.is_dir():
                    out.append([1, e.name, tree(enum, e.path)])
                else:
                    out.append([0, e.name, open(e.path).read().split('\n')])
            return out

        reqs, enums = [], []
        for root, policy, fault in cases:
            enum = Enumeration(policy)
            enums.append(enum)
            reqs.append(line('mapdir', blib, mlib, tree(enum, root)))
        for ci, ((root, policy, fault), enum, ln, mo) in enumerate(zip(cases, enums, reqs, ask(reqs))):
            per_file = []           # (relative path, [objects in the iteration order of the per-file result])
            real_b, real_m = map_input.read_backmapping_file, map_input.read_mapping_file

            def flat(res):
                return [(f, t, n, m) for f, d1 in res.items() for t, d2 in d1.items() for n, m in d2.items()]

            def wrap(fn):
                def inner(infile, force_fields):
                    res = fn(infile, force_fields)
                    per_file.append((os.path.relpath(infile.name, root), flat(res)))
                    return res
                return inner
            map_input.read_backmapping_file, map_input.read_mapping_file = wrap(real_b), wrap(real_m)
            _OPENED = []
            try:
                with enum:
                    try:
                        out = map_input.read_mapping_directory(root, ffs)
                        exc = None
                    except Exception as e:
                        out, exc = None, type(e).__name__
            finally:
                opened, _OPENED = _OPENED, None
                map_input.read_backmapping_file, map_input.read_mapping_file = real_b, real_m
            opened = [os.path.relpath(p, root) for p in opened if p.startswith(root + os.sep)]
            errs = []
            if out is None:
                im = 'error'
                if fault is None:
                    errs.append('well-formed mapping directory rejected with %s' % exc)
            else:
                rows = []
                for f, t, n, m in flat(out):
                    src = [(p, k) for p, objs in per_file for k, o in enumerate(objs) if o[3] is m]
                    key = [0, n] if isinstance(n, str) else [1, list(n)]
                    rows.append([f, t, key, src[0][0] if src else '?', src[0][1] if src else -1])
                im = enc(rows)
                if fault is not None:
                    errs.append('mapping directory with fault %s was loaded' % fault)
                # oracle: every .map / .mapping file below the directory is read exactly once, all .map files
                # before the .mapping files, and every key holds the entry of the LAST file read that has it
                want = []
                for dp, dn, fn in os.walk(root):
                    want += [os.path.relpath(os.path.join(dp, x), root) for x in fn if x.endswith(('.map', '.mapping'))]
                if sorted(opened) != sorted(want):
                    errs.append('mapping files %r, files opened %r' % (sorted(want), opened))
                kinds = [p.endswith('.mapping') for p in opened]
                if kinds != sorted(kinds):
                    errs.append('a .mapping file was read before a .map file: %r' % opened)
                last = {}
                for p, objs in per_file:
                    for k, (f, t, n, m) in enumerate(objs):
                        last[(f, t, n)] = (p, k)
                got = {(r[0], r[1], r[2][1] if r[2][0] == 0 else tuple(r[2][1])): (r[3], r[4]) for r in rows}
                if got != last:
                    errs.append('entries held %r, last declarations in reading order %r' % (got, last))
                if sum(len(o) for _, o in per_file) > len(last):
                    chk.count('mapdir_key_redeclared_in_later_file')
                chk.count('mapdir_files_read=%d' % min(len(opened), 5))
                if any(os.path.basename(p).startswith('.') or '/.' in p for p in opened):
                    chk.count('mapdir_hidden_file_read')
            chk.count('mapdir_' + ('loaded' if out is not None else 'rejected') + ('_fault' if fault else ''))
            chk.case('mapdir-%d' % ci, ln, im, mo, errs, True)
    finally:
        os.scandir = _REAL_SCANDIR
        shutil.rmtree(base, ignore_errors=True)


# ----------------------------------------------------------------------------------------------
# shipped data (thorough): every force field directory and the mapping directory through the models
# ----------------------------------------------------------------------------------------------
def run_shipped_dirs(chk, ask, dump_ff, repr_j, backmap_library):
    import c13_mapping
    from vermouth import map_input
    from vermouth.forcefield import ForceField, find_force_fields
    data = os.path.join(REPO, 'vermouth', 'data')
    root = os.path.join(data, 'force_fields')
    enum = Enumeration(None)
    names = sorted(os.listdir(root))
    reqs = []
    # the .rtp / .bib files are outside the model: the .ff files of every shipped directory are copied to a
    # temporary directory of the same name
    base = tempfile.mkdtemp(prefix='c13ship_', dir=_TMPROOT)
    try:
        for name in names:
            d = os.path.join(base, name)
            os.mkdir(d)
            for x in os.listdir(os.path.join(root, name)):
                if x.endswith('.ff'):
                    shutil.copy(os.path.join(root, name, x), os.path.join(d, x))
            listing = [[e.name, 0, open(e.path, errors='replace').read().split('\n')] for e in enum.entries(d)]
            reqs.append(line('ffdir', d, None, listing))
        for name, ln, mo in zip(names, reqs, ask(reqs)):
            d = os.path.join(base, name)
            global _OPENED
            _hook()
            _OPENED = []
            try:
                ff = ForceField(d)
            finally:
                opened, _OPENED = _OPENED, None
            opened = [os.path.basename(p) for p in opened if os.path.dirname(p) == d]
            im = enc([ff.name, opened, [dump_ff(ff), [[k, repr_j(v)] for k, v in ff.variables.items()]]])
            errs = []
            if sorted(opened) != sorted(os.listdir(d)):
                errs.append('%s: force field files %r, opened %r' % (name, sorted(os.listdir(d)), opened))
            chk.count('shipped_ffdir')
            chk.count('shipped_ffdir_files', len(opened))
            chk.case('shipped-ffdir-' + name, 'ffdir <copy of the .ff files of> ' + name, im, mo, errs, True)
    finally:
        shutil.rmtree(base, ignore_errors=True)
    # the mapping directory
    known = find_force_fields(root)
    mroot = os.path.join(data, 'mappings')

    def tree(path):
        out = []
        for e in enum.entries(path):
            if e.is_dir():
                out.append([1, e.name, tree(e.path)])
            else:
                out.append([0, e.name, open(e.path, errors='replace').read().split('\n')])
        return out
    per_file = []
    real_b, real_m = map_input.read_backmapping_file, map_input.read_mapping_file

    def flat(res):
        return [(f, t, n, m) for f, d1 in res.items() for t, d2 in d1.items() for n, m in d2.items()]

    def wrap(fn):
        def inner(infile, force_fields):
            res = fn(infile, force_fields)
            per_file.append((os.path.relpath(infile.name, mroot), flat(res)))
            return res
        return inner
    # the libraries are built BEFORE the real run (reading modification mappings writes into the force fields)
    ln = line('mapdir', backmap_library(known), c13_mapping.library(known), tree(mroot))
    mo = ask([ln])[0]
    map_input.read_backmapping_file, map_input.read_mapping_file = wrap(real_b), wrap(real_m)
    try:
        out = map_input.read_mapping_directory(mroot, known)
    finally:
        map_input.read_backmapping_file, map_input.read_mapping_file = real_b, real_m
    rows = []
    for f, t, n, m in flat(out):
        src = [(p, k) for p, objs in per_file for k, o in enumerate(objs) if o[3] is m]
        rows.append([f, t, [0, n] if isinstance(n, str) else [1, list(n)], src[0][0] if src else '?', src[0][1] if src else -1])
    errs = []
    nfiles = sum(1 for dp, dn, fn in os.walk(mroot) for x in fn if x.endswith(('.map', '.mapping')))
    if len(per_file) != nfiles:
        errs.append('%d mapping files shipped, %d read' % (nfiles, len(per_file)))
    chk.count('shipped_mapdir_entries', len(rows))
    chk.case('shipped-mapdir', 'mapdir <shipped libraries> <shipped mappings>', enc(rows), mo, errs, True)

