#!/venv/bin/python
"""C05 - links are applied at exactly the places where they fit.

Model: lean/VermouthModel/C05.lean (transcription of do_links.py + the parts of molecule.py it
uses; the subgraph search is the shared verified reference Iso.allIsosP); theorems:
lean/VermouthProps/C05.lean.

Streams (one protocol line per case):
  order  match_order(order1, resid1, order2, resid2)          == matchOrder      (+ table oracle)
  match  list(match_link(molecule, link)) and the raw matches  == matchLinkE      (+ brute-force oracle)
         of networkx' GraphMatcher (count)
  apply  DoLinks.run_molecule                                  == applyLinksE     (+ oracle on the result)
Thorough adds every link of martini3001 / martini22 / elnedyn22 on the coarse-grained proteins that
martinize2 builds from the tier-0 / tier-1 test structures (captured just before DoLinks).

networkx' GraphMatcher is NOT trusted: what it returns is compared with the verified reference.
Geometry-derived parameters: the model says WHICH atoms every effector reads (link-node names through
the placement, in the effector's order), the error outcomes and the format tag; ParamDistance between
two atoms on the integer lattice (coordinates = integers / 32 nm) is computed EXACTLY (squared
distance) by the model and the real value must satisfy value**2 == d2 within double rounding; angles /
dihedrals (and distances off the lattice) are evaluated here (numeric oracle, tolerance 1e-9).

More streams (one protocol line per case):
  effnew / effeq / effcall   LinkParameterEffector.__init__ / __eq__ / __call__ called directly
  table                      add_interaction, add_or_replace_interaction, remove_interaction,
                             remove_matching_interaction, get_interaction called directly
  text (harness/c05_text.py) links WRITTEN as force-field text (link-wide attributes, per-atom attributes
                             that repeat / override them, prefixes and explicit orders, !-sections, #meta, [ edges ],
                             [ non-edges ], [ patterns ], [ molmeta ], macros): read_ff + DoLinks against the model
                             fed with the parsed LINES (Lean buildLink / effectiveAttrs) and oracles on what the
                             text DECLARES; one-line component stream for the precedence rule at every site
The apply stream also compares the SEQUENCE of table calls the real DoLinks makes with the model's event
list (lean/VermouthModel/C05_Run.lean), the molecule's log entries, the kind of the first exception,
and the model's verdict "no later step interferes with this addition" with the final table.
"""
import copy
import itertools
import math
from common import *

chk = Check('C05')
chk.extra['rule'] = ('random links over the documented features (order prefixes of every kind, explicit orders, '
                     'Choice / NotDefinedOrNot / None values, modifications rule, non-edges, patterns, molmeta, '
                     '!-sections, replace incl. node removal, versions, parameter effectors) derived from or '
                     'independent of random residue graphs (gaps, repeated residue numbers = insertion codes, '
                     'unordered numbering, branches, cycles, chain breaks); a match/apply case is non-trivial if '
                     'the matcher found >= 1 raw match and (>= 1 placement was yielded or a raw match was '
                     'rejected by the non-edge / pattern / order filters); an order case if both orders are valid; '
                     'links also carry effectors of every class incl. the base class and names outside the link, atoms on '
                     'an integer lattice (exact distances) / off it / without coordinates, log entries, meta=None, three '
                     'or more orders of which one is invalid; effector streams (init / eq / call on random matches) are '
                     'non-trivial when the outcome is a value or a specific exception; table streams when at least one '
                     'API call was made; TEXT stream: whole force-field texts (1-5 [ link ] sections derived from the molecule: '
                     'link-wide attributes incl. choices / not() / flags, [ atoms ] lines and interaction atoms that repeat or '
                     'override link-wide keys, prefix / explicit / both spellings of the order, #meta and line meta, !-sections, '
                     '[ edges ] / edges implied by interactions / edge:false, non-edge partners that state their own value for a '
                     'link-wide key (written after a real neighbour or made to differ from it), patterns, molmeta, features, '
                     'macros, the same link twice; 7% of the files carry one fault the reader must reject) parsed by the real '
                     'read_ff and applied by the real DoLinks; non-trivial when >= 1 placement was applied or the file is rejected; '
                     'one-line component cases are non-trivial when the line writes a key the link also sets; '
                     'distinct = distinct protocol line')
chk.trusted.append('harness/c05.py: encoding of molecules and links read off the real objects, canonicalisation, '
                   'brute-force Python oracle (independent statement of the link conditions), numeric geometry oracle, '
                   'exact-integer distance oracle on the lattice, recorder wrapping the Molecule table methods; harness/c05_text.py: '
                   'generator of force-field text from a description of what each link declares, rendering of that description '
                   'as text / as parsed lines / as Link objects built through the Python API (oracle side)')
chk.lean(['VermouthProps.C05', 'VermouthProps.C05_Run', 'VermouthProps.C05_Eff', 'VermouthProps.C05_Text'], 'driver_c05')

if os.environ.get('VERIF_C05_DEBUG'):
    _case, _seen = chk.case, []

    def _debug_case(cid, inp, impl, model=None, errs=(), nontrivial=True, finding=None):
        if cid.startswith('corpus'):
            _seen.append([cid, impl, model, list(errs)])
        return _case(cid, inp, impl, model, errs, nontrivial, finding=finding)
    chk.case = _debug_case

import numpy as np
import networkx as nx
import vermouth
from vermouth.molecule import (Molecule, Link, Interaction, DeleteInteraction, Choice, NotDefinedOrNot,
                               ParamDistance, ParamAngle, ParamDihedral, ParamDihedralPhase,
                               LinkParameterEffector, LinkPredicate)
from vermouth.forcefield import ForceField
from vermouth.processors import do_links
from vermouth.processors.do_links import match_link, match_order, _interpret_order, DoLinks, _atoms_match

quiet_vermouth_logs()
EFFECTORS = {ParamDistance: 'dist', ParamAngle: 'angle', ParamDihedral: 'dihedral', ParamDihedralPhase: 'dihphase',
             LinkParameterEffector: 'base'}
EFF_CLASSES = {v: k for k, v in EFFECTORS.items()}
LATTICE = 32          # lattice positions are integers / LATTICE (exact in binary floating point)
RUN_ERRORS = (Exception,)      # whatever is raised is an outcome to be judged, never a crash of the check


# ----------------------------------------------------------------------------
# encoding of the real objects
# ----------------------------------------------------------------------------
class Unsupported(Exception):
    pass


def pval(v):
    """python value -> protocol object (see lean/Drivers/C05.lean)"""
    if v is None:
        return None
    if isinstance(v, (bool, np.bool_)):
        return [0, int(v)]
    if isinstance(v, (int, np.integer)):
        return int(v)
    if isinstance(v, str):
        return v
    if isinstance(v, (list, tuple)) and all(isinstance(x, str) for x in v):
        return [1] + list(v)
    raise Unsupported(repr(v))


def ptval(v):
    if isinstance(v, Choice):
        return [2] + [pval(x) for x in v.value]
    if isinstance(v, NotDefinedOrNot):
        return [3, pval(v.value)]
    if isinstance(v, LinkPredicate):
        raise Unsupported(repr(v))
    return pval(v)


def pattrs(d, f=pval, skip=()):
    out = []
    for k, v in d.items():
        if k in skip:
            continue
        if k == 'order' and isinstance(v, float) and not float(v).is_integer():
            out.append([str(k), None])      # a number that is not an integer is not an order (model: `bad`)
        else:
            out.append([str(k), f(v)])
    return out


def simple_attrs(d):
    """node attributes a link can test: None/bool/int/str (positions, graphs, floats are dropped)"""
    out = {}
    for k, v in d.items():
        if k == 'modifications':
            continue
        if v is None or isinstance(v, (bool, int, str, np.integer, np.bool_)):
            out[k] = v
    return out


def mod_names(node):
    return [[str(x) for x in mod.name] for mod in node.get('modifications', [])]


def pparam(p, key=None):
    if isinstance(p, LinkParameterEffector):
        keys = [key(k) for k in p.keys] if key is not None else list(p.keys)
        return [EFFECTORS[type(p)], keys, p.format]
    return str(p)


def lattice_point(pos):
    """integer lattice coordinates of a position, or None if it is not on the lattice"""
    out = []
    for c in np.asarray(pos, dtype=float).reshape(-1):
        v = float(c) * LATTICE
        if not (v == int(v) and abs(v) < 2 ** 20):
            return None
        out.append(int(v))
    return out if len(out) == 3 else None


def enc_pos(mol):
    """[[node, pos]..]: None = no position key, [x, y, z] = lattice point, 'o' = any other position"""
    out = []
    for n in mol.nodes:
        if 'position' not in mol.nodes[n]:
            out.append([n, None])
        else:
            lp = lattice_point(mol.nodes[n]['position'])
            out.append([n, lp if lp is not None else 'o'])
    return out


def meta_of(i):
    """meta of a link interaction (None is what add_or_replace_interaction turns into {})"""
    return i.meta if i.meta is not None else {}


def enc_link_logs(link):
    return [[int(level), str(entry), [str(a) for a in args]]
            for level, entries in link.log_entries.items() for entry, args in entries.items()]


def canon_logs(mol, owner=None):
    """molecule.log_entries as sorted [[level, entry, [item..]]..]; a placement (the very dictionary
    match_link yielded; owner: id -> names of its link) becomes a sorted list of [link node index, atom]"""
    out = []
    for level, entries in mol.log_entries.items():
        for entry, args in entries.items():
            items = []
            for a in args:
                if isinstance(a, dict):
                    names = (owner or {}).get(id(a))
                    if names is None:
                        items.append('unknown placement %r' % (a,))
                    else:
                        items.append(sorted([names.index(k), int(v)] for k, v in a.items()))
                else:
                    items.append(str(a))
            out.append([int(level), str(entry), items])
    return sorted(out, key=lambda e: (e[0], e[1]))


def lit_param(p):
    """parameters already on the molecule: strings; numbers are tagged so that they come back as numbers"""
    if isinstance(p, str):
        return p
    if isinstance(p, (int, float, np.integer, np.floating)) and not isinstance(p, bool):
        return 'F:' + repr(float(p))
    return 'R:' + repr(p)


def unlit_param(p):
    return float(p[2:]) if p.startswith('F:') else p


def enc_mol(mol, with_inters=True):
    nodes = [[n, pattrs(simple_attrs(mol.nodes[n])), mod_names(mol.nodes[n])] for n in mol.nodes]
    edges = [[u, v] for u, v in mol.edges]
    meta = pattrs(simple_attrs(mol.meta))
    inters = []
    if with_inters:
        for ty, lst in mol.interactions.items():
            for i in lst:
                inters.append([ty, list(i.atoms), [lit_param(p) for p in i.parameters], pattrs(i.meta)])
    return nodes, edges, meta, inters, sorted(mol.citations)


def enc_link(link):
    names = list(link.nodes)
    kmap = {n: i for i, n in enumerate(names)}
    miss = {}

    def key(n):
        if n in kmap:
            return kmap[n]
        return miss.setdefault(n, -1 - len(miss))
    nodes = []
    for n in names:
        d = link.nodes[n]
        rep = d.get('replace')
        nodes.append([kmap[n], pattrs(d, ptval, skip=('replace',)), None if rep is None else pattrs(rep)])
    edges = [[kmap[u], kmap[v]] for u, v in link.edges]
    nes = [[key(f), pattrs(t, ptval)] for f, t in link.non_edges]
    pats = [[[key(k), pattrs(a, ptval)] for k, a in pat] for pat in link.patterns]
    rem = []
    for ty, lst in link.removed_interactions.items():
        for d in lst:
            aa = getattr(d, 'atom_attrs', None)
            rem.append([ty, [key(a) for a in d.atoms], [pparam(p, key) for p in d.parameters],
                        None if aa is None else [pattrs(a, ptval) for a in aa], pattrs(d.meta, ptval)])
    ints = []
    for ty, lst in link.interactions.items():
        for i in lst:
            ints.append([ty, [key(a) for a in i.atoms], [pparam(p, key) for p in i.parameters], pattrs(meta_of(i))])
    return [nodes, edges, pattrs(link.molecule_meta, ptval), nes, pats, rem, ints, sorted(link.citations)], names


def canon_placements(placements, names):
    return sorted([[i, int(p[n])] for i, n in enumerate(names)] for p in placements)


# ----------------------------------------------------------------------------
# independent statement of the link conditions (oracle)
# ----------------------------------------------------------------------------
def o_value_ok(have_key, have, want):
    """one link-side condition against the molecule-side value"""
    if isinstance(want, Choice):
        return any(have == x for x in want.value)
    if isinstance(want, NotDefinedOrNot):
        return (not have_key) or have != want.value
    return have == want


def o_attrs_ok(d, template, skip=()):
    return all(o_value_ok(k in d, d.get(k), v) for k, v in template.items() if k not in skip)


def o_atom_ok(node, template):
    if 'modifications' in template:
        want = template['modifications']
        have = [x for mod in node.get('modifications', []) for x in mod.name]
        if isinstance(want, list):
            ok = sorted(have) == sorted(want)
        elif isinstance(want, Choice):
            ok = bool(have) and all(h in want.value for h in have)
        elif isinstance(want, NotDefinedOrNot):
            ok = bool(have) and all(h != want.value for h in have)
        elif not want:
            ok = not have
        else:
            ok = bool(have) and all(h == want for h in have)
        if not ok:
            return False
    return o_attrs_ok(node, template, skip=('order', 'replace', 'modifications'))


def o_kind(order):
    """documented orders: ('n', int) | ('>', k) | ('<', k) | ('*', k); None = not an order"""
    if isinstance(order, bool):
        return None
    if isinstance(order, int):
        return ('n', order)
    if isinstance(order, str) and order and len(set(order)) == 1 and order[0] in '><*':
        return (order[0], len(order))
    return None


def o_order_rel(o1, r1, o2, r2):
    """the relation table of the documentation; None = the orders are not valid"""
    a, b = o_kind(o1), o_kind(o2)
    if a is None or b is None:
        return None

    def pos(k):  # position on the sequence axis for < and > runs
        return k[1] if k[0] == '>' else -k[1]
    if a[0] in '<>' and b[0] in '<>':
        d = pos(b) - pos(a)
        return (r2 == r1) if d == 0 else ((r2 > r1) if d > 0 else (r2 < r1))
    if a[0] == 'n' and b[0] == 'n':
        return b[1] - a[1] == r2 - r1
    for (x, rx, y, ry) in ((a, r1, b, r2), (b, r2, a, r1)):
        if x[0] == 'n' and x[1] == 0:
            if y[0] == '>':
                return ry > rx
            if y[0] == '<':
                return ry < rx
            if y[0] == '*':
                return ry != rx
    if a[0] == '*' and b[0] == '*':
        return (a[1] == b[1]) == (r1 == r2)
    return True


def o_fits(mol, link, pl):
    """does the placement pl (link node -> molecule node) satisfy every condition of the link?
    returns True / False / None (None: the conditions cannot be evaluated = the code raises)"""
    names = list(link.nodes)
    if len(set(pl.values())) != len(pl):
        return False
    for n in names:
        if not o_atom_ok(mol.nodes[pl[n]], link.nodes[n]):
            return False
    for a, b in itertools.combinations(names, 2):
        if link.has_edge(a, b) != mol.has_edge(pl[a], pl[b]):
            return False
    for frm, attrs in link.non_edges:
        if frm not in link.nodes:
            continue
        anchor = pl[frm]
        for nb in mol[anchor]:
            # orders are positions relative to the reference residue of the link, for the anchor
            # and for the partner alike
            rel = o_order_rel(link.nodes[frm].get('order', 0), mol.nodes[anchor]['resid'],
                              attrs.get('order', 0), mol.nodes[nb]['resid'])
            if rel is None:
                return None
            if rel and o_atom_ok(mol.nodes[nb], attrs):
                return False
    if link.patterns:
        found = False
        for pat in link.patterns:
            ok = True
            for k, attrs in pat:
                if k not in pl:
                    return None
                if not o_atom_ok(mol.nodes[pl[k]], attrs):
                    ok = False
                    break
            if ok:
                found = True
                break
        if not found:
            return False
    with_order = [(link.nodes[n]['order'], mol.nodes[pl[n]]['resid']) for n in names if 'order' in link.nodes[n]]
    for (o1, r1), (o2, r2) in itertools.combinations(with_order, 2):
        if o1 == o2 and r1 != r2:
            return False
    by_order = {}
    for o, r in with_order:
        by_order.setdefault(o, r)
    rels = [o_order_rel(o1, r1, o2, r2) for (o1, r1), (o2, r2) in itertools.combinations(by_order.items(), 2)]
    if any(r is None for r in rels):
        # a relation involving something that is not an order cannot be evaluated: the code raises when it
        # reaches such a pair; if another pair is violated, which of the two it meets first is not specified
        return 'either' if any(r is False for r in rels) else None
    return all(rels)


def o_all_placements(mol, link, cap=60000):
    """brute force over injections, restricted per link node to the atoms satisfying its conditions
    and pruned as soon as a bond / absent bond among the atoms placed so far is violated; every
    complete candidate is then judged by o_fits (the full statement)"""
    if not o_attrs_ok(mol.meta, link.molecule_meta):
        return []
    names = list(link.nodes)
    cands = [[m for m in mol.nodes if o_atom_ok(mol.nodes[m], link.nodes[n])] for n in names]
    out, steps, unspecified = [], [0], [False]

    def rec(i, pl):
        if i == len(names):
            r = o_fits(mol, link, pl)
            if r is None:
                raise ZeroDivisionError
            if r == 'either':
                unspecified[0] = True
            elif r:
                out.append(dict(pl))
            return
        for c in cands[i]:
            steps[0] += 1
            if steps[0] > cap:
                raise OverflowError
            if c in pl.values():
                continue
            if any(link.has_edge(names[j], names[i]) != mol.has_edge(pl[names[j]], c) for j in range(i)):
                continue
            pl[names[i]] = c
            rec(i + 1, pl)
            del pl[names[i]]
    try:
        rec(0, {})
    except OverflowError:
        return 'too-large'
    except ZeroDivisionError:
        return 'raises'
    if unspecified[0]:
        return ('either', out)
    return out


# geometry (independent formulas)
def g_eval(name, pts):
    p = [np.asarray(x, dtype=float) for x in pts]
    if name == 'dist':
        return math.sqrt(float(np.dot(p[1] - p[0], p[1] - p[0])))
    if name == 'angle':
        a, b = p[0] - p[1], p[2] - p[1]
        return math.degrees(math.atan2(np.linalg.norm(np.cross(a, b)), float(np.dot(a, b))))
    b0, b1, b2 = p[1] - p[0], p[2] - p[1], p[3] - p[2]
    n1, n2 = np.cross(b0, b1), np.cross(b1, b2)
    ang = math.degrees(math.atan2(float(np.dot(np.cross(n1, n2), b1 / np.linalg.norm(b1))), float(np.dot(n1, n2))))
    if name == 'dihedral':
        return ang
    # dihedral_phase: shifted by -180 degrees into (-180, 180]
    ang -= 180.0
    while ang <= -180.0:
        ang += 360.0
    return ang


class Degenerate:
    """the independent formula has no value here (coinciding / collinear atoms): nothing to compare"""
    def __repr__(self):
        return 'Degenerate'


def g_value(name, pts, fmt):
    try:
        with np.errstate(all='ignore'):
            val = g_eval(name, pts)
    except Exception:
        val = float('nan')
    if val != val:
        chk.count('geometry_degenerate_not_compared')
        return Degenerate()
    # angles within rounding of the branch cut are formatted differently for no reason
    if fmt is not None:
        val = '{value:{format}}'.format(value=val, format=fmt)
    return val


def close(a, b):
    if isinstance(a, Degenerate) or isinstance(b, Degenerate):
        return True
    if isinstance(a, str) or isinstance(b, str):
        return a == b
    d = abs(a - b)
    return d <= 1e-9 * max(1.0, abs(a), abs(b)) or abs(d - 360.0) <= 1e-7


# ----------------------------------------------------------------------------
# running the real code
# ----------------------------------------------------------------------------
def clone(mol, ff=None):
    """independent copy of a molecule (node dictionaries, interaction lists and metas are copied;
    the force field is shared or replaced)"""
    new = Molecule(force_field=ff if ff is not None else mol._force_field)
    new.meta = dict(mol.meta)
    for n in mol.nodes:
        new.add_node(n)
        new.nodes[n].update(mol.nodes[n])
    new.add_edges_from(mol.edges)
    for ty, lst in mol.interactions.items():
        new.interactions[ty] = [i._replace(atoms=tuple(i.atoms), parameters=list(i.parameters), meta=dict(i.meta))
                                for i in lst]
    new.citations = set(mol.citations)
    new.nrexcl = mol.nrexcl
    for level, entries in mol.log_entries.items():
        for entry, args in entries.items():
            new.log_entries[level][entry] = list(args)
    return new


def shuffled_outcomes(mol, link, rng, n=3):
    """match_link with the pairs of the order_match dictionary formed in other dictionary orders (the
    order of that dictionary is the matcher's enumeration order, which is not part of the behaviour):
    do_links.combinations is replaced by a version that permutes the items first"""
    names = list(link.nodes)
    outs = []
    orig = do_links.combinations
    try:
        for _ in range(n):
            def perm_combinations(items, r, _rng=rng):
                items = list(items)
                _rng.shuffle(items)
                return itertools.combinations(items, r)
            do_links.combinations = perm_combinations
            try:
                outs.append(enc(canon_placements(list(match_link(mol, link)), names)))
            except RUN_ERRORS:
                outs.append('error')
    finally:
        do_links.combinations = orig
    return outs


def real_match(mol, link):
    names = list(link.nodes)
    try:
        pls = list(match_link(mol, link))
    except RUN_ERRORS:
        return 'error', None, None
    if vermouth.molecule.attributes_match(mol.meta, link.molecule_meta):
        gm = nx.isomorphism.GraphMatcher(mol, link, node_match=_atoms_match)
        nraw = sum(1 for _ in gm.subgraph_isomorphisms_iter())
    else:
        nraw = 0
    return '%d %s' % (nraw, enc(canon_placements(pls, names))), pls, nraw


def canon_model_match(s):
    """-> (canonical answer, order_dependent): with order_dependent the code may also raise"""
    if s in ('error', None, 'bad-op', 'bad-line', 'driver-died'):
        return s, False
    d = dec(s)
    if d[0] == 'either':
        return '%d %s' % (d[1], enc(sorted(d[2]))), True
    return '%d %s' % (d[0], enc(sorted(d[1]))), False


def canon_state(nodes, edges, inters, cites, logs=None, calls=None):
    """nodes [[key, [[k,v]..]]..] in order; edges; inters [[ty, atoms, params, meta]..] in order;
    logs: canonical log entries; calls: the sequence of table calls [[kind, type, atoms]..]"""
    n = [[k, sorted(a)] for k, a in nodes]
    e = sorted(sorted(x) for x in edges)
    by = {}
    for ty, atoms, params, meta in inters:
        by.setdefault(ty, []).append([atoms, params, sorted(meta)])
    out = [n, e, [[ty, by[ty]] for ty in sorted(by)], sorted(cites)]
    if logs is not None:
        out.append(logs)
    if calls is not None:
        out.append(calls)
    return out


def real_state(mol, owner=None, calls=None):
    nodes = [[n, pattrs(simple_attrs(mol.nodes[n]))] for n in mol.nodes]
    edges = [[u, v] for u, v in mol.edges]
    inters = []
    for ty, lst in mol.interactions.items():
        for i in lst:
            inters.append([ty, list(i.atoms), [unlit_param(lit_param(p)) for p in i.parameters], pattrs(i.meta)])
    return canon_state(nodes, edges, inters, sorted(mol.citations),
                       canon_logs(mol, owner) if owner is not None else None,
                       [c[:3] for c in calls] if calls is not None else None)


def table_state(mol):
    """interaction table (in order) and node attributes of a molecule, as plain data"""
    inters = [(ty, tuple(i.atoms), list(i.parameters), dict(i.meta))
              for ty, lst in mol.interactions.items() for i in lst]
    return inters, {n: dict(simple_attrs(mol.nodes[n])) for n in mol.nodes}


class CallRecorder:
    """records the sequence of interaction-table calls made on molecules (the originals still run)"""
    def __init__(self):
        self.calls = {}          # id(molecule) -> [[kind, type, atoms, parameters, meta]..]

    def __enter__(self):
        rec = self
        self.orig = (Molecule.remove_matching_interaction, Molecule.add_or_replace_interaction,
                     Molecule.remove_nodes_from)
        o_rem, o_add, o_drop = self.orig

        def rem(self, type_, template):
            rec.calls.setdefault(id(self), []).append(['rem', type_, [int(a) for a in template.atoms],
                                                       list(template.parameters), None])
            return o_rem(self, type_, template)

        def add(self, type_, atoms, parameters, meta=None, citations=None):
            rec.calls.setdefault(id(self), []).append(['add', type_, [int(a) for a in atoms], list(parameters),
                                                       None if meta is None else dict(meta)])
            return o_add(self, type_, atoms, parameters, meta, citations)

        def drop(self, nodes):
            nodes = list(nodes)
            rec.calls.setdefault(id(self), []).append(['drop', '', [int(a) for a in nodes], [], None])
            return o_drop(self, nodes)
        Molecule.remove_matching_interaction, Molecule.add_or_replace_interaction, Molecule.remove_nodes_from = rem, add, drop
        return self

    def __exit__(self, *a):
        Molecule.remove_matching_interaction, Molecule.add_or_replace_interaction, Molecule.remove_nodes_from = self.orig


def run_links(mol, snap_fn=None):
    """DoLinks.run_molecule on `mol` (modified in place), recording per link the placements the
    code consumed and the placements on the molecule as it was when the link started (snap_fn(snapshot,
    link index): computed by the caller instead, e.g. from what a force-field text declares); the error
    is 'match' when match_link raised, else the name of the exception"""
    used, snaps = [], []
    run_links.states = states = []
    run_links.owner = owner = {}
    run_links.keep = keep = []
    in_match = [False]
    orig = do_links.match_link

    def wrapper(molecule, link):
        states.append(table_state(molecule))
        snap_mol = clone(molecule)
        if snap_fn is not None:
            snaps.append(snap_fn(snap_mol, len(snaps)))
        else:
            try:
                snaps.append(list(orig(snap_mol, link)))
            except Exception:
                snaps.append(None)
        rec = []
        used.append(rec)
        names = list(link.nodes)
        try:
            for pl in orig(molecule, link):
                rec.append(dict(pl))
                owner[id(pl)] = names
                keep.append(pl)
                yield pl
        except Exception:
            in_match[0] = True
            raise
    do_links.match_link = wrapper
    with CallRecorder() as cr:
        try:
            DoLinks().run_molecule(mol)
            err = None
        except RUN_ERRORS as e:
            err = 'match' if in_match[0] else type(e).__name__
        finally:
            do_links.match_link = orig
    run_links.calls = cr.calls.get(id(mol), [])
    return err, used, snaps


class ExactDist:
    """the model's exact squared distance (lattice units squared) with the format tag"""
    def __init__(self, d2, fmt):
        self.d2, self.fmt = d2, fmt
        self.d2f = d2 / float(LATTICE * LATTICE)          # exact: d2 < 2**42, LATTICE a power of two

    def value(self):
        v = math.sqrt(self.d2f)
        return v if self.fmt is None else '{value:{format}}'.format(value=v, format=self.fmt)

    def agrees(self, real):
        if self.fmt is not None:
            return isinstance(real, str) and real == self.value()
        if isinstance(real, (str, list)) or real is None:
            return False
        r = float(real)
        # r = sqrt(d2f) correctly rounded or nearly so: r*r is d2f within three roundings
        return abs(r * r - self.d2f) <= 2.0 ** -50 * self.d2f

    def __repr__(self):
        return 'ExactDist(%d/%d, %r) = %r' % (self.d2, LATTICE * LATTICE, self.fmt, self.value())


def model_param(p, positions):
    """evaluated parameter of the model -> value (numeric oracle for symbolic ones) or ExactDist"""
    if isinstance(p, list):
        if p[0] == 'dist2':
            chk.count('model_exact_squared_distance')
            return ExactDist(p[1], p[2])
        name, keys, fmt = p
        return g_value(name, [positions[k] for k in keys], fmt)
    return unlit_param(p)


def model_state(s, positions, d=None):
    """decode the model's answer -> (state | error string, maybe, events); `maybe`: some match_link of the
    run may also have raised (dictionary order), events: the model's event list with its verdicts
    (d: the answer already decoded)"""
    if d is None:
        if s in (None, 'bad-op', 'bad-line', 'driver-died'):
            return s, False, None
        d = dec(s)
    maybe = bool(d[0])
    if d[1] == 'error':
        return 'error:' + str(d[2]), maybe, None
    if d[1] == 'RUN-DIFFERS':
        return 'model: applyLinks and the replay of its event list differ', maybe, None
    nodes, edges, inters, cites, logs, events = d[1:7]
    model_state.attr_writes = d[7] if len(d) > 7 else None
    out = []
    for ty, atoms, params, meta in inters:
        out.append([ty, atoms, [model_param(p, positions) for p in params], meta])
    mlogs = sorted([[lv, en, [it if isinstance(it, str) else sorted(it) for it in items]] for lv, en, items in logs],
                   key=lambda e: (e[0], e[1]))
    calls = [[e[0], e[1], e[2]] if e[0] in ('add', 'rem') else ['drop', '', e[1]]
             for e in events if e[0] in ('add', 'rem', 'drop')]
    return canon_state(nodes, edges, out, cites, mlogs, calls), maybe, events


def states_agree(a, b):
    """structural equality with a tolerance on floats (exact squared distances: double rounding)"""
    if isinstance(a, ExactDist):
        return a.agrees(b)
    if isinstance(b, ExactDist):
        return b.agrees(a)
    if isinstance(a, Degenerate) or isinstance(b, Degenerate):
        return True
    if isinstance(a, float) or isinstance(b, float):
        return (not isinstance(a, (list, str))) and (not isinstance(b, (list, str))) and \
            a is not None and b is not None and close(float(a), float(b))
    if isinstance(a, list) and isinstance(b, list):
        return len(a) == len(b) and all(states_agree(x, y) for x, y in zip(a, b))
    return type(a) == type(b) and a == b


def show(state):
    return json.dumps(state, default=repr, sort_keys=True)


# ----------------------------------------------------------------------------
# oracle on the result of DoLinks
# ----------------------------------------------------------------------------
def eval_params(params, mol_positions, pl):
    """the link's parameters on the placement, stated independently: a distance between two lattice
    points from exact integer arithmetic (ExactDist), everything else numerically"""
    out = []
    for p in params:
        if isinstance(p, LinkParameterEffector):
            pts = [mol_positions[pl[k]] for k in p.keys]
            lps = [lattice_point(x) for x in pts]
            if type(p) is ParamDistance and all(lp is not None for lp in lps):
                d2 = sum((a - b) * (a - b) for a, b in zip(*lps))
                out.append(ExactDist(d2, p.format))
                continue
            out.append(g_value(EFFECTORS[type(p)], pts, p.format))
        else:
            out.append(p)
    return out


def param_close(x, y):
    if isinstance(x, ExactDist):
        return x.agrees(y)
    if isinstance(y, ExactDist):
        return y.agrees(x)
    if isinstance(x, Degenerate) or isinstance(y, Degenerate):
        return True
    if isinstance(x, str) != isinstance(y, str):
        return False
    return close(x, y)


def params_close(a, b):
    return len(a) == len(b) and all(param_close(x, y) for x, y in zip(a, b))


def apply_oracle(before, after, links, snaps, used, positions, calls=None):
    """the property on the observable result (independent of the model)"""
    errs = []
    removed = set(before.nodes) - set(after.nodes)
    events = []     # in application order
    for li, link in enumerate(links):
        if li >= len(used):
            break
        for pl in used[li]:
            for n, attrs in link.nodes.items():
                if 'replace' in attrs:
                    rep = attrs['replace']
                    if 'atomname' in rep and rep['atomname'] is None:
                        events.append(('delnode', pl[n]))
                    else:
                        events.append(('replace', pl[n], dict(rep)))
            for ty, lst in link.removed_interactions.items():
                for d in lst:
                    events.append(('rem', ty, tuple(pl[a] for a in d.atoms), d))
            for ty, lst in link.interactions.items():
                for i in lst:
                    events.append(('add', ty, tuple(pl[a] for a in i.atoms), meta_of(i).get('version', 0),
                                   eval_params(i.parameters, positions, pl), dict(meta_of(i)), li))
    # 1. every fitting placement was used (placements fitting the molecule as it was when the link started)
    for li, (s, u) in enumerate(zip(snaps, used)):
        if s is None:
            continue
        cs = sorted(sorted(p.items(), key=str) for p in s)
        cu = sorted(sorted(p.items(), key=str) for p in u)
        if cs != cu:
            errs.append('link %d: placements applied %s differ from the placements fitting the molecule when the '
                        'link starts %s' % (li, cu, cs))
    must_remove = {e[1] for e in events if e[0] == 'delnode'}
    if must_remove - removed:
        errs.append('nodes %s should have been removed' % sorted(must_remove - removed))
    if removed - must_remove:
        errs.append('nodes %s vanished without a replace atomname=null' % sorted(removed - must_remove))
    # 2. nothing unjustified
    init = {}
    for ty, lst in before.interactions.items():
        for i in lst:
            init.setdefault(ty, []).append(i)
    adds = [e for e in events if e[0] == 'add']
    for ty, lst in after.interactions.items():
        for i in lst:
            if any(j.atoms == i.atoms and list(j.parameters) == list(i.parameters) and j.meta == i.meta
                   for j in init.get(ty, [])):
                continue
            if any(e[1] == ty and e[2] == tuple(i.atoms) and params_close(list(i.parameters), e[4]) and e[5] == i.meta
                   for e in adds):
                continue
            errs.append('interaction %s %s %s %s is justified by no placement' % (ty, i.atoms, i.parameters, i.meta))
        if any(set(i.atoms) & removed for i in lst):
            errs.append('interaction of type %s mentions a removed node' % ty)
    # 3. every added interaction is present (last writer wins), unless removed later / atoms removed
    last = {}
    for idx, e in enumerate(events):
        if e[0] == 'add':
            last[(e[1], e[2], e[3])] = idx
    for (ty, atoms, ver), idx in last.items():
        e = events[idx]
        later_rem = any(x[0] == 'rem' and x[1] == ty and x[2] == atoms for x in events[idx + 1:])
        found = [i for i in after.interactions.get(ty, []) if tuple(i.atoms) == atoms
                 and i.meta.get('version', 0) == ver]
        if set(atoms) & must_remove:
            if found:
                errs.append('interaction %s %s survives the removal of one of its atoms' % (ty, atoms))
            continue
        if later_rem:
            continue
        if len(found) != 1 and not any(j.atoms == atoms and j.meta.get('version', 0) == ver
                                       for j in init.get(ty, [])[1:]):
            errs.append('link interaction %s %s version %s: %d entries in the result' % (ty, atoms, ver, len(found)))
        elif found and not (params_close(list(found[0].parameters), e[4]) and found[0].meta == e[5]):
            errs.append('link interaction %s %s version %s holds %s %s, the last link to set it gives %s %s'
                        % (ty, atoms, ver, found[0].parameters, found[0].meta, e[4], e[5]))
    # an identity may appear only once per type unless the input already had it twice
    for ty, lst in after.interactions.items():
        seen = {}
        for i in lst:
            seen[(tuple(i.atoms), repr(i.meta.get('version', 0)))] = seen.get((tuple(i.atoms), repr(i.meta.get('version', 0))), 0) + 1
        for k, c in seen.items():
            c0 = sum(1 for j in init.get(ty, []) if (tuple(j.atoms), repr(j.meta.get('version', 0))) == k)
            if c > max(1, c0):
                errs.append('identity %s %s occurs %d times' % (ty, k, c))
    # 4. removals took effect (checked where the outcome is unambiguous)
    for idx, e in enumerate(events):
        if e[0] != 'rem':
            continue
        ty, atoms, d = e[1], e[2], e[3]
        if any(x[0] == 'add' and x[1] == ty and x[2] == atoms for x in events):
            continue
        cands = [j for j in init.get(ty, []) if tuple(j.atoms) == atoms]
        if len(cands) != 1 or any(a for a in d.atom_attrs) or d.meta:
            continue
        if d.parameters and [str(p) for p in d.parameters] != [str(p) for p in cands[0].parameters]:
            continue
        if any(tuple(i.atoms) == atoms for i in after.interactions.get(ty, [])):
            errs.append('interaction %s %s was to be removed but is still there' % (ty, atoms))
    # 5. replaced attributes (last writer), everything else untouched
    expect = {n: dict(simple_attrs(before.nodes[n])) for n in before.nodes}
    for e in events:
        if e[0] == 'replace':
            expect[e[1]].update(simple_attrs(e[2]))
    for n in after.nodes:
        got = simple_attrs(after.nodes[n])
        if got != expect[n]:
            errs.append('node %s has attributes %s, expected %s' % (n, got, expect[n]))
    keep = set(after.nodes)
    e0 = {frozenset(x) for x in before.edges if set(x) <= keep}
    e1 = {frozenset(x) for x in after.edges}
    if e0 != e1:
        errs.append('edges changed: %s' % sorted(map(sorted, e0 ^ e1)))
    # 6. what the code WRITES, call by call: every interaction of every link on every placement used, on
    #    exactly the placement's atoms, with the parameters computed from exactly the atoms the placement
    #    assigns to the effector's names (distances between lattice points: exact within double rounding)
    if calls is not None:
        real_adds = [c for c in calls if c[0] == 'add']
        if len(real_adds) != len(adds):
            errs.append('%d interactions were written, the links on the placements used ask for %d'
                        % (len(real_adds), len(adds)))
        for c, e in zip(real_adds, adds):
            if c[1] != e[1] or tuple(c[2]) != e[2]:
                errs.append('interaction %s %s was written where the link asks for %s %s' % (c[1], c[2], e[1], e[2]))
            elif not params_close(list(c[3]), e[4]):
                errs.append('interaction %s %s was written with parameters %s, the placement gives %s'
                            % (c[1], c[2], c[3], e[4]))
            elif (c[4] or {}) != e[5]:
                errs.append('interaction %s %s was written with meta %s instead of %s' % (c[1], c[2], c[4], e[5]))
            if any(isinstance(x, ExactDist) for x in e[4]):
                chk.count('oracle_exact_distance_checked')
        real_drops = [c for c in calls if c[0] == 'drop']
        if len(real_drops) != len(used):
            errs.append('remove_nodes_from was called %d times for %d links' % (len(real_drops), len(used)))
    # 7. the log lines of a link are recorded on the molecule once per placement used: its format arguments
    #    followed by the placement, after whatever the molecule already held under that line
    def plain(items):
        return [sorted((str(k), int(v)) for k, v in a.items()) if isinstance(a, dict) else str(a) for a in items]
    want_logs = {(int(lv), str(en)): plain(args) for lv, ents in before.log_entries.items() for en, args in ents.items()}
    for li, link in enumerate(links):
        if li >= len(used):
            break
        for pl in used[li]:
            for lv, ents in link.log_entries.items():
                for en, args in ents.items():
                    want_logs.setdefault((int(lv), str(en)), []).extend(plain(list(args) + [pl]))
    got_logs = {(int(lv), str(en)): plain(args) for lv, ents in after.log_entries.items() for en, args in ents.items()}
    for k in sorted(set(want_logs) | set(got_logs)):
        if want_logs.get(k, []) != got_logs.get(k, []):
            errs.append('log entry %s holds %s, the placements used give %s' % (k, got_logs.get(k), want_logs.get(k)))
    return errs


def o_template_matches(entry, attrs_options, atoms, params, atom_attrs, meta):
    """documented semantics of a removal template: same atoms in the same order; the parameters if the
    template gives any; the template's per-atom attributes; the template's meta (version, ...) """
    ty, e_atoms, e_params, e_meta = entry
    if tuple(e_atoms) != tuple(atoms):
        return False
    if params and not (len(params) == len(e_params) and all(
            param_close(x, y) if not (isinstance(x, str) and isinstance(y, str)) else x == y for x, y in zip(params, e_params))):
        return False
    if not o_attrs_ok(e_meta, meta):
        return False
    return [all(o_attrs_ok(attrs.get(a, {}), ta) for a, ta in zip(e_atoms, atom_attrs)) for attrs in attrs_options]


def removal_oracle(states, links, used, positions):
    """'its removals have taken effect' and 'nothing else is removed', link by link, on the tables the
    real code had when each link started (states[i]) and after it (states[i+1])"""
    errs = []
    for li, link in enumerate(links):
        if li + 1 >= len(states) or li >= len(used):
            break
        (t0, a0), (t1, a1) = states[li], states[li + 1]
        gone_nodes = set(a0) - set(a1)
        has_replace = any('replace' in a for a in link.nodes.values())
        # instances of the link's removal templates and additions on the placements used
        rems, adds = [], []
        for pl in used[li]:
            for ty, lst in link.removed_interactions.items():
                for d in lst:
                    aa = list(getattr(d, 'atom_attrs', None) or [{} for _ in d.atoms])
                    rems.append((ty, tuple(pl[a] for a in d.atoms), eval_params(d.parameters, positions, pl), aa, dict(d.meta)))
            for ty, lst in link.interactions.items():
                for i in lst:
                    adds.append((ty, tuple(pl[a] for a in i.atoms), meta_of(i).get('version', 0)))

        def matches(entry, r, strict):
            """strict: with the attributes the atoms certainly had (no replace in this link, or no per-atom
            condition); otherwise either the attributes before or after the link may have been seen"""
            if entry[0] != r[0]:
                return False
            res = o_template_matches(entry, [a0, a1], r[1], r[2], r[3], r[4])
            if res is False:
                return False
            return all(res) if strict else any(res)
        cnt1 = {}
        for e in t1:
            cnt1[repr(e)] = cnt1.get(repr(e), 0) + 1
        cnt0 = {}
        for e in t0:
            cnt0[repr(e)] = cnt0.get(repr(e), 0) + 1
        # (a) an interaction that disappeared is explained by a removed atom, by a template that matches
        #     it, or by an addition of the same identity (replacement)
        for e in t0:
            if cnt1.get(repr(e), 0) >= cnt0[repr(e)]:
                continue
            if set(e[1]) & gone_nodes:
                continue
            if any(ad == (e[0], tuple(e[1]), e[3].get('version', 0)) for ad in adds):
                continue
            if any(matches(e, r, False) for r in rems):
                continue
            errs.append('link %d: interaction %s %s %s %s disappeared although no removal template of the link '
                        'matches it (templates on these atoms: %s)'
                        % (li, e[0], e[1], e[2], e[3], [(r[2], r[4]) for r in rems if r[0] == e[0] and r[1] == tuple(e[1])]))
        # (b) the first interaction matching a template is gone (where no other event of the link touches
        #     the same atoms, so that the outcome is unambiguous)
        for r in rems:
            same = [x for x in rems if x[0] == r[0] and x[1] == r[1]]
            if len(same) > 1 or any(ad[0] == r[0] and ad[1] == r[1] for ad in adds):
                continue
            if has_replace and any(r[3]):
                continue
            m = [e for e in t0 if matches(e, r, True)]
            if not m:
                continue
            first = m[0]
            if set(first[1]) & gone_nodes:
                continue
            chk.count('removal_template_matched')
            if 'version' in r[4] and any(e[0] == r[0] and tuple(e[1]) == r[1] and e not in m for e in t0):
                chk.count('removal_version_specific_among_other_versions')
            if cnt1.get(repr(first), 0) != cnt0[repr(first)] - 1:
                errs.append('link %d: removal template %s %s %s %s matches %s %s %s, which is still there afterwards'
                            % (li, r[0], r[1], r[2], r[4], first[0], first[2], first[3]))
            for e in m[1:]:
                if repr(e) != repr(first) and cnt1.get(repr(e), 0) != cnt0[repr(e)] and not set(e[1]) & gone_nodes:
                    errs.append('link %d: removal template %s %s removed %s %s instead of the first match %s %s'
                                % (li, r[0], r[1], e[2], e[3], first[2], first[3]))
    return errs


# ----------------------------------------------------------------------------
# generators
# ----------------------------------------------------------------------------
class Mod:
    def __init__(self, name):
        self.name = name

    def __repr__(self):
        return 'Mod%r' % (self.name,)

    def __deepcopy__(self, memo):
        return self


ATOMNAMES = ['BB', 'SC1', 'SC2']
RESNAMES = ['ALA', 'GLY', 'LYS']
SS = ['H', 'C', 'E']
MODNAMES = ['N-ter', 'C-ter', 'PHOS']
ORDERS = [0, 0, 1, -1, 2, -2, '>', '>>', '<', '<<', '*', '**', '>>>', '***']
BAD_ORDERS = ['', '><', '+', '>*', 'a', '-', None, True, False, '0', '> ', 1.5, -0.5]


def gen_molecule(rng, ff, nres=None):
    mol = Molecule(force_field=ff)
    mol.meta = rng.choice([{}, {}, {'extdih': True}, {'idr': True, 'tag': 'x'}, {'extdih': False}, {'tag': None}])
    nres = nres or rng.randint(1, 6)
    no_position_allowed = rng.random() < 0.25
    style = rng.choice(['consecutive', 'gaps', 'gaps', 'icode', 'unordered', 'negative'])
    resids, r = [], rng.choice([1, 1, 5, -3, 0])
    for i in range(nres):
        resids.append(r)
        if style == 'consecutive':
            r += 1
        elif style in ('gaps', 'negative'):
            r += rng.choice([1, 1, 1, 2, 3])
        elif style == 'icode':
            r += rng.choice([0, 1, 1])
        else:
            r = rng.randint(-2, 8)
    if style == 'negative':
        resids = [x - 6 for x in resids]
    key = rng.choice([0, 1, 10])
    step = rng.choice([1, 1, 3])
    res_nodes = []
    for i, rid in enumerate(resids):
        names = ATOMNAMES[:rng.choice([1, 1, 2, 2, 3])]
        resname = rng.choice(RESNAMES)
        nodes = []
        for nm in names:
            attrs = {'atomname': nm, 'resid': rid, 'resname': resname, 'atype': rng.choice(['P', 'Q', 'N'])}
            if rng.random() < 0.88:
                # a point of the lattice (exact in floating point): distances are checked exactly
                attrs['position'] = np.array([rng.randint(-2 * LATTICE, 2 * LATTICE) / float(LATTICE) for _ in range(3)])
            elif rng.random() < 0.9 or not no_position_allowed:
                attrs['position'] = np.array([rng.uniform(-2, 2) for _ in range(3)])
            else:
                chk.count('molecule_node_without_position')
            if rng.random() < 0.7:
                attrs['cgsecstruct'] = rng.choice(SS)
            elif rng.random() < 0.3:
                attrs['cgsecstruct'] = None
            if rng.random() < 0.3:
                attrs['flag'] = rng.choice([True, False])
            if rng.random() < 0.15:
                attrs['modifications'] = [Mod(tuple(rng.sample(MODNAMES, rng.choice([1, 1, 2]))))
                                          for _ in range(rng.choice([1, 1, 2]))]
            elif rng.random() < 0.05:
                attrs['modifications'] = []
            mol.add_node(key, **attrs)
            nodes.append(key)
            key += step
        for a, b in zip(nodes, nodes[1:]):
            mol.add_edge(a, b)
        res_nodes.append(nodes)
    for a, b in zip(res_nodes, res_nodes[1:]):
        if rng.random() < 0.85:
            mol.add_edge(a[0], b[0])
    allnodes = list(mol.nodes)
    for _ in range(rng.choice([0, 0, 1, 2])):
        if len(allnodes) >= 2:
            a, b = rng.sample(allnodes, 2)
            mol.add_edge(a, b)
    if rng.random() < 0.3:
        rng.shuffle(allnodes)          # node order differs from key order
        mol2 = Molecule(force_field=ff)
        mol2.meta = mol.meta
        for n in allnodes:
            mol2.add_node(n, **mol.nodes[n])
        mol2.add_edges_from(mol.edges)
        mol = mol2
    if rng.random() < 0.1:
        # log entries the molecule already carries (from its blocks)
        mol.log_entries[rng.choice([20, 30])][rng.choice(LOG_LINES)] = ['pre%d' % rng.randint(0, 3)]
    return mol


LOG_LINES = ['link applied', 'check {atomname}', 'unusual bond']


def add_initial_interactions(rng, mol):
    for u, v in list(mol.edges):
        if rng.random() < 0.6:
            meta = rng.choice([{}, {}, {'group': 'g'}, {'version': 1}, {'version': 0}])
            atoms = (u, v) if rng.random() < 0.8 else (v, u)
            if meta or rng.random() < 0.5:
                mol.add_interaction('bonds', atoms, [rng.choice(['1', '2']), rng.choice(['0.35', '0.47']), '1250'], dict(meta))
            else:
                mol.add_interaction('bonds', atoms, [rng.choice(['1', '2']), rng.choice(['0.35', '0.47']), '1250'])
            if rng.random() < 0.4:
                for ver in rng.sample([1, 2, 3], rng.choice([1, 1, 2])):
                    if ver != meta.get('version', 0):
                        mol.add_interaction('bonds', atoms, [rng.choice(['1', '2']), rng.choice(['0.1', '0.35']), '9'],
                                            {'version': ver})
    for n in list(mol.nodes):
        nb = list(mol[n])
        if len(nb) >= 2 and rng.random() < 0.4:
            a, c = rng.sample(nb, 2)
            vers = rng.choice([[None], [None], [None, 2], [1, 2], [2, 1, None]])
            for ver in vers:
                mol.add_interaction('angles', (a, n, c), ['2', rng.choice(['100', '120']), '25'],
                                    {} if ver is None else {'version': ver})


def gen_tvalue(rng, have, vocab):
    """a link-side condition, biased to be satisfied by the molecule-side value `have`"""
    k = rng.random()
    if k < 0.45:
        return have if rng.random() < 0.85 else rng.choice(vocab)
    if k < 0.75:
        vals = rng.sample(vocab, rng.randint(1, len(vocab)))
        if rng.random() < 0.6 and have not in vals:
            vals.append(have)
        return Choice(vals)
    if k < 0.9:
        return NotDefinedOrNot(rng.choice(vocab + [None]))
    return rng.choice([None, have])


def gen_order_for(rng, delta, same_as_ref):
    """an order that is (mostly) consistent with a residue at resid(ref)+delta"""
    k = rng.random()
    if same_as_ref:
        return 0 if k < 0.9 else rng.choice(ORDERS)
    if k < 0.35:
        return delta
    if k < 0.6:
        return ('>' if delta > 0 else '<') * rng.choice([1, 1, 2])
    if k < 0.75:
        return '*' * rng.choice([1, 2])
    if k < 0.9:
        return rng.choice(ORDERS)
    return None    # no order attribute


def gen_link(rng, mol, ninter=None):
    link = Link()
    nodes = list(mol.nodes)
    k = rng.choice([1, 2, 2, 3, 3, 4])
    derived = rng.random() < 0.75 and len(nodes) >= k
    picked = []
    if derived:
        cur = rng.choice(nodes)
        picked = [cur]
        while len(picked) < k:
            front = [n for p in picked for n in mol[p] if n not in picked]
            if not front or rng.random() < 0.1:
                rest = [n for n in nodes if n not in picked]
                if not rest:
                    break
                picked.append(rng.choice(rest))
            else:
                picked.append(rng.choice(front))
    k = len(picked) if derived else k
    ref_resid = mol.nodes[picked[0]]['resid'] if derived else 0
    per_delta = {}
    names = []
    for i in range(k):
        attrs = {}
        if derived:
            src = mol.nodes[picked[i]]
            delta = src['resid'] - ref_resid
            if delta not in per_delta:
                per_delta[delta] = gen_order_for(rng, delta, delta == 0)
            order = per_delta[delta] if rng.random() < 0.93 else rng.choice(ORDERS)
            attrs['atomname'] = src['atomname'] if rng.random() < 0.9 else rng.choice(ATOMNAMES)
        else:
            src = {}
            order = rng.choice(ORDERS + [None])
            attrs['atomname'] = rng.choice(ATOMNAMES + [Choice(rng.sample(ATOMNAMES, 2))])
        if order is not None:
            attrs['order'] = order
        if rng.random() < 0.4:
            attrs['resname'] = gen_tvalue(rng, src.get('resname', 'ALA'), RESNAMES)
        if rng.random() < 0.3:
            attrs['cgsecstruct'] = gen_tvalue(rng, src.get('cgsecstruct'), SS)
        if rng.random() < 0.12:
            attrs['flag'] = gen_tvalue(rng, src.get('flag'), [True, False])
        if rng.random() < 0.25:
            have = [x for m in src.get('modifications', []) for x in m.name]
            c = rng.random()
            if c < 0.4:
                attrs['modifications'] = None
            elif c < 0.55:
                attrs['modifications'] = list(have) if rng.random() < 0.7 else rng.sample(MODNAMES, 2)
            elif c < 0.7:
                attrs['modifications'] = rng.choice(have or MODNAMES)
            elif c < 0.85:
                attrs['modifications'] = Choice(rng.sample(MODNAMES, 2) + have[:1])
            elif c < 0.93:
                attrs['modifications'] = NotDefinedOrNot(rng.choice(MODNAMES))
            else:
                attrs['modifications'] = rng.choice([[], ''])
        if rng.random() < 0.2:
            r = rng.random()
            if r < 0.55:
                attrs['replace'] = {'atype': rng.choice(['X', 'Y'])}
            elif r < 0.75:
                attrs['replace'] = {'newattr': rng.choice([1, 'v', None, True]), 'atype': 'Z'}
            elif r < 0.9:
                attrs['replace'] = {'atomname': None}
            else:
                attrs['replace'] = {'atomname': rng.choice(ATOMNAMES), 'cgsecstruct': rng.choice(SS)}
        o = attrs.get('order', 0)
        prefix = ('+' * o if o > 0 else '-' * -o) if isinstance(o, int) and not isinstance(o, bool) else str(o)
        base = attrs['atomname'] if isinstance(attrs['atomname'], str) else 'X'
        name = prefix + base
        while name in names:
            name += "'"
        names.append(name)
        link.add_node(name, **attrs)
    for i, j in itertools.combinations(range(k), 2):
        if derived:
            e = mol.has_edge(picked[i], picked[j])
            if rng.random() < 0.04:
                e = not e
        else:
            e = rng.random() < 0.5
        if e:
            link.add_edge(names[i], names[j])
    # non-edges
    for _ in range(rng.choice([0, 0, 0, 1, 1, 2])):
        frm = rng.choice(names) if rng.random() < 0.93 else 'nowhere'
        to = {'atomname': rng.choice(ATOMNAMES)}
        if rng.random() < 0.8:
            to['order'] = rng.choice([0, 1, -1, 1, -1, 2, -2] + ORDERS)
        if rng.random() < 0.02:
            to['order'] = rng.choice(BAD_ORDERS[:6])
        if rng.random() < 0.2:
            to['resname'] = Choice(rng.sample(RESNAMES, 2))
        link.non_edges.append([frm, to])
    # patterns
    if rng.random() < 0.3:
        for _ in range(rng.randint(1, 3)):
            pat = []
            for nm in rng.sample(names, rng.randint(1, len(names))):
                a = {}
                if rng.random() < 0.7:
                    have = mol.nodes[picked[names.index(nm)]].get('cgsecstruct') if derived else 'H'
                    a['cgsecstruct'] = gen_tvalue(rng, have if rng.random() < 0.6 else rng.choice(SS), SS)
                if rng.random() < 0.15:
                    a['order'] = 5          # ignored by the comparison
                pat.append([nm, a])
            link.patterns.append(pat)
    # molecule-level conditions
    if rng.random() < 0.25:
        mm = {}
        key = rng.choice(['extdih', 'idr', 'tag'])
        have = mol.meta.get(key)
        mm[key] = rng.choice([have, have, True, None, Choice([True, 'x']), NotDefinedOrNot(True), NotDefinedOrNot(None)])
        link.molecule_meta = mm
    # interactions, removals
    ninter = rng.choice([0, 1, 1, 2, 3]) if ninter is None else ninter
    for _ in range(ninter):
        n_at = rng.choice([1, 2, 2, 3]) if k >= 3 else rng.randint(1, k)
        atoms = tuple(rng.sample(names, min(n_at, k)))
        ty = {1: 'restraints', 2: 'bonds', 3: 'angles'}[len(atoms)]
        if rng.random() < 0.2:
            ty = 'constraints'
        params = [rng.choice(['1', '2']), rng.choice(['0.3', '0.33', '0.365'])]
        if rng.random() < 0.3 and k >= 2:
            cls = rng.choice([ParamDistance, ParamDistance, ParamAngle, ParamDihedral, ParamDihedralPhase])
            if k >= cls.n_keys_asked:
                params.append(cls(rng.sample(names, cls.n_keys_asked),
                                  format_spec=rng.choice([None, None, '.3f', '.1f'])))
        if rng.random() < 0.012:
            # the effector base class: nothing to compute (NotImplementedError when the link is applied)
            params.append(LinkParameterEffector(rng.sample(names, rng.randint(0, k)), format_spec=rng.choice([None, '.2f'])))
        if rng.random() < 0.012 and k >= 1:
            # an effector naming an atom that is not a node of the link (KeyError when the link is applied)
            cls = rng.choice([ParamDistance, ParamAngle])
            keys = rng.sample(names * 3, cls.n_keys_asked - 1)
            keys.insert(rng.randint(0, len(keys)), 'nowhere')
            params.append(cls(keys))
        if rng.random() < 0.006:
            atoms = atoms[:-1] + ('nowhere',)          # an interaction on an atom the link does not have
        meta = {}
        if rng.random() < 0.4:
            meta['version'] = rng.choice([0, 1, 2])
        if rng.random() < 0.4:
            meta['group'] = rng.choice(['a', 'b'])
        if not meta and rng.random() < 0.15:
            meta = None                                # Interaction(meta=None): add_or_replace_interaction makes it {}
        link.interactions.setdefault(ty, []).append(Interaction(atoms=atoms, parameters=params, meta=meta))
    if rng.random() < 0.45:
        ledges = list(link.edges)
        for _ in range(rng.choice([1, 1, 2])):
            centers = [n for n in names if link.degree(n) >= 2]
            if centers and rng.random() < 0.35:
                c = rng.choice(centers)
                a, b = rng.sample(list(link[c]), 2)
                atoms = (a, c, b)
            elif ledges and rng.random() < 0.8:
                atoms = tuple(rng.choice(ledges))
                if derived and rng.random() < 0.8:
                    # the orientation the bond has on the molecule the link was derived from
                    u, v = (picked[names.index(x)] for x in atoms)
                    if (u, v) not in [tuple(e) for e in mol.edges]:
                        atoms = atoms[::-1]
                elif rng.random() < 0.5:
                    atoms = atoms[::-1]
            else:
                atoms = tuple(rng.sample(names, min(2, k)))
            ty = {1: 'restraints', 2: 'bonds', 3: 'angles'}[len(atoms)]
            aa = [{} for _ in atoms]
            if rng.random() < 0.2:
                aa[0] = {'atomname': rng.choice(ATOMNAMES)}
            if rng.random() < 0.6:
                params = []
            elif ty == 'angles':
                params = ['2', rng.choice(['100', '120']), '25']
            else:
                params = [rng.choice(['1', '2']), rng.choice(['0.35', '0.47', '0.1']), rng.choice(['1250', '9'])]
            meta = rng.choice([{}, {}, {'version': 1}, {'version': 2}, {'version': 0}, {'version': 3}, {'group': 'g'},
                               {'version': Choice([1, 2])}, {'version': NotDefinedOrNot(1)}])
            if params and len(atoms) == 2 and rng.random() < 0.08:
                # a geometry-derived parameter in a removal template (evaluated before the comparison)
                params = params[:1] + [ParamDistance(list(atoms), format_spec=rng.choice([None, '.2f']))] + params[2:]
            link.removed_interactions.setdefault(ty, []).append(
                DeleteInteraction(atoms=atoms, atom_attrs=aa, parameters=params, meta=meta))
    if rng.random() < 0.2:
        link.citations = set(rng.sample(['ref1', 'ref2', 'ref3'], rng.randint(1, 2)))
    if rng.random() < 0.15:
        # [ info ] / [ warning ] lines of the link: every placement is logged on the molecule
        for _ in range(rng.choice([1, 1, 2])):
            link.log_entries[rng.choice([20, 30, 30])][rng.choice(LOG_LINES)] = rng.choice([[], [], ['arg']])
    return link


def gen_three_order_link(rng, mol):
    """a link over three residues whose atoms carry three distinct orders, ONE of them not an order: the
    outcome is defined (raises) when the relation between the two valid orders holds for every raw
    match, and depends on the order of a dictionary otherwise"""
    bbs = [n for n in mol.nodes if mol.nodes[n].get('atomname') == 'BB']
    paths = [(a, b, c) for b in bbs for a in mol[b] for c in mol[b]
             if a != c and a in bbs and c in bbs and not mol.has_edge(a, c)]
    if not paths:
        return None
    a, b, c = rng.choice(paths)
    link = Link()
    ra, rb, rc = (mol.nodes[x]['resid'] for x in (a, b, c))
    bad = rng.choice(['x', '><', '', 1.5, None, '+'])      # no booleans: True == 1 and False == 0 as dictionary keys
    mode = rng.random()
    if mode < 0.5:
        orders = [ra - rb, 0, bad]                # the valid pair holds on the intended placement
    elif mode < 0.8:
        orders = ['<' if ra < rb else '>', 0, bad]
    else:
        orders = [rng.choice([1, -1, 2]), 0, bad]
    perm = rng.sample(range(3), 3)                # where the invalid order sits among the link nodes
    items = [('n%d' % i, orders[i]) for i in range(3)]
    for i in perm:
        link.add_node(items[i][0], atomname='BB', order=items[i][1])
    link.add_edges_from([('n0', 'n1'), ('n1', 'n2')])
    if rng.random() < 0.3:
        link.interactions['bonds'] = [Interaction(atoms=('n0', 'n1'), parameters=['1', '0.3'], meta={})]
    return link


def gen_removal_link(rng, mol):
    """a link aimed at an interaction the molecule has: its atoms with their names and relative residue
    numbers, and a removal template that is or is not specific about version / parameters"""
    pool = [(ty, i) for ty, lst in mol.interactions.items() for i in lst]
    if not pool:
        return None
    ty, inter = rng.choice(pool)
    atoms = list(inter.atoms)
    if len(set(atoms)) != len(atoms):
        return None
    link = Link()
    ref = mol.nodes[atoms[0]]['resid']
    names = []
    for a in atoms:
        d = mol.nodes[a]['resid'] - ref
        nm = ('+' * d if d > 0 else '-' * -d) + mol.nodes[a]['atomname']
        while nm in names:
            nm += "'"
        names.append(nm)
        link.add_node(nm, atomname=mol.nodes[a]['atomname'], order=d)
    for i, j in itertools.combinations(range(len(atoms)), 2):
        if mol.has_edge(atoms[i], atoms[j]):
            link.add_edge(names[i], names[j])
    for _ in range(rng.choice([1, 1, 2])):
        ver = inter.meta.get('version', 0)
        meta = rng.choice([{}, {'version': ver}, {'version': ver}, {'version': rng.choice([0, 1, 2, 3])},
                           {'version': Choice([1, 2])}, {'version': NotDefinedOrNot(ver)}, {'group': 'g'}])
        params = rng.choice([[], [], list(inter.parameters), ['2', '120', '25'], ['1', '0.1', '9']])
        aa = [{} for _ in atoms]
        if rng.random() < 0.15:
            aa[-1] = {'atomname': rng.choice(ATOMNAMES)}
        link.removed_interactions.setdefault(ty, []).append(
            DeleteInteraction(atoms=tuple(names), atom_attrs=aa, parameters=params, meta=meta))
    if rng.random() < 0.3:
        link.interactions[ty] = [Interaction(atoms=tuple(names), parameters=['9', '9'],
                                             meta=rng.choice([{}, {'version': 1}, {'version': 2}]))]
    return link


def self_interfering(link):
    """a `replace` of the link sets an attribute that the link itself tests (fixed finding F-C05-1:
    the placements must be those fitting the molecule as it is when the link starts)"""
    rep = set()
    for n, a in link.nodes.items():
        rep |= set(a.get('replace', {}))
    tested = set()
    for n, a in link.nodes.items():
        tested |= set(a) - {'replace', 'order'}
    for _, a in link.non_edges:
        tested |= set(a)
    for pat in link.patterns:
        for _, a in pat:
            tested |= set(a)
    for lst in link.removed_interactions.values():
        for d in lst:
            for a in getattr(d, 'atom_attrs', []):
                tested |= set(a)
    return bool(rep & tested)


def distinct_orders(link):
    return {repr(a['order']) for a in link.nodes.values() if 'order' in a}


def has_invalid_order(link):
    return any(o_kind(a['order']) is None for a in link.nodes.values() if 'order' in a)


# ----------------------------------------------------------------------------
# stream 1: match_order
# ----------------------------------------------------------------------------
def porder(o):
    if o is None:
        return None
    if isinstance(o, bool):
        return [0, int(o)]
    if isinstance(o, float):
        return None if not o.is_integer() else int(o)
    return o


def pairwise_cases(rng):
    """the loop over the pairs of an order_match dictionary (first pair that is not satisfied decides; the
    REAL match_order is called) in the given and in shuffled dictionary orders, against the model's
    sequential semantics (pairwiseSeq) and its order-free verdict (pairwiseVerdict)"""
    def seq(items):
        try:
            for (o1, r1), (o2, r2) in itertools.combinations(items, 2):
                if not match_order(o1, r1, o2, r2):
                    return '0'
            return '1'
        except ValueError:
            return 'valueerror'
    good = [0, 1, -1, 2, '>', '>>', '<', '*', '**']
    lines, meta = [], []
    for i in range(1500 if chk.thorough else 300):
        k = rng.choice([0, 1, 2, 3, 3, 4])
        pool = list(good) + (rng.sample(['x', '', '><', None, '+', 1.5], rng.choice([0, 1, 1, 2])))
        orders = rng.sample(pool, min(k, len(pool)))
        base = rng.randint(-3, 6)
        items = []
        for o in orders:
            kind = o_kind(o)
            if kind and kind[0] == 'n' and rng.random() < 0.55:
                r = base + kind[1]
            elif kind and kind[0] in '<>' and rng.random() < 0.55:
                r = base + (kind[1] if kind[0] == '>' else -kind[1])
            else:
                r = base + rng.randint(-3, 3)
            items.append((o, r))
        outs = [seq(items)]
        for _ in range(4):
            sh = list(items)
            rng.shuffle(sh)
            outs.append(seq(sh))
        rels = [o_order_rel(a[0], a[1], b[0], b[1]) for a, b in itertools.combinations(items, 2)]
        if all(r is True for r in rels):
            want = 'yes'
        elif not any(r is None for r in rels):
            want = 'no'
        elif not any(r is False for r in rels):
            want = 'raises'
        else:
            want = 'either'
        allowed = {'yes': {'1'}, 'no': {'0'}, 'raises': {'valueerror'}, 'either': {'0', 'valueerror'}}[want]
        errs = []
        if not set(outs) <= allowed:
            errs.append('pairs of %s: outcomes %s in the given and four shuffled orders; the relations %s allow %s'
                        % (items, outs, rels, sorted(allowed)))
        if len(set(outs)) > 1:
            chk.count('pairwise_outcome_changes_with_order')
        chk.count('pairwise_' + want)
        lines.append(line('pairwise', [[porder(o), r] for o, r in items]))
        meta.append(('pairwise-%d' % i, want + ' ' + outs[0], errs, len(items) >= 2))
    models = chk.drv.ask(lines) if chk.lean_ok else [None] * len(lines)
    for ln, mo, (cid, impl, errs, nt) in zip(lines, models, meta):
        chk.case(cid, ln, impl, mo, errs, nt)


def order_cases():
    rng = chk.rng('order')
    cases = []
    good = [0, 1, -1, 2, -2, 3, 7, '>', '>>', '>>>', '<', '<<', '<<<', '*', '**', '***']
    for o1 in good:
        for o2 in good:
            for r1, r2 in ((5, 5), (5, 6), (6, 5), (5, 7), (7, 5), (-1, 0), (0, -1), (3, 10)):
                cases.append((o1, r1, o2, r2))
    n = 20000 if chk.thorough else 2500
    for _ in range(n):
        pool = good if rng.random() < 0.85 else BAD_ORDERS + good
        o1, o2 = rng.choice(pool), rng.choice(pool)
        if rng.random() < 0.2:
            o1 = rng.choice('><*') * rng.randint(1, 6)
        if rng.random() < 0.1:
            o2 = rng.randint(-6, 6)
        r1 = rng.randint(-5, 12)
        r2 = r1 + rng.choice([0, 0, 1, -1, 2, -2, rng.randint(-8, 8)])
        cases.append((o1, r1, o2, r2))
    lines, impls = [], []
    for o1, r1, o2, r2 in cases:
        try:
            impl = '1' if match_order(o1, r1, o2, r2) else '0'
        except ValueError:
            impl = 'valueerror'
        lines.append(line('order', porder(o1), r1, porder(o2), r2))
        impls.append(impl)
    models = chk.drv.ask(lines) if chk.lean_ok else [None] * len(lines)
    pairwise_cases(rng)
    for i, ((o1, r1, o2, r2), ln, im, mo) in enumerate(zip(cases, lines, impls, models)):
        errs = []
        want = o_order_rel(o1, r1, o2, r2)
        want_s = 'valueerror' if want is None else ('1' if want else '0')
        if want_s != im:
            errs.append('match_order(%r, %r, %r, %r) gives %s, the documented table gives %s' % (o1, r1, o2, r2, im, want_s))
        chk.count('order_' + im)
        chk.case('order-%d' % i, ln, im, mo, errs, want is not None)


# ----------------------------------------------------------------------------
# stream 2 and 3: match_link, DoLinks
# ----------------------------------------------------------------------------
def match_case(cid, mol, link, lines, pending, cap=60000):
    try:
        el, names = enc_link(link)
        nodes, edges, meta, _, _ = enc_mol(mol, with_inters=False)
    except Unsupported as e:
        chk.count('skipped_unsupported_value')
        return
    impl, pls, nraw = real_match(mol, link)
    shuffled = None
    if len(distinct_orders(link)) >= 3 and has_invalid_order(link):
        shuffled = shuffled_outcomes(mol, link, chk.rng('shuffle-' + cid))
    lines.append(line('match', nodes, edges, meta, el))
    pending.append((cid, mol, link, impl, pls, nraw, cap, shuffled))


def finish_match_cases(lines, pending):
    models = chk.drv.ask(lines) if chk.lean_ok else [None] * len(lines)
    for ln, mo, (cid, mol, link, impl, pls, nraw, cap, shuffled) in zip(lines, models, pending):
        errs = []
        want = o_all_placements(mol, link, cap)
        names = list(link.nodes)
        unspecified = isinstance(want, tuple)
        if unspecified:
            # an invalid order AND a violated relation among the other orders of one candidate: whether the
            # code raises or rejects depends on the order of a dictionary; both are accepted
            want = want[1]
            chk.count('oracle_outcome_depends_on_dictionary_order')
        if want == 'too-large':
            chk.count('oracle_skipped_too_large')
        elif want == 'raises':
            if impl != 'error':
                errs.append('the link conditions cannot be evaluated but match_link returned %s' % impl)
        elif impl == 'error':
            if not unspecified:
                errs.append('match_link raises; the placements satisfying the conditions are %s'
                            % canon_placements(want, names))
        else:
            w, g = canon_placements(want, names), canon_placements(pls, names)
            if w != g:
                missing = [p for p in w if p not in g]
                extra = [p for p in g if p not in w]
                errs.append('match_link: placements fitting but not yielded %s; yielded but not fitting %s '
                            '(pairs are [link node index, molecule node]; link nodes %s)' % (missing, extra, names))
        m_full, dep = canon_model_match(mo) if mo is not None else (None, False)
        if len(distinct_orders(link)) >= 3 and has_invalid_order(link):
            chk.count('three_orders_one_invalid_' + ('order_dependent' if dep else 'deterministic_compared'))
        # dep: the model says "raises, or yields exactly these, depending on the dictionary order"
        mo_c = 'error' if (dep and impl == 'error') else m_full
        if shuffled is not None and m_full is not None:
            # the same match_link with the order_match pairs formed in other dictionary orders
            m_strip = m_full.split(' ', 1)[1] if ' ' in m_full else m_full
            for out in shuffled:
                if not (out == m_strip or (dep and out == 'error')):
                    mo_c = ('with another order of the order_match dictionary match_link gives %s; model %s%s'
                            % (out, m_full, ' or error' if dep else ''))
                    break
            if len(set(shuffled + [impl.split(' ', 1)[1] if impl != 'error' else 'error'])) > 1:
                chk.count('real_outcome_changes_with_dictionary_order')
        nontriv = bool(nraw) and (bool(pls) or (pls is not None and nraw > len(pls)))
        chk.count('match_error' if impl == 'error' else 'match_raw=%s' % (min(nraw, 3) if nraw < 3 else '3+'))
        if pls is not None:
            chk.count('match_yielded=%s' % (len(pls) if len(pls) < 3 else '3+'))
            if nraw > len(pls):
                chk.count('match_some_raw_rejected')
        for feat, on in (('nonedges', link.non_edges), ('patterns', link.patterns), ('molmeta', link.molecule_meta)):
            if on:
                chk.count('link_has_' + feat)
        chk.case(cid, ln, impl, mo_c, errs, nontriv)


def apply_case(cid, mol, links, lines, pending):
    try:
        els = [enc_link(l) for l in links]
        nodes, edges, meta, inters, cites = enc_mol(mol)
    except Unsupported:
        chk.count('skipped_unsupported_value')
        return
    before = clone(mol)
    positions = {n: mol.nodes[n].get('position') for n in mol.nodes}
    run_ff = ForceField(name='verif_c05_run')
    run_ff.links = links
    work = clone(mol, run_ff)
    logs0 = canon_logs(work)
    err, used, snaps = run_links(work)
    states = list(run_links.states) + [table_state(work)]
    given = [canon_placements_in_order(u, names) for u, (_, names) in zip(used, els)]
    given += [[] for _ in range(len(links) - len(given))]
    lines.append(line('apply', nodes, edges, meta, inters, cites, [e for e, _ in els], given,
                      enc_pos(mol), [enc_link_logs(l) for l in links], logs0))
    pending.append((cid, before, work, links, err, used, snaps, positions, states, [],
                    run_links.calls, run_links.owner, run_links.keep))


def gen_variant(rng, mol, ff):
    """another molecule with the SAME node keys: other coordinates, shifted / stretched residue numbering,
    some attributes and bonds changed (a second chain of a system numbers its nodes from the same start)"""
    new = Molecule(force_field=ff)
    new.meta = dict(mol.meta) if rng.random() < 0.8 else {}
    shift = rng.choice([0, 0, 3, -2, 10])
    stretch = rng.choice([1, 1, 1, 2])
    for n in mol.nodes:
        d = dict(mol.nodes[n])
        d['position'] = np.array([rng.uniform(-3, 3) for _ in range(3)])
        d['resid'] = d['resid'] * stretch + shift
        if rng.random() < 0.12:
            d['cgsecstruct'] = rng.choice(SS)
        if rng.random() < 0.08:
            d['atype'] = rng.choice(['P', 'Q', 'N'])
        new.add_node(n)
        new.nodes[n].update(d)
    edges = list(mol.edges)
    if edges and rng.random() < 0.25:
        edges.pop(rng.randrange(len(edges)))
    new.add_edges_from(edges)
    return new


def history_case(cid, mols, links, mode, lines, pending):
    """ONE force field (the same Link / effector objects) and ONE DoLinks instance applied to several
    molecules in a row; every application is compared with the model (which has no memory), judged by
    the oracles on ITS molecule, and must equal a fresh force field + fresh processor on that molecule"""
    try:
        els = [enc_link(l) for l in links]
        encs = [enc_mol(m) for m in mols]
    except Unsupported:
        chk.count('skipped_unsupported_value')
        return
    pristine = copy.deepcopy(links)          # taken before anything ran
    ff = ForceField(name='verif_c05_history')
    ff.links = links
    befores = [clone(m) for m in mols]
    works = [clone(m, ff) for m in mols]
    rec = {id(w): {'used': [], 'snaps': [], 'states': [], 'in_match': False} for w in works}
    logs0 = [canon_logs(w) for w in works]
    owner, keep = {}, []
    orig = do_links.match_link

    def wrapper(molecule, link):
        r = rec[id(molecule)]
        r['states'].append(table_state(molecule))
        try:
            r['snaps'].append(list(orig(clone(molecule), link)))
        except Exception:
            r['snaps'].append(None)
        cur = []
        r['used'].append(cur)
        names = list(link.nodes)
        try:
            for pl in orig(molecule, link):
                cur.append(dict(pl))
                owner[id(pl)] = names
                keep.append(pl)
                yield pl
        except Exception:
            r['in_match'] = True
            raise
    do_links.match_link = wrapper
    errs_run = [None] * len(works)
    proc = DoLinks()
    with CallRecorder() as cr:
        try:
            if mode == 'system':
                system = vermouth.System(force_field=ff)
                system.molecules = list(works)
                try:
                    proc.run_system(system)
                except RUN_ERRORS as e:
                    errs_run = [type(e).__name__] * len(works)
            else:
                for j, w in enumerate(works):
                    try:
                        proc.run_molecule(w)
                    except RUN_ERRORS as e:
                        errs_run[j] = 'match' if rec[id(w)]['in_match'] else type(e).__name__
        finally:
            do_links.match_link = orig
    if mode == 'system' and any(errs_run):
        chk.count('history_system_error_skipped')
        return
    for j, (m, w, b) in enumerate(zip(mols, works, befores)):
        r = rec[id(w)]
        extra = []
        # the same molecule with a fresh force field and a fresh processor
        fresh_ff = ForceField(name='verif_c05_fresh')
        fresh_ff.links = copy.deepcopy(pristine)
        fresh = clone(m, fresh_ff)
        try:
            DoLinks().run_molecule(fresh)
            fresh_err = None
        except RUN_ERRORS as e:
            fresh_err = type(e).__name__
        if (fresh_err is None) != (errs_run[j] is None) or (fresh_err and errs_run[j] != 'match' and fresh_err != errs_run[j]):
            extra.append('molecule %d of the history: outcome %s, with a fresh force field and processor %s'
                         % (j, errs_run[j], fresh_err))
        elif not fresh_err and not states_agree(real_state(w), real_state(fresh)):
            extra.append('molecule %d of the history (node keys shared with the molecules before it): the result %s '
                         'differs from the result of a fresh force field + fresh processor on the same molecule %s'
                         % (j, show(real_state(w))[:600], show(real_state(fresh))[:600]))
        nodes, edges, meta, inters, cites = encs[j]
        positions = {n: m.nodes[n].get('position') for n in m.nodes}
        given = [canon_placements_in_order(u, names) for u, (_, names) in zip(r['used'], els)]
        given += [[] for _ in range(len(links) - len(given))]
        lines.append(line('apply', nodes, edges, meta, inters, cites, [e for e, _ in els], given,
                          enc_pos(m), [enc_link_logs(l) for l in links], logs0[j]))
        states = r['states'] + [table_state(w)]
        pending.append(('%s-mol%d' % (cid, j), b, w, links, errs_run[j], r['used'], r['snaps'], positions, states, extra,
                        cr.calls.get(id(w), []), owner, keep))
        chk.count('history_molecules')
        if j > 0 and any(isinstance(p, LinkParameterEffector) for l in links for lst in l.interactions.values()
                         for i in lst for p in i.parameters) and sum(len(u) for u in r['used']):
            chk.count('history_later_molecule_with_effector_placements')


def canon_placements_in_order(placements, names):
    return [[[i, int(p[n])] for i, n in enumerate(names)] for p in placements]


def check_survival(events, calls, after):
    """the model's verdict 'no later step writes this identity, no later removal template matches it,
    none of its atoms is deleted later' (the side conditions of theorem last_writer_wins, evaluated by the
    model on its own trace) against the REAL final table: such an addition must be there at the end, with
    exactly the parameters and meta the real code wrote at that call"""
    m_adds = [e for e in events if e[0] == 'add']
    r_adds = [c for c in calls if c[0] == 'add']
    if len(m_adds) != len(r_adds):
        return None          # the call sequences differ: reported by the state comparison
    for e, c in zip(m_adds, r_adds):
        _, ty, atoms, ver, wr, rm, dl = e
        found = [i for i in after.interactions.get(ty, []) if list(i.atoms) == list(atoms)
                 and pval(i.meta.get('version', 0)) == ver]
        if not (wr or rm or dl):
            chk.count('model_says_addition_survives')
            if not found:
                return 'the model says nothing interferes with %s %s version %s after it is written, but it is not in the result' % (ty, atoms, ver)
            if not (list(found[0].parameters) == list(c[3]) and found[0].meta == (c[4] or {})):
                return ('the model says nothing interferes with %s %s version %s after it is written with %s %s, the result holds %s %s'
                        % (ty, atoms, ver, c[3], c[4], found[0].parameters, found[0].meta))
        elif dl:
            chk.count('model_says_addition_deleted_with_atom')
            if found:
                return 'the model says an atom of %s %s is deleted after it is written, but it is in the result' % (ty, atoms)
        else:
            chk.count('model_says_addition_overwritten_or_removed')
    return ''


def check_attr_writes(writes, before, after):
    """theorem replace_attrs_final on the real result: the attributes of every surviving node are its input
    attributes updated with the model's list of attribute writes for that node (in processing order)"""
    if writes is None:
        return ''
    for k, kvs in writes:
        if k not in after.nodes:
            return 'the model keeps node %s, the real result does not' % k
        want = [[a, v] for a, v in pattrs(simple_attrs(before.nodes[k]))]
        d = {a: v for a, v in want}
        for a, v in kvs:
            d[a] = v
        got = {a: v for a, v in pattrs(simple_attrs(after.nodes[k]))}
        if d != got:
            return 'node %s: input attributes + the model\'s attribute writes %s give %s, the result has %s' % (k, kvs, d, got)
        if kvs:
            chk.count('model_attribute_writes_checked')
    return ''


def finish_apply_cases(lines, pending):
    models = chk.drv.ask(lines) if chk.lean_ok else [None] * len(lines)
    for ln, mo, (cid, before, after, links, err, used, snaps, positions, states, extra, calls, owner, keep) in zip(lines, models, pending):
        errs, finding = [], None
        interfering = any(s is not None and sorted(map(lambda p: sorted(p.items(), key=str), s)) !=
                          sorted(map(lambda p: sorted(p.items(), key=str), u))
                          for s, u in zip(snaps, used))
        if err:
            impl_state, impl = 'error', 'error:' + err
            if err != 'match' and not (all(s is not None for s in snaps)):
                errs.append('DoLinks raised %s outside match_link although a match_link call fails on a snapshot' % err)
            if err == 'match' and all(s is not None for s in snaps) and len(snaps) == len(links):
                errs.append('match_link raised inside DoLinks although every match_link call succeeds on a snapshot')
            if err not in ('match',):
                want = effector_error_oracle(before, links, used, positions)
                if want != err:
                    errs.append('DoLinks raised %s; the effectors / atoms of the links on the placements used give %s' % (err, want))
        else:
            impl_state = real_state(after, owner, calls)
            impl = show(impl_state)
            want = effector_error_oracle(before, links, used, positions)
            if want is not None:
                errs.append('DoLinks returned normally although the effectors of the links on the placements used give %s' % want)
            else:
                errs = apply_oracle(before, after, links, snaps, used, positions, calls)
                errs += removal_oracle(states, links, used, positions)
        errs += extra
        mstate, maybe, events = model_state(mo, positions) if mo is not None else (None, False, None)
        if mstate is None:
            mo_c = None
        elif isinstance(mstate, str):
            mo_c = mstate
        else:
            mo_c = impl if (not isinstance(impl_state, str) and states_agree(impl_state, mstate)) else show(mstate)
            if mo_c == impl and events is not None:
                verdict = check_survival(events, calls, after) or check_attr_writes(model_state.attr_writes, before, after)
                if verdict:
                    mo_c = verdict
        if maybe:
            # some match_link of the run raises or not depending on a dictionary order (see level note)
            chk.count('apply_outcome_depends_on_dictionary_order')
            if impl == 'error:match':
                mo_c = impl
        if interfering:
            chk.count('apply_placements_changed_while_applying')
        if any(self_interfering(l) for l in links):
            chk.count('apply_replace_of_tested_attribute')
        nplace = sum(len(u) for u in used)
        chk.count('apply_error_' + err if err else 'apply_placements=%s' % (nplace if nplace < 4 else '4+'))
        if not err:
            if set(before.nodes) - set(after.nodes):
                chk.count('apply_nodes_removed')
            if any('replace' in a for l in links for a in l.nodes.values()) and nplace:
                chk.count('apply_replace_used')
            if any(l.log_entries for l in links) and nplace:
                chk.count('apply_log_entries_written')
        chk.case(cid, ln, impl, mo_c, errs, nplace > 0, finding=finding)


def effector_error_oracle(before, links, used, positions):
    """independent statement of the exceptions of link parameters: for the placements used, in order, the
    first removal template / interaction (in that order) with an atom that is not a node of the link, an
    effector naming such an atom, the effector base class (nothing to compute), or an effector reading
    an atom without coordinates"""
    for li, link in enumerate(links):
        if li >= len(used):
            break
        for pl in used[li]:
            todo = [d for lst in link.removed_interactions.values() for d in lst]
            todo += [i for lst in link.interactions.values() for i in lst]
            for inter in todo:
                if any(a not in pl for a in inter.atoms):
                    return 'KeyError'
                for p in inter.parameters:
                    if not isinstance(p, LinkParameterEffector):
                        continue
                    if any(k not in pl for k in p.keys):
                        return 'KeyError'
                    if type(p) is LinkParameterEffector:
                        return 'NotImplementedError'
                    if any(positions.get(pl[k]) is None for k in p.keys):
                        return 'KeyError'
    return None


def corpus_cases():
    """hand-made hard cases (minimised from mutants and probes); also kept in corpus/c05_cases.json"""
    ff = ForceField(name='verif_c05')
    out = []

    def chain(resids, names=('BB',), **extra):
        mol = Molecule(force_field=ff)
        mol.meta = {}
        key, prev = 0, None
        for rid in resids:
            first = None
            for nm in names:
                mol.add_node(key, atomname=nm, resid=rid, resname='ALA', atype='P',
                             position=np.array([0.1 * key, 0.05 * key * key, 0.3 * (key % 3)]), **extra)
                if first is None:
                    first = key
                else:
                    mol.add_edge(key - 1, key)
                key += 1
            if prev is not None:
                mol.add_edge(prev, first)
            prev = first
        return mol

    def mk(nodes, edges=(), **kw):
        l = Link()
        for n, a in nodes:
            l.add_node(n, **a)
        l.add_edges_from(edges)
        for k, v in kw.items():
            setattr(l, k, v)
        return l
    # row 0 against '>' with two atoms of one residue (mutant m05a)
    out.append(('m', chain([1, 1, 2]), mk([('BB', {'atomname': 'BB', 'order': 0}), ('>BB', {'atomname': 'BB', 'order': '>'})],
                                         [('BB', '>BB')])))
    out.append(('m', chain([3, 3, 3, 5], ('BB', 'SC1')),
                mk([('BB', {'atomname': 'BB', 'order': 0}), ('<BB', {'atomname': 'BB', 'order': '<'})], [('BB', '<BB')])))
    # non-edge towards the next residue (mutant m05b)
    out.append(('m', chain([1, 2, 3]), mk([('BB', {'atomname': 'BB', 'order': 0})], non_edges=[['BB', {'atomname': 'BB', 'order': 1}]])))
    out.append(('m', chain([1, 2, 4]), mk([('BB', {'atomname': 'BB', 'order': 0})], non_edges=[['BB', {'atomname': 'BB', 'order': -1}]])))
    # fixed findings F-C05-2 / F-C05-3: non-edge partner with a '>' prefix; anchor with its own order
    l5 = mk([('SC1', {'atomname': 'SC1', 'order': 0}), ('BB', {'atomname': 'BB', 'order': 0}), ('SC2', {'atomname': 'SC2', 'order': 0})],
            [('SC1', 'BB'), ('BB', 'SC2')], non_edges=[['BB', {'order': '>', 'atomname': 'BB'}]])
    for r3 in (2, 0):
        mol = Molecule(force_field=ff)
        mol.meta = {}
        for k_, (nm, rid) in enumerate([('BB', 1), ('SC1', 1), ('SC2', 1), ('BB', r3)]):
            mol.add_node(k_, atomname=nm, resid=rid, resname='ALA', atype='P', position=np.array([0.1 * k_, 0.0, 0.0]))
        mol.add_edges_from([(0, 1), (0, 2), (0, 3)])
        out.append(('m', mol, l5))
    l6 = mk([('BB', {'atomname': 'BB', 'order': 0}), ('+BB', {'atomname': 'BB', 'order': 1})], [('BB', '+BB')],
            non_edges=[['+BB', {'atomname': 'BB', 'order': 2}]])
    out.append(('m', chain([1, 2, 3]), l6))
    out.append(('m', chain([1, 2, 4, 5]), l6))
    # two patterns, only one holds (any -> all)
    mol = chain([1, 2, 3])
    mol.nodes[0]['cgsecstruct'] = 'H'
    mol.nodes[1]['cgsecstruct'] = 'C'
    mol.nodes[2]['cgsecstruct'] = 'C'
    out.append(('m', mol, mk([('BB', {'atomname': 'BB', 'order': 0}), ('+BB', {'atomname': 'BB', 'order': 1})], [('BB', '+BB')],
                             patterns=[[['BB', {'cgsecstruct': 'H'}], ['+BB', {}]], [['BB', {}], ['+BB', {'cgsecstruct': 'H'}]]])))
    # star orders, gaps, same order two residues
    out.append(('m', chain([1, 2, 2, 7]), mk([('BB', {'atomname': 'BB', 'order': 0}), ('*BB', {'atomname': 'BB', 'order': '*'}),
                                              ('**BB', {'atomname': 'BB', 'order': '**'})], [('BB', '*BB'), ('*BB', '**BB')])))
    # add-or-replace: an existing bond is replaced, a second version is kept (append mutant)
    mol = chain([1, 2, 3])
    mol.add_interaction('bonds', (0, 1), ['1', '0.35', '1250'], {})
    mol.add_interaction('bonds', (1, 2), ['1', '0.35', '1250'], {'version': 1})
    l1 = mk([('BB', {'atomname': 'BB', 'order': 0}), ('+BB', {'atomname': 'BB', 'order': 1})], [('BB', '+BB')])
    l1.interactions['bonds'] = [Interaction(atoms=('BB', '+BB'), parameters=['1', '0.33', '7'], meta={})]
    l2 = mk([('BB', {'atomname': 'BB', 'order': 0}), ('+BB', {'atomname': 'BB', 'order': 1})], [('BB', '+BB')])
    l2.interactions['bonds'] = [Interaction(atoms=('BB', '+BB'), parameters=['1', ParamDistance(['BB', '+BB']), '9'], meta={'group': 'x'})]
    l2.removed_interactions['bonds'] = [DeleteInteraction(atoms=('BB', '+BB'), atom_attrs=[{}, {}], parameters=[], meta={'version': 1})]
    out.append(('a', mol, [l1, l2]))
    # node removal and replace
    mol = chain([1, 2, 3], ('BB', 'SC1'))
    add_initial_interactions(chk.rng('corpus'), mol)
    l3 = mk([('BB', {'atomname': 'BB', 'order': 0, 'replace': {'atype': 'Q'}}), ('SC1', {'atomname': 'SC1', 'order': 0, 'replace': {'atomname': None}})],
            [('BB', 'SC1')])
    out.append(('a', mol, [l3, l1]))
    # fixed finding F-C05-1: replace of an attribute the link tests on another node (3 bonds, atypes P,Q,Q,Q)
    for o in (-1, 1):
        l4 = mk([('BB', {'atomname': 'BB', 'atype': 'P', 'order': 0, 'replace': {'atype': 'Q'}}),
                 ('+BB', {'atomname': 'BB', 'atype': 'P', 'order': o})], [('BB', '+BB')])
        l4.interactions['bonds'] = [Interaction(atoms=('BB', '+BB'), parameters=['1'], meta={})]
        out.append(('a', chain([1, 2, 3, 4]), [l4]))
    mol = chain([1, 2, 3])
    mol.add_interaction('angles', (0, 1, 2), ['2', '100', '25'], {'version': 1})
    mol.add_interaction('angles', (0, 1, 2), ['2', '120', '25'], {'version': 2})
    mol.add_interaction('angles', (0, 1, 2), ['2', '130', '25'], {})
    for tm in ({'version': 2}, {}, {'version': 0}, {'version': 7}):
        l7 = mk([('-BB', {'atomname': 'BB', 'order': -1}), ('BB', {'atomname': 'BB', 'order': 0}), ('+BB', {'atomname': 'BB', 'order': 1})],
                [('-BB', 'BB'), ('BB', '+BB')])
        l7.removed_interactions['angles'] = [DeleteInteraction(atoms=('-BB', 'BB', '+BB'), atom_attrs=[{}, {}, {}], parameters=[], meta=tm)]
        out.append(('a', mol, [l7]))
    # links written as force-field text and read by read_ff (prefixes, patterns, non-edges, !-sections,
    # #meta, versions, effectors, replace, molmeta): how links really look
    from vermouth.ffinput import read_ff
    tff = ForceField(name='verif_c05_text')
    read_ff(FF_TEXT.split('\n'), tff)
    mol = chain([1, 2, 3, 5, 6], ('BB', 'SC1'))
    for n, ss_ in zip(range(0, 10, 2), 'HHCCE'):
        mol.nodes[n]['cgsecstruct'] = ss_
    mol.meta = {'extdih': True}
    add_initial_interactions(chk.rng('corpus-text'), mol)
    out.append(('a', mol, list(tff.links)))
    mol = chain([1, 2, 2, 3], ('BB', 'SC1', 'SC2'))
    out.append(('a', mol, list(tff.links)))

    # --- effector mechanics (extension round): atoms on the integer lattice, exact distances
    def lattice_chain(resids):
        mol = chain(resids)
        for k_ in mol.nodes:
            mol.nodes[k_]['position'] = np.array([(3 * k_) / float(LATTICE), (k_ * k_) / float(LATTICE), -(5 * k_ % 7) / float(LATTICE)])
        return mol
    bb2 = [('BB', {'atomname': 'BB', 'order': 0}), ('+BB', {'atomname': 'BB', 'order': 1})]
    le = mk(bb2, [('BB', '+BB')])
    le.interactions['bonds'] = [Interaction(atoms=('BB', '+BB'), parameters=['1', ParamDistance(['BB', '+BB']), '1250'], meta=None),
                                Interaction(atoms=('+BB', 'BB'), parameters=['1', ParamDistance(['+BB', 'BB'], format_spec='.4f')], meta={'version': 1})]
    le.log_entries[30]['bond written'] = []
    le.log_entries[20]['note {atomname}'] = ['arg']
    out.append(('a', lattice_chain([1, 2, 3, 5]), [le, le]))
    # the distance is taken between the atoms NAMED in the effector, not the atoms of the interaction
    lx = mk([('-BB', {'atomname': 'BB', 'order': -1})] + bb2, [('-BB', 'BB'), ('BB', '+BB')])
    lx.interactions['bonds'] = [Interaction(atoms=('BB', '+BB'), parameters=['1', ParamDistance(['-BB', '+BB'])], meta={}),
                                Interaction(atoms=('-BB', 'BB'), parameters=[ParamAngle(['BB', '-BB', '+BB'])], meta={})]
    out.append(('a', lattice_chain([1, 2, 3, 4]), [lx]))
    # error outcomes: the base class, a name that is not a node of the link, an atom without coordinates
    lb = mk(bb2, [('BB', '+BB')])
    lb.interactions['bonds'] = [Interaction(atoms=('BB', '+BB'), parameters=['1', LinkParameterEffector(['BB'])], meta={})]
    out.append(('a', lattice_chain([1, 2]), [le, lb]))
    lk = mk(bb2, [('BB', '+BB')])
    lk.interactions['bonds'] = [Interaction(atoms=('BB', '+BB'), parameters=['1', ParamDistance(['BB', '++BB'])], meta={})]
    out.append(('a', lattice_chain([1, 2]), [lk]))
    out.append(('a', lattice_chain([1, 3]), [lk]))           # fits nowhere: nothing is evaluated, no error
    mol = lattice_chain([1, 2, 3])
    del mol.nodes[2]['position']
    out.append(('a', mol, [le]))
    lr = mk(bb2, [('BB', '+BB')])
    lr.removed_interactions['bonds'] = [DeleteInteraction(atoms=('BB', '+BB'), atom_attrs=[{}, {}],
                                                          parameters=['1', LinkParameterEffector(['BB', '+BB'])], meta={})]
    out.append(('a', lattice_chain([1, 2]), [lr, le]))
    # three distinct orders, one of them not an order: raises when the valid pair holds for a raw match;
    # when it holds for none the outcome depends on a dictionary order (chain 1,2,4: the pair (0, +1) fails
    # for the raw matches around residue 4)
    for bad in ('x', 1.5):
        l3 = mk([('a', {'atomname': 'BB', 'order': 0}), ('b', {'atomname': 'BB', 'order': 1}), ('c', {'atomname': 'BB', 'order': bad})],
                [('a', 'b'), ('b', 'c')])
        out.append(('m', chain([1, 2, 3]), l3))
        out.append(('m', chain([1, 3, 5]), l3))
        l3b = mk([('c', {'atomname': 'BB', 'order': bad}), ('a', {'atomname': 'BB', 'order': 0}), ('b', {'atomname': 'BB', 'order': 1})],
                 [('a', 'b'), ('b', 'c')])
        out.append(('m', chain([1, 3, 5]), l3b))
    return out


FF_TEXT = '''
[ link ]
resname "ALA|GLY"
[ bonds ]
BB +BB 1 0.350 1250 {"group": "Backbone bonds"}

[ link ]
[ angles ]
#meta {"group": "First SBB"}
SC1 BB +BB 2 100 25
[ non-edges ]
BB -BB

[ link ]
[ bonds ]
BB >BB 1 dist(BB,>BB) 1250 {"version": 1}
[ patterns ]
BB {"cgsecstruct": "H|E"} >BB
BB >BB {"cgsecstruct": "H"}

[ link ]
[ constraints ]
BB +BB 1 0.33
[ !bonds ]
BB +BB
[ patterns ]
BB {"cgsecstruct": "H"} +BB {"cgsecstruct": "H"}

[ link ]
[ molmeta ]
extdih true
[ dihedrals ]
-BB BB +BB ++BB 1 dihphase(-BB,BB,+BB,++BB|.2f) 10 1 {"comment": "x"}

[ link ]
[ atoms ]
BB {"cgsecstruct": "C|E", "replace": {"atype": "Nda"}, "modifications": null}

[ link ]
[ angles ]
BB *BB **BB 2 angle(BB,*BB,**BB) 20
[ edges ]
BB *BB
*BB **BB
'''


def stored_corpus(lines, pending):
    """corpus/c05_cases.json: the protocol lines of the hand-made cases with the canonical output of
    the real code recorded when the file was written (VERIF_C05_WRITE_CORPUS=1 rewrites it).  On
    every run the stored lines are checked to be what the corpus still generates."""
    path = os.path.join(VERIF, 'corpus', 'c05_cases.json')
    cur = [{'case': p[0], 'line': ln} for ln, p in zip(lines, pending)]
    if os.environ.get('VERIF_C05_WRITE_CORPUS') == '1':
        with open(path, 'w') as f:
            json.dump(cur, f, indent=0)
    try:
        old = json.load(open(path))
    except OSError:
        old = None
    if old != cur:
        chk.notes.append('corpus/c05_cases.json differs from the cases generated by corpus_cases()')
        chk.count('corpus_file_out_of_date')


def link_stream():
    ff = ForceField(name='verif_c05')
    lines, pending = [], []
    alines, apending = [], []
    for i, (kind, mol, l) in enumerate(corpus_cases()):
        if kind == 'm':
            match_case('corpus-match-%d' % i, mol, l, lines, pending)
        else:
            for j, one in enumerate(l):
                match_case('corpus-match-%d-%d' % (i, j), mol, one, lines, pending)
            apply_case('corpus-apply-%d' % i, mol, l, alines, apending)
    finish_match_cases(lines, pending)
    finish_apply_cases(alines, apending)
    stored_corpus(lines + alines, pending + apending)
    lines, pending, alines, apending = [], [], [], []
    rng = chk.rng('match')
    n = 20000 if chk.thorough else 5000
    for i in range(n):
        mol = gen_molecule(rng, ff)
        link = gen_link(rng, mol)
        if rng.random() < 0.04:
            # an order that is not valid (with three or more distinct orders the model says whether the
            # outcome depends on a dictionary order)
            names = list(link.nodes)
            link.nodes[rng.choice(names)]['order'] = rng.choice(BAD_ORDERS[:6] + ['x', 1.5])
        elif rng.random() < 0.06:
            l3 = gen_three_order_link(rng, mol)
            if l3 is not None:
                link = l3
        match_case('match-%d' % i, mol, link, lines, pending)
    finish_match_cases(lines, pending)
    rng = chk.rng('apply')
    n = 8000 if chk.thorough else 2500
    for i in range(n):
        mol = gen_molecule(rng, ff)
        add_initial_interactions(rng, mol)
        links = []
        for _ in range(rng.choice([1, 2, 2, 3, 4])):
            l = gen_link(rng, mol, ninter=rng.choice([1, 1, 2, 3]))
            links.append(l)
        if rng.random() < 0.45:
            for _ in range(rng.choice([1, 1, 2])):
                l = gen_removal_link(rng, mol)
                if l is not None:
                    links.insert(rng.randint(0, len(links)), l)
        if links and rng.random() < 0.3:
            links.append(copy.deepcopy(rng.choice(links)))     # the same link again: everything is replaced
        if rng.random() < 0.03:
            l3 = gen_three_order_link(rng, mol)
            if l3 is not None:
                links.insert(rng.randint(0, len(links)), l3)
        if not links:
            continue
        apply_case('apply-%d' % i, mol, links, alines, apending)
    # histories: the same link objects and one processor over several molecules with coinciding node keys
    for mode in ('system', 'molecule'):
        ms = []
        for scale, r0 in ((0.1, 1), (0.27, 11), (0.05, -4)):
            m = Molecule(force_field=ff)
            m.meta = {}
            for k_ in range(4):
                m.add_node(k_, atomname='BB', resid=r0 + k_, resname='ALA', atype='P',
                           position=np.array([scale * k_, scale * k_ * k_, 0.3 * scale * (k_ % 3)]))
            m.add_edges_from([(0, 1), (1, 2), (2, 3)])
            ms.append(m)
        hl = Link()
        for nm, o in (('-BB', -1), ('BB', 0), ('+BB', 1), ('++BB', 2)):
            hl.add_node(nm, atomname='BB', order=o)
        hl.add_edges_from([('-BB', 'BB'), ('BB', '+BB'), ('+BB', '++BB')])
        hl.interactions['bonds'] = [Interaction(atoms=('BB', '+BB'), parameters=['1', ParamDistance(['BB', '+BB']), '1250'], meta={})]
        hl.interactions['angles'] = [Interaction(atoms=('-BB', 'BB', '+BB'), parameters=['2', ParamAngle(['-BB', 'BB', '+BB'], format_spec='.3f'), '25'], meta={})]
        hl.interactions['dihedrals'] = [Interaction(atoms=('-BB', 'BB', '+BB', '++BB'),
                                                    parameters=['1', ParamDihedral(['-BB', 'BB', '+BB', '++BB']),
                                                                ParamDihedralPhase(['-BB', 'BB', '+BB', '++BB']), '1'], meta={})]
        history_case('corpus-history-%s' % mode, ms, [hl], mode, alines, apending)
    rng = chk.rng('history')
    n = 2500 if chk.thorough else 450
    for i in range(n):
        mol = gen_molecule(rng, ff)
        add_initial_interactions(rng, mol)
        links = [gen_link(rng, mol, ninter=rng.choice([1, 2, 3])) for _ in range(rng.choice([1, 2, 3]))]
        # make sure geometry-derived parameters are there
        for l in links:
            names = list(l.nodes)
            if len(names) >= 2 and rng.random() < 0.7:
                cls = rng.choice([c for c in (ParamDistance, ParamAngle, ParamDihedral, ParamDihedralPhase)
                                  if c.n_keys_asked <= len(names)])
                keys = rng.sample(names, cls.n_keys_asked)
                l.interactions.setdefault('bonds' if cls is ParamDistance else 'restraints', []).append(
                    Interaction(atoms=tuple(keys[:2]), parameters=['1', cls(keys, format_spec=rng.choice([None, None, '.4f']))],
                                meta=rng.choice([{}, {'version': 1}])))
        mols = [mol]
        for _ in range(rng.choice([1, 1, 2])):
            v = gen_variant(rng, mol, ff) if rng.random() < 0.9 else clone(mol)
            add_initial_interactions(rng, v)
            mols.append(v)
        if rng.random() < 0.2:
            mols.append(mols[0])           # the very same molecule again (as a fresh copy)
        history_case('history-%d' % i, mols, links, rng.choice(['system', 'molecule']), alines, apending)
    finish_apply_cases(alines, apending)


# ----------------------------------------------------------------------------
# stream 4: the effector classes called directly
# ----------------------------------------------------------------------------
def effector_cases():
    rng = chk.rng('effector')
    names = ['a', 'b', 'c', 'd', 'e']
    kidx = {n: i for i, n in enumerate(names)}
    classes = [ParamDistance, ParamAngle, ParamDihedral, ParamDihedralPhase, LinkParameterEffector]
    lines, meta = [], []
    n = 4000 if chk.thorough else 700

    def rand_eff(force_ok=True):
        cls = rng.choice(classes)
        want = cls.n_keys_asked if cls.n_keys_asked is not None else rng.randint(0, 4)
        nk = want if (force_ok or rng.random() < 0.6) else rng.choice([x for x in range(0, 6) if x != want])
        keys = rng.sample(names, nk) if nk <= len(names) else [rng.choice(names) for _ in range(nk)]
        return cls, keys, rng.choice([None, None, '.2f', '.3f', '8.4f'])
    for i in range(n):
        kind = rng.choice(['new', 'eq', 'call', 'call', 'call'])
        if kind == 'new':
            # __init__: the number of keys against n_keys_asked
            cls, keys, fmt = rand_eff(force_ok=False)
            try:
                cls(keys, format_spec=fmt)
                impl = 'ok'
            except ValueError:
                impl = 'valueerror'
            want = 'ok' if cls.n_keys_asked is None or len(keys) == cls.n_keys_asked else 'valueerror'
            errs = [] if impl == want else ['%s(%r) gives %s; %s keys are required' % (cls.__name__, keys, impl, cls.n_keys_asked)]
            lines.append(line('effnew', EFFECTORS[cls], [kidx[k] for k in keys], fmt))
            meta.append(('effnew-%d' % i, impl, errs, lambda mo: mo, impl == 'valueerror'))
            chk.count('effector_init_' + impl)
        elif kind == 'eq':
            # __eq__: same class, same keys in the same order, same format; never equal to something else
            c1, k1, f1 = rand_eff()
            r = rng.random()
            if r < 0.35:
                c2, k2, f2 = c1, list(k1), f1
            elif r < 0.7:
                c2, k2, f2 = c1, list(k1), f1
                w = rng.choice(['class', 'keys', 'format', 'order'])
                if w == 'class':
                    same_n = [c for c in classes if c is not c1 and c.n_keys_asked in (None, len(k1))]
                    c2 = rng.choice(same_n) if same_n else c1
                elif w == 'keys' and k2:
                    k2[rng.randrange(len(k2))] = rng.choice(names)
                elif w == 'order':
                    k2 = k2[::-1]
                else:
                    f2 = rng.choice([None, '.2f', '.5f'])
            else:
                c2, k2, f2 = rand_eff()
            e1 = c1(k1, format_spec=f1)
            other_kind = rng.random() < 0.12
            e2 = rng.choice(['0.33', 'dist']) if other_kind else c2(k2, format_spec=f2)
            impl = '1' if (e1 == e2) else '0'
            want = '1' if (not other_kind and c1 is c2 and k1 == k2 and f1 == f2) else '0'
            errs = [] if impl == want else ['%r == %r gives %s' % ((c1.__name__, k1, f1), e2 if other_kind else (c2.__name__, k2, f2), impl)]
            if not other_kind and (e2 == e1) != (e1 == e2):
                errs.append('effector equality is not symmetric')
            p2 = e2 if other_kind else [EFFECTORS[c2], [kidx[k] for k in k2], f2]
            lines.append(line('effeq', [EFFECTORS[c1], [kidx[k] for k in k1], f1], p2))
            meta.append(('effeq-%d' % i, impl, errs, lambda mo: mo, True))
            chk.count('effector_eq_' + impl)
        else:
            # __call__: the atoms are looked up through the match, in the effector's order
            cls, keys, fmt = rand_eff()
            mol = Molecule()
            atoms = rng.sample(range(0, 30), 6)
            for a in atoms:
                r = rng.random()
                if r < 0.8:
                    mol.add_node(a, position=np.array([rng.randint(-3 * LATTICE, 3 * LATTICE) / float(LATTICE) for _ in range(3)]))
                elif r < 0.93:
                    mol.add_node(a, position=np.array([rng.uniform(-3, 3) for _ in range(3)]))
                else:
                    mol.add_node(a)
            match = {nm: a for nm, a in zip(names, rng.sample(atoms, 5)) if rng.random() < 0.9}
            if rng.random() < 0.05:
                match[rng.choice(names)] = 99            # not a node of the molecule
            eff = cls(keys, format_spec=fmt)
            try:
                val = eff(mol, match)
                impl_v, impl = val, 'value'
            except Exception as e:
                impl_v, impl = None, '!' + type(e).__name__
            # independent statement
            if any(k not in match for k in keys):
                want = '!KeyError'
            elif cls is LinkParameterEffector:
                want = '!NotImplementedError'
            elif any(match[k] not in mol.nodes or 'position' not in mol.nodes[match[k]] for k in keys):
                want = '!KeyError'
            else:
                want = 'value'
            errs = []
            positions = {a: mol.nodes[a].get('position') for a in mol.nodes}
            if impl != want:
                errs.append('%s(%r)(molecule, %r) gives %s, expected %s' % (cls.__name__, keys, match, impl, want))
            elif impl == 'value':
                exp = eval_params([eff], positions, match)[0]
                if not param_close(exp, impl_v):
                    errs.append('%s(%r, %r) on the atoms %s gives %r, expected %r'
                                % (cls.__name__, keys, fmt, [match[k] for k in keys], impl_v, exp))
                if isinstance(exp, ExactDist):
                    chk.count('effector_call_exact_distance')
            lines.append(line('effcall', EFFECTORS[cls], [kidx[k] for k in keys], fmt,
                              [[kidx[k], v] for k, v in match.items()], enc_pos(mol)))

            def judge(mo, impl=impl, impl_v=impl_v, positions=positions):
                d = dec(mo)[0]
                if isinstance(d, str):
                    return d                     # '!KeyError' / '!NotImplementedError'
                mv = model_param(d, positions)
                return 'value' if (impl == 'value' and param_close(mv, impl_v)) else 'model value %r' % (mv,)
            meta.append(('effcall-%d' % i, impl, errs, judge, True))
            chk.count('effector_call_' + impl.strip('!'))
    models = chk.drv.ask(lines) if chk.lean_ok else [None] * len(lines)
    for ln, mo, (cid, impl, errs, judge, nontriv) in zip(lines, models, meta):
        chk.case(cid, ln, impl, judge(mo) if mo is not None else None, errs, nontriv)


# ----------------------------------------------------------------------------
# stream 5: the interaction-table API called directly
# ----------------------------------------------------------------------------
def table_cases():
    rng = chk.rng('table')
    ff = ForceField(name='verif_c05_table')
    lines, meta = [], []
    n = 2500 if chk.thorough else 450
    TYPES = ['bonds', 'angles', 'constraints']
    for i in range(n):
        mol = gen_molecule(rng, ff, nres=rng.randint(1, 3))
        add_initial_interactions(rng, mol)
        nodes = list(mol.nodes)
        try:
            e_nodes, e_edges, e_meta, e_inters, e_cites = enc_mol(mol)
        except Unsupported:
            chk.count('skipped_unsupported_value')
            continue
        ops, flags, errs = [], [], []
        shadow = {ty: [(tuple(x.atoms), list(x.parameters), dict(x.meta)) for x in lst] for ty, lst in mol.interactions.items()}
        cites = set(mol.citations)

        def ident(ty, atoms, ver):
            return [j for j, x in enumerate(shadow.get(ty, [])) if x[0] == tuple(atoms) and x[2].get('version', 0) == ver]
        for _ in range(rng.randint(1, 6)):
            existing = [(ty, x) for ty, lst in mol.interactions.items() for x in lst]
            if existing and rng.random() < 0.6:
                ty, x = rng.choice(existing)
                atoms = list(x.atoms)
                ver = x.meta.get('version', 0)
            else:
                ty = rng.choice(TYPES)
                atoms = rng.sample(nodes, min(len(nodes), rng.choice([1, 2, 2, 3])))
                ver = rng.choice([0, 0, 1, 2])
            if rng.random() < 0.12:
                atoms = atoms[:-1] + [rng.choice([777, 778])]          # not a node of the molecule
            params = [rng.choice(['1', '2']), rng.choice(['0.2', '0.25'])]
            md = rng.choice([None, {}, {'version': ver}, {'version': ver, 'group': 'z'}, {'group': 'z'}])
            op = rng.choice(['add', 'addrep', 'addrep', 'addrep', 'remove', 'remmatch'])
            known = all(a in mol.nodes for a in atoms)
            if op == 'add':
                ops.append(['add', ty, atoms, params, None if md is None else pattrs(md)])
                try:
                    mol.add_interaction(ty, atoms, params) if md is None else mol.add_interaction(ty, atoms, params, dict(md))
                    ok = True
                except KeyError:
                    ok = False
                if ok != known:
                    errs.append('add_interaction on atoms %s: %s' % (atoms, 'accepted' if ok else 'KeyError'))
                if ok:
                    shadow.setdefault(ty, []).append((tuple(atoms), params, dict(md or {})))
            elif op == 'addrep':
                cs = rng.choice([None, None, ['refA'], ['refB', 'ref1'], []])
                ops.append(['addrep', ty, atoms, params, None if md is None else pattrs(md), cs])
                args = [ty, atoms, params] + ([] if md is None else [dict(md)])
                try:
                    if cs is None:
                        mol.add_or_replace_interaction(*args)
                    else:
                        mol.add_or_replace_interaction(*args, citations=set(cs)) if md is None else mol.add_or_replace_interaction(*args, set(cs))
                    ok = True
                except KeyError:
                    ok = False
                hits = ident(ty, atoms, (md or {}).get('version', 0))
                if ok != (bool(hits) or known):
                    errs.append('add_or_replace_interaction on atoms %s (identity present: %s): %s'
                                % (atoms, bool(hits), 'accepted' if ok else 'KeyError'))
                if ok:
                    if hits:
                        shadow[ty][hits[0]] = (tuple(atoms), params, dict(md or {}))
                    else:
                        shadow.setdefault(ty, []).append((tuple(atoms), params, dict(md or {})))
                    cites |= set(cs or [])
            elif op == 'remove':
                ops.append(['remove', ty, atoms, pval(ver)])
                try:
                    mol.remove_interaction(ty, tuple(atoms), ver) if ver != 0 or rng.random() < 0.5 else mol.remove_interaction(ty, tuple(atoms))
                    ok = True
                except KeyError:
                    ok = False
                hits = ident(ty, atoms, ver)
                if ok != bool(hits):
                    errs.append('remove_interaction %s %s version %s: %s although the identity is %s'
                                % (ty, atoms, ver, 'done' if ok else 'KeyError', 'present' if hits else 'absent'))
                if ok and hits:
                    del shadow[ty][hits[0]]
            else:
                tmeta = rng.choice([{}, {}, {'version': ver}, {'version': Choice([1, 2])}, {'group': 'z'}])
                tparams = rng.choice([[], [], params, ['1', '0.35', '1250']])
                aa = [{} for _ in atoms]
                if rng.random() < 0.2:
                    aa[0] = {'atomname': rng.choice(ATOMNAMES)}
                tmpl = DeleteInteraction(atoms=tuple(atoms), atom_attrs=aa, parameters=tparams, meta=tmeta)
                ops.append(['remmatch', [ty, atoms, [str(q) for q in tparams], [pattrs(a, ptval) for a in aa], pattrs(tmeta, ptval)]])
                try:
                    mol.remove_matching_interaction(ty, tmpl)
                    ok = True
                except ValueError:
                    ok = False
                except KeyError:
                    ok = None           # a table entry on an atom that is not a node (replace path above)
                if ok is None:
                    ops.pop()
                    chk.count('table_remmatch_on_unknown_atom_skipped')
                    continue
                hits = [j for j, x in enumerate(shadow.get(ty, [])) if x[0] == tuple(atoms)
                        and (not tparams or list(tparams) == list(x[1])) and o_attrs_ok(x[2], tmeta)
                        and all(o_attrs_ok(mol.nodes[a], ta) for a, ta in zip(atoms, aa))]
                if ok != bool(hits):
                    errs.append('remove_matching_interaction %s %s %s %s: %s although %d entries match'
                                % (ty, atoms, tparams, tmeta, 'done' if ok else 'ValueError', len(hits)))
                if ok and hits:
                    del shadow[ty][hits[0]]
            flags.append(1 if ok else 0)
            chk.count('table_%s_%s' % (op, 'ok' if ok else 'raises'))
        types = sorted(set(TYPES) | set(mol.interactions))
        got = [[ty, [[list(x.atoms), [str(q) for q in x.parameters], sorted(pattrs(x.meta))] for x in mol.get_interaction(ty)]]
               for ty in types]
        exp = [[ty, [[list(a), [str(q) for q in ps], sorted(pattrs(m_))] for a, ps, m_ in shadow.get(ty, [])]] for ty in types]
        if got != exp:
            errs.append('interaction table after the calls %s, expected %s' % (got, exp))
        if set(mol.citations) != cites:
            errs.append('citations %s, expected %s' % (sorted(mol.citations), sorted(cites)))
        impl = enc([flags, got, sorted(mol.citations)])
        lines.append(line('table', e_nodes, e_edges, e_meta, e_inters, e_cites, ops, types))
        meta.append(('table-%d' % i, impl, errs, len(ops) > 0))
    models = chk.drv.ask(lines) if chk.lean_ok else [None] * len(lines)
    for ln, mo, (cid, impl, errs, nontriv) in zip(lines, models, meta):
        mo_c = None
        if mo is not None:
            try:
                d = dec(mo)
                mo_c = enc([d[0], [[ty, [[a, ps, sorted(m_)] for a, ps, m_ in lst]] for ty, lst in d[1]], sorted(d[2])])
            except Exception:
                mo_c = mo
        chk.case(cid, ln, impl, mo_c, errs, nontriv)


link_stream()
order_cases()
effector_cases()
table_cases()
import c05_text
c05_text.run(chk, globals())
if os.environ.get('VERIF_C05_DEBUG'):
    with open(os.environ['VERIF_C05_DEBUG'], 'w') as f_:
        json.dump({'failures': chk.failures, 'disagreements': chk.disagreements, 'corpus': _seen}, f_, default=repr)
if chk.thorough:
    import c05_real
    c05_real.run(chk, globals())
chk.finish()
