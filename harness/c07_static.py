"""C07, part A2: inventory of every call under vermouth/ and bin/ that can create, change or remove a file.

scan(repo) parses every source file (AST, nothing is imported) and returns one record per call site:

    file, line, function (qualified name of the enclosing def, '<module>' at top level), callee (canonical
    name of what is called: 'open', 'Path.open', 'os.remove', 'tempfile.mkstemp', 'shutil.move',
    'np.savetxt', 'subprocess.run', 'call(defer_writing=False)' ...), mode, cls, reachable

cls is one of
    read        the mode is a constant without w, a, x, +
    deferred    deferred_open(...) / DeferredFileWriter().open(...)
    guarded     `open` rebound to deferred_open under `if defer_writing:` in a function whose parameter
                defer_writing defaults to True (the idiom of write_pdb / write_gro / run_dssp)
    debug       a call passing defer_writing=<not True> whose path argument is a variable tested `is not None`
                by the enclosing `if` (the -write-* dumps of pdb_to_universal)
    undeferred  everything else that writes: builtin open for writing, Path.open/write_text, np.save*, tempfile.*,
                shutil.*, os.rename/remove/..., os.fdopen for writing, subprocess.*, defer_writing=False elsewhere

`reachable` is a name-based over-approximation of "can be executed by a run of bin/martinize2": the module level
of every file and everything in bin/martinize2 is reachable; a function, method or class is reachable when its
simple name occurs as an identifier or attribute name in reachable code; a reachable class makes its methods
reachable.  The identity of a site never contains a line number or the name of a local variable, so moving code
or renaming locals changes nothing.
"""
import ast
import os

WRITE_CHARS = 'wax+'
OS_WRITERS = {'rename', 'replace', 'remove', 'unlink', 'mkdir', 'makedirs', 'rmdir', 'removedirs', 'renames', 'symlink',
              'link', 'truncate', 'mkfifo', 'mknod', 'open', 'chmod', 'chown', 'utime'}
SHUTIL_WRITERS = {'copy', 'copy2', 'copyfile', 'copyfileobj', 'copytree', 'move', 'rmtree', 'make_archive',
                  'unpack_archive', 'copymode', 'copystat'}
TEMPFILE = {'mkstemp', 'mkdtemp', 'NamedTemporaryFile', 'TemporaryFile', 'TemporaryDirectory', 'SpooledTemporaryFile',
            'mktemp'}
NUMPY_WRITERS = {'save', 'savez', 'savez_compressed', 'savetxt', 'memmap'}
PATH_METHODS = {'write_text', 'write_bytes', 'touch', 'unlink', 'rmdir', 'symlink_to', 'hardlink_to', 'link_to',
                'mkdir', 'rename'}
OBJ_METHODS = {'tofile', 'to_csv', 'to_pickle', 'to_json', 'to_hdf', 'savefig', 'write_gpickle'}
OPEN_MODULES = {'io', 'codecs', 'gzip', 'bz2', 'lzma', 'builtins'}
SUBPROCESS = {'run', 'Popen', 'call', 'check_call', 'check_output', 'getoutput', 'getstatusoutput'}


def source_files(repo):
    out = []
    for root, dirs, files in os.walk(os.path.join(repo, 'vermouth')):
        dirs[:] = sorted(d for d in dirs if d not in ('tests', '__pycache__', 'data'))
        for f in sorted(files):
            if f.endswith('.py'):
                out.append(os.path.relpath(os.path.join(root, f), repo))
    bindir = os.path.join(repo, 'bin')
    for f in sorted(os.listdir(bindir)):
        p = os.path.join(bindir, f)
        if os.path.isfile(p):
            try:
                head = open(p, 'rb').read(200)
            except OSError:
                continue
            if f.endswith('.py') or b'python' in head.split(b'\n')[0]:
                out.append(os.path.relpath(p, repo))
    return out


def const_str(node):
    return node.value if isinstance(node, ast.Constant) and isinstance(node.value, str) else None


def call_mode(call, pos):
    """mode argument of an open-like call: positional index `pos` or keyword `mode`; 'r' when absent, '?' when
    not a constant"""
    node = None
    if len(call.args) > pos:
        node = call.args[pos]
    for kw in call.keywords:
        if kw.arg == 'mode':
            node = kw.value
    if node is None:
        return 'r'
    s = const_str(node)
    return s if s is not None else '?'


class Module:
    def __init__(self, rel, tree):
        self.rel, self.tree = rel, tree
        self.open_alias = {'open'}          # names bound to the builtin open at module level
        self.deferred_alias = set()         # names bound to deferred_open
        self.mod_alias = {}                 # local name -> module name (import x as y)
        for n in tree.body:
            if isinstance(n, ast.ImportFrom):
                for a in n.names:
                    local = a.asname or a.name
                    if a.name == 'open' and (n.module or '') in OPEN_MODULES:
                        self.open_alias.add(local)
                    if a.name == 'deferred_open' and (n.module or '').endswith('file_writer'):
                        self.deferred_alias.add(local)
                    if (n.module or '') in ('os', 'shutil', 'tempfile', 'subprocess', 'numpy'):
                        self.mod_alias[local] = (n.module, a.name)     # from os import remove
            elif isinstance(n, ast.Import):
                for a in n.names:
                    self.mod_alias[a.asname or a.name.split('.')[0]] = (a.name, None)
            elif isinstance(n, ast.Assign) and len(n.targets) == 1 and isinstance(n.targets[0], ast.Name):
                if isinstance(n.value, ast.Name) and n.value.id in self.open_alias:
                    self.open_alias.add(n.targets[0].id)
                if isinstance(n.value, ast.Name) and n.value.id in self.deferred_alias:
                    self.deferred_alias.add(n.targets[0].id)
                v = n.value
                if (isinstance(v, ast.Attribute) and v.attr == 'open' and isinstance(v.value, ast.Call)
                        and isinstance(v.value.func, ast.Name) and v.value.func.id == 'DeferredFileWriter'):
                    # `deferred_open = DeferredFileWriter().open` (vermouth.file_writer itself)
                    self.deferred_alias.add(n.targets[0].id)


def functions_of(tree):
    """[(qualname, node, class qualname or None)] for every def, nested ones included"""
    out = []

    def walk(node, prefix, cls):
        for ch in ast.iter_child_nodes(node):
            if isinstance(ch, (ast.FunctionDef, ast.AsyncFunctionDef)):
                out.append((prefix + ch.name, ch, cls))
                walk(ch, prefix + ch.name + '.', None)
            elif isinstance(ch, ast.ClassDef):
                out.append((prefix + ch.name, ch, None))
                walk(ch, prefix + ch.name + '.', prefix + ch.name)
            else:
                walk(ch, prefix, cls)
    walk(tree, '', None)
    return out


def own_nodes(fn):
    """nodes of a def without the bodies of nested defs / classes (those are sites of their own)"""
    out = []
    stack = list(ast.iter_child_nodes(fn))
    while stack:
        n = stack.pop()
        out.append(n)
        if isinstance(n, (ast.FunctionDef, ast.AsyncFunctionDef, ast.ClassDef)):
            continue
        stack.extend(ast.iter_child_nodes(n))
    return out


def guarded_open(fn):
    """does the function use the idiom `if defer_writing: open = deferred_open` with defer_writing=True by default,
    and no other rebinding of `open` except `from builtins import open`?"""
    if not isinstance(fn, (ast.FunctionDef, ast.AsyncFunctionDef)):
        return False, False
    args = fn.args.args + fn.args.kwonlyargs
    if not any(a.arg == 'defer_writing' for a in args):
        rebinding = any(isinstance(n, ast.Assign) and any(isinstance(t, ast.Name) and t.id == 'open' for t in n.targets)
                        for n in own_nodes(fn))
        return False, rebinding
    default_true = False
    pos = fn.args.args
    for a, d in zip(pos[len(pos) - len(fn.args.defaults):], fn.args.defaults):
        if a.arg == 'defer_writing' and isinstance(d, ast.Constant) and d.value is True:
            default_true = True
    for a, d in zip(fn.args.kwonlyargs, fn.args.kw_defaults):
        if a.arg == 'defer_writing' and isinstance(d, ast.Constant) and d.value is True:
            default_true = True
    idiom, other = False, False
    for n in own_nodes(fn):
        if isinstance(n, ast.If) and isinstance(n.test, ast.Name) and n.test.id == 'defer_writing':
            for st in n.body:
                if (isinstance(st, ast.Assign) and len(st.targets) == 1 and isinstance(st.targets[0], ast.Name)
                        and st.targets[0].id == 'open' and isinstance(st.value, ast.Name)
                        and st.value.id == 'deferred_open'):
                    idiom = True
        if isinstance(n, ast.Assign) and any(isinstance(t, ast.Name) and t.id == 'open' for t in n.targets):
            if not (isinstance(n.value, ast.Name) and n.value.id == 'deferred_open'):
                other = True
    return idiom and default_true and not other, other or (idiom and not default_true)


def classify_call(call, mod, guarded, rebinding, parents):
    """-> (callee, mode, cls) or None when the call does not touch files"""
    f = call.func
    # ---- calls passing defer_writing=<not True>
    for kw in call.keywords:
        if kw.arg == 'defer_writing' and not (isinstance(kw.value, ast.Constant) and kw.value.value is True):
            # explicit request not to defer: fine for a debug dump guarded by `if <var> is not None` on its path
            ok = False
            names = {n.id for a in call.args for n in ast.walk(a) if isinstance(n, ast.Name)}
            for p in parents:
                if (isinstance(p, ast.If) and isinstance(p.test, ast.Compare) and len(p.test.ops) == 1
                        and isinstance(p.test.ops[0], ast.IsNot) and isinstance(p.test.left, ast.Name)
                        and isinstance(p.test.comparators[0], ast.Constant) and p.test.comparators[0].value is None
                        and p.test.left.id in names):
                    ok = True
            callee = f.attr if isinstance(f, ast.Attribute) else (f.id if isinstance(f, ast.Name) else '?')
            return ('%s(defer_writing=False)' % callee, '-', 'debug' if ok else 'undeferred')
    if isinstance(f, ast.Name):
        name = f.id
        if name in mod.deferred_alias:
            mode = call_mode(call, 1)
            return ('deferred_open', mode, 'deferred' if any(c in mode for c in WRITE_CHARS + '?') else 'read')
        if name in mod.open_alias:
            mode = call_mode(call, 1)
            if not any(c in mode for c in WRITE_CHARS + '?'):
                return ('open', mode, 'read')
            if name == 'open' and guarded:
                return ('open', mode, 'guarded')
            return ('open', mode, 'undeferred')
        if name in mod.mod_alias and mod.mod_alias[name][1] is not None:
            m, orig = mod.mod_alias[name]
            return classify_module_call(m, orig, call)
        return None
    if isinstance(f, ast.Attribute):
        attr = f.attr
        base = f.value
        if attr == 'deferred_open':
            mode = call_mode(call, 1)
            return ('deferred_open', mode, 'deferred' if any(c in mode for c in WRITE_CHARS + '?') else 'read')
        if (attr == 'open' and isinstance(base, ast.Call) and isinstance(base.func, ast.Name)
                and base.func.id == 'DeferredFileWriter'):
            mode = call_mode(call, 1)
            return ('deferred_open', mode, 'deferred' if any(c in mode for c in WRITE_CHARS + '?') else 'read')
        if isinstance(base, ast.Name) and base.id in mod.mod_alias and mod.mod_alias[base.id][1] is None:
            m = mod.mod_alias[base.id][0]
            r = classify_module_call(m, attr, call)
            if r is not None or m in {'os', 'shutil', 'tempfile', 'subprocess', 'numpy'} | OPEN_MODULES:
                return r
        if isinstance(base, ast.Attribute) and isinstance(base.value, ast.Name) and base.value.id == 'os' and base.attr == 'path':
            return None
        if attr == 'open':
            # a method called open on some object: pathlib.Path.open(mode=...) / self.open of the writer
            mode = call_mode(call, 0)
            if isinstance(base, ast.Name) and base.id == 'self':
                return None
            return ('Path.open', mode, 'undeferred' if any(c in mode for c in WRITE_CHARS + '?') else 'read')
        if attr in PATH_METHODS or attr in OBJ_METHODS:
            return ('.' + attr, '-', 'undeferred')
        if attr.startswith('write_') and isinstance(base, ast.Name) and base.id in ('nx', 'networkx'):
            return ('nx.' + attr, '-', 'undeferred')
    return None


def classify_module_call(m, attr, call):
    if m in OPEN_MODULES and attr == 'open':
        mode = call_mode(call, 1)
        return (m + '.open', mode, 'undeferred' if any(c in mode for c in WRITE_CHARS + '?') else 'read')
    if m == 'os':
        if attr == 'fdopen':
            mode = call_mode(call, 1)
            return ('os.fdopen', mode, 'undeferred' if any(c in mode for c in WRITE_CHARS + '?') else 'read')
        if attr in OS_WRITERS:
            return ('os.' + attr, '-', 'undeferred')
        if attr in ('system', 'popen') or attr.startswith(('spawn', 'exec')):
            return ('os.' + attr, '-', 'undeferred')
        return None
    if m == 'shutil' and attr in SHUTIL_WRITERS:
        return ('shutil.' + attr, '-', 'undeferred')
    if m == 'tempfile' and attr in TEMPFILE:
        return ('tempfile.' + attr, '-', 'undeferred')
    if m == 'subprocess' and attr in SUBPROCESS:
        return ('subprocess.' + attr, '-', 'undeferred')
    if m == 'numpy' and attr in NUMPY_WRITERS:
        return ('np.' + attr, '-', 'undeferred')
    return None


def scan(repo):
    mods = {}
    for rel in source_files(repo):
        mods[rel] = Module(rel, ast.parse(open(os.path.join(repo, rel)).read()))
    sites = []
    funcs = {}          # (rel, qualname) -> (node, class qualname)
    idents = {}         # (rel, qualname) -> identifiers used in its own body
    for rel, mod in mods.items():
        units = [('<module>', mod.tree, None)] + functions_of(mod.tree)
        for q, node, cls in units:
            funcs[(rel, q)] = (node, cls)
            own = own_nodes(node)
            names = set()
            for n in own:
                if isinstance(n, ast.Name):
                    names.add(n.id)
                elif isinstance(n, ast.Attribute):
                    names.add(n.attr)
            idents[(rel, q)] = names
            if isinstance(node, ast.ClassDef):
                continue
            guarded, rebinding = guarded_open(node)
            # parents of each call (for the debug-dump guard)
            parent = {}
            for n in own:
                for ch in ast.iter_child_nodes(n):
                    parent[id(ch)] = n
            for ch in ast.iter_child_nodes(node):
                parent[id(ch)] = node
            for n in own:
                if not isinstance(n, ast.Call):
                    continue
                chain, p = [], parent.get(id(n))
                while p is not None and p is not node:
                    chain.append(p)
                    p = parent.get(id(p))
                r = classify_call(n, mod, guarded, rebinding, chain)
                if r is None:
                    continue
                callee, mode, cls_ = r
                if callee == 'open' and rebinding and cls_ != 'guarded' and cls_ != 'read':
                    cls_ = 'undeferred'
                sites.append({'file': rel, 'line': n.lineno, 'function': q, 'callee': callee, 'mode': mode, 'cls': cls_})
    # ---- reachability (names only)
    by_name = {}
    for (rel, q), (node, cls) in funcs.items():
        if q != '<module>':
            by_name.setdefault(q.split('.')[-1], []).append((rel, q))
    reach = set()
    todo = [(rel, '<module>') for rel in mods]
    todo += [k for k in funcs if k[0].startswith('bin' + os.sep)]
    while todo:
        k = todo.pop()
        if k in reach:
            continue
        reach.add(k)
        node, cls = funcs[k]
        if isinstance(node, ast.ClassDef):
            # a reachable class: its methods (and nested classes) can be called through any protocol
            for (rel, q) in funcs:
                if rel == k[0] and q.startswith(k[1] + '.') and (rel, q) not in reach:
                    todo.append((rel, q))
            continue
        for name in idents[k]:
            for tgt in by_name.get(name, ()):
                if tgt not in reach:
                    todo.append(tgt)
        # nested defs of a reachable function are reachable
        for (rel, q) in funcs:
            if rel == k[0] and k[1] != '<module>' and q.startswith(k[1] + '.') and (rel, q) not in reach:
                todo.append((rel, q))
    for s in sites:
        s['reachable'] = (s['file'], s['function']) in reach
    return sites, {'files': len(mods), 'functions': len(funcs), 'reachable_functions': len(reach)}
