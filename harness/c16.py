#!/venv/bin/python
"""C16 - structure files round-trip: what is written (PDB, GRO) is read back.
Model: lean/VermouthModel/C16.lean (+ lean/Generated/C16Layout.lean, re-extracted on every run);
theorems: lean/VermouthProps/C16.lean, lean/VermouthProps/C16Tables.lean."""
import glob
import tempfile
import traceback
from decimal import Decimal
from common import *
import c16_extract
import c16_fmt
import c16_full

chk = Check('C16')
chk.extra['rule'] = ('random systems (1-5 molecules, arbitrary integer node keys, atom ids that reorder the nodes, '
                     'None/absent attributes, names of 0-6 characters (a quarter of the systems with points in the names, also on the first GRO line), residue numbers across 9999/-999, '
                     'coordinates on the 0.001 grid incl. negative and 8-column overflow, random bond graphs incl. '
                     'degree > 4) plus systems of 9998-10002 (thorough: 99998-100002) atoms are written by the real '
                     'write_pdb_string / write_gro; the text is compared byte for byte with the Lean model, read '
                     'back with the real read_pdb / read_gro, compared with the Lean reader, and checked against the '
                     'property by an independent oracle. A case is non-trivial if a field is at or beyond its column '
                     'width or the text has >= 1 CONECT record, or it is a step of a history; histories: 3-7 files (GRO written '
                     'with different `precision`, PDB of different systems, a repeated first step) written and read in ONE '
                     'freshly forked process, every write and read compared with the model (a function of the system / of '
                     'the text only) and checked by the oracle; systems with residues named SOL/HOH/W/NA/CL/ION/TIP3 are also read back '
                     'through the processors PDBInput / GROInput (defaults, explicit exclude, ignh, modelidx=1): model reader with '
                     'the same exclusion list; oracle: nothing excluded -> every atom of the direct read, else exactly the atoms '
                     'of the other residue names; distinct = distinct protocol line')

gen, extract_err = None, None
try:
    LAY = c16_extract.extract(REPO)
    c16_extract.check_runtime(LAY)
    gen = {'C16Layout.lean': c16_extract.render_lean(LAY), 'C16LayoutX.lean': c16_extract.render_lean_x(LAY)}
except Exception as exc:  # the tie is broken: keep the committed layout, search for a failing input
    extract_err = '%s: %s' % (type(exc).__name__, exc)
chk.lean(['VermouthProps.C16', 'VermouthProps.C16Tables', 'VermouthProps.C16File', 'VermouthProps.C16Gro',
          'VermouthProps.C16Conect', 'VermouthProps.C16Format', 'VermouthProps.C16Total', 'VermouthProps.C16Merge',
          'VermouthProps.C16Model', 'VermouthProps.C16Conserv', 'VermouthProps.C16Full', 'VermouthProps.C16GroX'],
         'driver_c16', generated=gen)
chk.extra['phase_s'] = {'lean_done': round(chk.elapsed(), 1)}
if extract_err:
    chk.broken.append(('extract:C16Layout', extract_err))
chk.extra['anchor_coverage_note'] = ('the real writers and readers run in forked workers; their executed lines are sent back '
                                     '(Check.worker_lines / merge_worker_lines) and merged, so anchor_line_coverage counts '
                                     'worker lines too (the "in-process" wording of its tool field predates that)')
chk.trusted.append('harness/c16_extract.py (AST translator of format strings / column tables, cross-checked against '
                   'the format strings seen at run time), harness/c16.py oracle; CPython float formatting on the '
                   '0.001 grid')

import numpy as np
from vermouth.molecule import Molecule
from vermouth.system import System
from vermouth.pdb.pdb import write_pdb_string, read_pdb
from vermouth.gmx.gro import write_gro, read_gro
from vermouth.processors import PDBInput, GROInput
quiet_vermouth_logs()

TMP = tempfile.mkdtemp(prefix='c16_')
STR_ATTRS = ('atomname', 'altloc', 'resname', 'chain', 'insertion_code', 'element')
LETTERS = 'ABCDEFGHIJKLMNOPQRSTUVWXYZabcdefghijklmnopqrstuvwxyz'
EXCL_NAMES = ('SOL', 'HOH', 'W', 'NA', 'CL', 'ION', 'TIP3')
known = {k['id'] for k in chk.known if k.get('status') == 'known'}


# ----------------------------------------------------------------------------
# systems: plain dictionaries; the same data go to the real code and to the model
# ----------------------------------------------------------------------------
def atom(key, atomid=None, atomname=None, altloc=None, resname=None, chain=None, resid=None, insertion_code=None,
         x=0, y=0, z=0, occupancy=None, temp_factor=None, element=None, explicit_none=False):
    return dict(key=key, atomid=atomid, atomname=atomname, altloc=altloc, resname=resname, chain=chain, resid=resid,
                insertion_code=insertion_code, x=x, y=y, z=z, occupancy=occupancy, temp_factor=temp_factor,
                element=element, explicit_none=explicit_none)


def build_system(case, scale):
    """scale: grid units per nm (10000 for PDB = 0.001 A, 1000 for GRO = 0.001 nm)"""
    system = System()
    for mol in case['mols']:
        m = Molecule()
        for a in mol['atoms']:
            attrs = {}
            for k in STR_ATTRS + ('resid',):
                if a[k] is not None or a['explicit_none']:
                    attrs[k] = a[k]
            if a['atomid'] is not None:
                attrs['atomid'] = a['atomid']
            for k in ('occupancy', 'temp_factor'):
                if a[k] is not None:
                    attrs[k] = a[k] / 100.0
                elif a['explicit_none']:
                    attrs[k] = None
            attrs['position'] = np.array([a['x'], a['y'], a['z']], dtype=float) / scale
            m.add_node(a['key'], **attrs)
        m.add_edges_from(mol['edges'])
        system.add_molecule(m)
    return system


def enc_system(case):
    return [[[[a['key'], a['atomid'], a['atomname'], a['altloc'], a['resname'], a['chain'], a['resid'],
               a['insertion_code'], a['x'], a['y'], a['z'], a['occupancy'], a['temp_factor'], a['element']]
              for a in mol['atoms']], [list(e) for e in mol['edges']]] for mol in case['mols']]


def gro_variant(case):
    """write_gro needs atomname, resname and resid on every node"""
    out = {'mols': [], 'conect': case['conect']}
    for mol in case['mols']:
        atoms = []
        for a in mol['atoms']:
            b = dict(a)
            b['atomname'] = 'X' if a['atomname'] is None else a['atomname']
            b['resname'] = 'R' if a['resname'] is None else a['resname']
            b['resid'] = 1 if a['resid'] is None else a['resid']
            atoms.append(b)
        out['mols'].append({'atoms': atoms, 'edges': mol['edges']})
    return out


def exc_name(exc):
    return 'err ' + type(exc).__name__.lower()


# ----------------------------------------------------------------------------
# the property, stated independently of code and model (column widths of the formats are
# constants of the oracle: PDB name 4, residue name 3, chain 1, residue number 4, x/y/z 8.3;
# GRO 5/5/5/5 and 8.3)
# ----------------------------------------------------------------------------
def write_order(mol):
    return sorted(mol['atoms'], key=lambda a: float('inf') if a['atomid'] is None else a['atomid'])


def want_str(v, width, keep='left'):
    v = '' if v is None else v
    if len(v) > width:
        v = v[:width] if keep == 'left' else v[-width:]
    return v.strip()


def want_int(v, width, default):
    s = str(default if v is None else v)
    return int(s[-width:])


def want_coord(k, width=8):
    s = ('-' if k < 0 else '') + '%d.%03d' % divmod(abs(k), 1000)
    return int(Decimal(s[-width:]) * 1000)


def has_letter(s):
    return any(c in LETTERS for c in s)


def pdb_letterless(case):
    for mol in case['mols']:
        for a in mol['atoms']:
            if not want_str(a['element'], 2) and not has_letter(want_str(a['atomname'], 4)):
                return True
    return False


def gro_first_points(case):
    """points in the name columns of the first atom line of the GRO file (names as they fit their columns)"""
    for mol in case['mols']:
        for a in write_order(mol):
            return want_str(a['resname'], 5).count('.') + want_str(a['atomname'], 5, 'right').count('.')
    return 0


def gro_letterless(case):
    return any(not has_letter(want_str(a['atomname'], 5, 'right')) for mol in case['mols'] for a in mol['atoms'])


def altloc_kept(a):
    return want_str(a['altloc'], 1) in ('', 'A')


def oracle_pdb(case, text, mols, exc):
    errs = []
    lines = text.split('\n')
    if any(len(l) != 80 for l in lines if l.startswith('ATOM')):
        errs.append('an ATOM record is not 80 columns long (fields shifted)')
    if any(len(l) != 27 for l in lines if l.startswith('TER')):
        errs.append('a TER record is not 27 columns long')
    natoms = sum(len(m['atoms']) for m in case['mols'])
    if sum(1 for l in lines if l.startswith('ATOM')) != natoms:
        errs.append('number of ATOM records differs from the number of atoms')
    if exc is not None:
        errs.append('read_pdb raised %s on the text written by write_pdb_string' % type(exc).__name__)
        return errs
    want_mols = []
    serial = 1
    max_serial = 0
    for mol in case['mols']:
        order = write_order(mol)
        kept = []
        for a in order:
            if altloc_kept(a):
                kept.append((a, serial))
            max_serial = max(max_serial, serial)
            serial += 1
        serial += 1
        if kept:
            want_mols.append((kept, mol))
    if [len(k) for k, _ in want_mols] != [len(m) for m in mols]:
        errs.append('division into molecules lost: wrote %s atoms per molecule, read %s'
                    % ([len(k) for k, _ in want_mols][:8], [len(m) for m in mols][:8]))
        return errs
    for mi, ((kept, mol), got) in enumerate(zip(want_mols, mols)):
        for ai, ((a, ser), idx) in enumerate(zip(kept, got.nodes)):
            node = got.nodes[idx]
            pos = [int(round(float(v) * 10000)) for v in node['position']]
            checks = (('atomname', node['atomname'], want_str(a['atomname'], 4)),
                      ('resname', node['resname'], want_str(a['resname'], 3)),
                      ('chain', node['chain'], want_str(a['chain'], 1)),
                      ('resid', node['resid'], want_int(a['resid'], 4, 1)),
                      ('insertion_code', node['insertion_code'], want_str(a['insertion_code'], 1)),
                      ('x', pos[0], want_coord(a['x'])), ('y', pos[1], want_coord(a['y'])),
                      ('z', pos[2], want_coord(a['z'])))
            for nm, g, w in checks:
                if g != w:
                    errs.append('molecule %d atom %d (serial %d): %s read back as %r, expected %r'
                                % (mi, ai, ser, nm, g, w))
            if len(errs) > 5:
                return errs
        if case['conect'] and max_serial <= 99999:
            pos_of = {a['key']: i for i, (a, _) in enumerate(kept)}
            want_edges = {(min(pos_of[u], pos_of[v]), max(pos_of[u], pos_of[v])) for u, v in mol['edges']
                          if u in pos_of and v in pos_of and u != v}
            idxs = list(got.nodes)
            rank = {n: i for i, n in enumerate(idxs)}
            got_edges = {(min(rank[u], rank[v]), max(rank[u], rank[v])) for u, v in got.edges}
            if want_edges != got_edges:
                lost = sorted(want_edges - got_edges)[:3]
                extra = sorted(got_edges - want_edges)[:3]
                errs.append('molecule %d: bonds differ after the round trip: %d written, %d read; lost %s, spurious %s'
                            % (mi, len(want_edges), len(got_edges), lost, extra))
    return errs


def oracle_gro(case, flines, mol, exc, precision=7):
    errs = []
    width = precision + 1
    atoms = [a for m in case['mols'] for a in write_order(m)]
    if len(flines) != len(atoms) + 3:
        errs.append('GRO file has %d lines for %d atoms' % (len(flines), len(atoms)))
    if any(len(l) != 20 + 3 * width for l in flines[2:-1]):
        errs.append('a GRO atom line is not %d columns long (fields shifted)' % (20 + 3 * width))
    if len(flines) > 1 and flines[1].strip() != str(len(atoms)):
        errs.append('atom count line is %r' % flines[1])
    if exc is not None:
        errs.append('read_gro raised %s on the file written by write_gro' % type(exc).__name__)
        return errs
    if len(mol) != len(atoms):
        errs.append('read %d atoms, wrote %d' % (len(mol), len(atoms)))
        return errs
    for ai, (a, idx) in enumerate(zip(atoms, mol.nodes)):
        node = mol.nodes[idx]
        pos = [int(round(float(v) * 1000)) for v in node['position']]
        checks = (('atomname', node['atomname'], want_str(a['atomname'], 5, 'right')),
                  ('resname', node['resname'], want_str(a['resname'], 5)),
                  ('resid', node['resid'], want_int(a['resid'], 5, 1)),
                  ('chain', node['chain'], ''),
                  ('x', pos[0], want_coord(a['x'], width)), ('y', pos[1], want_coord(a['y'], width)),
                  ('z', pos[2], want_coord(a['z'], width)))
        for nm, g, w in checks:
            if g != w:
                errs.append('atom %d: %s read back as %r, expected %r' % (ai, nm, g, w))
        if len(errs) > 5:
            break
    return errs


# ----------------------------------------------------------------------------
# canonical forms of what the real readers return
# ----------------------------------------------------------------------------
def canon_pdb(mols):
    out, bonds = [], []
    for mi, m in enumerate(mols):
        atoms = []
        rank = {}
        for i, idx in enumerate(m.nodes):
            n = m.nodes[idx]
            rank[idx] = i
            pos = [int(round(float(v) * 10000)) for v in n['position']]
            atoms.append([n['atomid'], n['atomname'], n['altloc'], n['resname'], n['chain'], n['resid'],
                          n['insertion_code'], pos[0], pos[1], pos[2], int(round(n['occupancy'] * 100)),
                          int(round(n['temp_factor'] * 100)), n['element']])
        out.append(atoms)
        bonds.extend(sorted({(mi, min(rank[u], rank[v]), max(rank[u], rank[v])) for u, v in m.edges}))
    return 'ok ' + enc(out) + ' ' + enc([list(b) for b in bonds]), 'ok ' + enc(out)


def canon_gro(mol):
    atoms = []
    for idx in mol.nodes:
        n = mol.nodes[idx]
        pos = [int(round(float(v) * 1000)) for v in n['position']]
        atoms.append([n['resid'], n['resname'], n['atomname'], n['atomid'], pos[0], pos[1], pos[2], n['element']])
    return 'ok ' + enc(atoms)


# ----------------------------------------------------------------------------
# generator
# ----------------------------------------------------------------------------
ALPHA = LETTERS + '0123456789' * 3 + "'*+-_"
ALPHAD = ALPHA + '.' * 12        # names with points: 'C1.A', 'ZN2.'
HOSTILE = ALPHA + '#. '


def rand_name(rng, lo, hi, alphabet=ALPHA, need_letter=False):
    n = rng.randint(lo, hi)
    s = ''.join(rng.choice(alphabet) for _ in range(n))
    if n >= 3 and (alphabet is ALPHA or alphabet is ALPHAD) and rng.random() < 0.05:
        s = s[0] + ' ' + s[2:]   # internal blank
    if need_letter and n:
        # a letter that survives both the keep-left (PDB, 4) and the keep-right (GRO, 5) truncation
        p = min(1, n - 1)
        if not has_letter(s[:4]) or not has_letter(s[-5:]):
            s = s[:p] + rng.choice(LETTERS) + s[p + 1:]
    return s


def rand_coord(rng):
    k = rng.random()
    if k < 0.5:
        return rng.randint(-99999, 99999)
    if k < 0.7:
        return rng.choice([0, 1, -1, 999, -999, 1000, -1000, 9999999, -999999, 9999998, -999998, 500, -500])
    if k < 0.85:
        return rng.choice([1, -1]) * rng.randint(900000, 12000000)     # around the 8-column limits
    return rng.choice([1, -1]) * rng.randint(10 ** 7, 10 ** 10)         # overflow


def rand_resid(rng):
    k = rng.random()
    if k < 0.4:
        return rng.randint(1, 500)
    if k < 0.7:
        return rng.choice([9998, 9999, 10000, 10001, 99999, 100000, 100001, -1, -99, -999, -1000, -9999, -10000, 0,
                           123456, -123456])
    return rng.randint(-20000, 120000)


def rand_mol(rng, natoms, style):
    keys = rng.sample(range(-5, natoms * 3 + 5), natoms) if style['scatter_keys'] else list(range(natoms))
    idmode = style['idmode']
    atoms = []
    for i, key in enumerate(keys):
        if idmode == 'none':
            aid = None
        elif idmode == 'order':
            aid = i + 1
        elif idmode == 'shuffled':
            aid = None   # filled below
        else:  # partial / duplicates
            aid = rng.choice([None, rng.randint(1, max(2, natoms // 2))])
        opt = (lambda v: None if (style['nones'] and rng.random() < 0.15) else v)
        hostile = style['hostile']
        al = HOSTILE if hostile else (ALPHAD if style.get('dots') else ALPHA)
        a = atom(key, aid,
                 atomname=opt(rand_name(rng, 0 if hostile or style['letterless'] else 1, 6, al,
                                        need_letter=not (hostile or style['letterless']))),
                 altloc=opt(rng.choice(['', '', '', 'A', 'A', 'AB'] + (['B', ' '] if style['altloc'] else []))),
                 resname=opt(rand_name(rng, 0, 6, al)),
                 chain=opt(rand_name(rng, 0, 2, al)),
                 resid=opt(rand_resid(rng)),
                 insertion_code=opt(rng.choice(['', '', '', 'A', 'b', 'XY'])),
                 x=rand_coord(rng), y=rand_coord(rng), z=rand_coord(rng),
                 occupancy=rng.choice([None, None, 100, 50, 0, 99999, 123456]) if style['nones'] else None,
                 temp_factor=rng.choice([None, None, 0, 1234, -550, 99999, 1000000]) if style['nones'] else None,
                 element=opt(rng.choice(['', '', 'C', 'N', 'Fe', 'XYZ', 'H'])),
                 explicit_none=rng.random() < 0.3)
        if style['letterless'] and rng.random() < 0.5:
            a['atomname'] = rng.choice(['', '1', '12', "2'", '1234C', '12345X', None])
            a['element'] = rng.choice(['', None, 'C'])
        if not (hostile or style['letterless']) and not has_letter(want_str(a['atomname'], 4)) \
                and not want_str(a['element'], 2):
            a['element'] = 'C'     # an absent name: the PDB reader needs an element to go by
        atoms.append(a)
    if idmode == 'shuffled':
        perm = list(range(1, natoms + 1))
        rng.shuffle(perm)
        for a, p in zip(atoms, perm):
            a['atomid'] = p
    edges = set()
    if natoms > 1:
        dens = style['density']
        for i in range(1, natoms):
            if rng.random() < dens:
                edges.add((keys[rng.randrange(i)], keys[i]))
        if style['hub'] and natoms > 6:
            hub = rng.choice(keys)
            for k in rng.sample(keys, min(natoms - 1, rng.randint(5, 11))):
                if k != hub:
                    edges.add((hub, k))
        for _ in range(int(natoms * dens * rng.random())):
            u, v = rng.sample(keys, 2)
            edges.add((u, v))
    seen, out = set(), []
    for u, v in sorted(edges):
        if u != v and frozenset((u, v)) not in seen:
            seen.add(frozenset((u, v)))
            out.append((u, v) if rng.random() < 0.5 else (v, u))
    return {'atoms': atoms, 'edges': out}


def rand_case(rng, kind='plain'):
    style = {'scatter_keys': rng.random() < 0.5,
             'idmode': rng.choice(['none', 'order', 'shuffled', 'partial']),
             'nones': rng.random() < 0.4, 'altloc': rng.random() < 0.15, 'density': rng.choice([0, 0.5, 1.0, 1.0]),
             'hub': rng.random() < 0.4, 'hostile': kind == 'hostile', 'letterless': kind == 'letterless',
             'dots': kind == 'plain' and rng.random() < 0.25}
    nmol = rng.choice([1, 1, 2, 3, 5])
    mols = [rand_mol(rng, rng.choice([1, 1, 2, 3, 5, 8, 13]), style) for _ in range(nmol)]
    if style['dots'] and mols[0]['atoms'] and rng.random() < 0.3:
        # points in the names of the atom that is written FIRST: one, two, or the critical three
        first = write_order(mols[0])[0]
        first['resname'], first['atomname'] = rng.choice([('ZN2.', 'C1.A'), ('A.B.', 'C.'), ('AL.', 'C..A'), ('ALA', 'C.1'),
                                                          ('A.B', 'C'), ('...', 'CA'), ('R', 'C...'), ('A.B.C.D', 'XC1.A')])
    return {'mols': mols, 'conect': rng.random() < 0.85, 'kind': kind}


def big_case(rng, total, nmol, label):
    """`total` atoms in `nmol` molecules; a chain of bonds plus a few hubs and random bonds; every
    field within its width so that the whole system must come back unchanged"""
    sizes = [total // nmol] * nmol
    sizes[-1] += total - sum(sizes)
    mols = []
    resid = rng.choice([1, 9990, -5])
    for mi, n in enumerate(sizes):
        atoms = []
        for i in range(n):
            if i % 7 == 0:
                resid += 1
            atoms.append(atom(i, i + 1, atomname=rng.choice(['CA', 'N', 'C', 'O', 'BB', 'SC1', "H5'"]),
                              resname=rng.choice(['ALA', 'GLY', 'W']), chain=LETTERS[mi % 26], resid=resid,
                              x=rng.randint(-99999, 99999), y=rng.randint(-99999, 99999), z=rng.randint(-9999, 9999),
                              element='C'))
        edges = [(i, i + 1) for i in range(n - 1)]
        if n > 12:
            for _ in range(3):
                hub = rng.randrange(n)
                edges += [(hub, k) for k in rng.sample(range(n), 7) if abs(k - hub) > 1]
            # bonds of the very last atoms (highest serials)
            edges += [(n - 1, n - 3), (n - 2, n - 6), (0, n - 1)]
        seen, out = set(), []
        for u, v in edges:
            if u != v and frozenset((u, v)) not in seen:
                seen.add(frozenset((u, v)))
                out.append((u, v))
        mols.append({'atoms': atoms, 'edges': out})
    return {'mols': mols, 'conect': True, 'kind': label}


def corpus_cases():
    out = []
    for path in sorted(glob.glob(os.path.join(VERIF, 'corpus', 'c16_*.json'))):
        d = json.load(open(path))
        for i, c in enumerate(d['cases']):
            if 'big' in c:
                if (c['big']['total'] > 20000 or c.get('tier') == 'thorough') and not chk.thorough:
                    continue
                case = big_case(random.Random(c['big'].get('seed', 0)), c['big']['total'], c['big']['nmol'], 'corpus')
            else:
                case = {'mols': [{'atoms': [atom(**a) for a in m['atoms']], 'edges': [tuple(e) for e in m['edges']]}
                                 for m in c['mols']], 'conect': c.get('conect', True), 'kind': 'corpus'}
            out.append(('corpus-%s-%d' % (os.path.basename(path)[4:-5], i), case))
    return out


cases = corpus_cases()
rng = chk.rng('systems')
N = 6000 if chk.thorough else 700
for i in range(N):
    k = rng.random()
    cases.append(('sys-%d' % i, rand_case(rng, 'plain' if k < 0.9 else ('letterless' if k < 0.95 else 'hostile'))))
# systems with solvent / ion residue names (the ones a default exclusion list would name), read back through the
# processors as well (proc_reads)
rngp = chk.rng('procread')
for i in range(1200 if chk.thorough else 150):
    c = rand_case(rngp, 'plain')
    c['proc'] = True
    for m in c['mols']:
        whole = rngp.random() < 0.3
        nm = rngp.choice(EXCL_NAMES)
        for a in m['atoms']:
            if whole or rngp.random() < 0.3:
                a['resname'] = nm if whole or rngp.random() < 0.6 else rngp.choice(EXCL_NAMES)
    cases.append(('proc-%d' % i, c))
rngb = chk.rng('big')
for total in (9998, 9999, 10000, 10001, 10002):
    cases.append(('big-%d' % total, big_case(rngb, total, rngb.choice([1, 2, 3]), 'big')))
if chk.thorough:
    # serials = atoms + one per TER record; up to 99999 the bonds must come back, beyond that the
    # format cannot hold them (CONECT is switched off there: truncated serials would make the
    # reader merge molecules) but atoms, order and molecule division still must
    for total, nmol in ((99990, 8), (99991, 8), (99949, 50), (99979, 20)):
        cases.append(('huge-%d-%d' % (total, nmol), big_case(rngb, total, nmol, 'huge')))
    for total, nmol in ((99992, 8), (99999, 1), (100002, 20)):
        c = big_case(rngb, total, nmol, 'huge')
        c['conect'] = False
        cases.append(('huge-%d-%d-noconect' % (total, nmol), c))


# ----------------------------------------------------------------------------
# run: real writers -> model writers (text); real readers -> model readers (parsed system); oracle
# ----------------------------------------------------------------------------
def field_at_width(case, fmt):
    w = {'pdb': (4, 3, 2, 4), 'gro': (5, 5, 99, 5)}[fmt]
    for mol in case['mols']:
        for a in mol['atoms']:
            if len(a['atomname'] or '') >= w[0] or len(a['resname'] or '') >= w[1] or len(a['chain'] or '') >= w[2] \
                    or len(str(1 if a['resid'] is None else a['resid'])) >= w[3] \
                    or any(len('%.3f' % (a[c] / 1000.0)) >= 8 for c in 'xyz'):
                return True
    return sum(len(m['atoms']) + 1 for m in case['mols']) > 9999


beyond = set()
counts = {}


def cnt(key, n=1):
    counts[key] = counts.get(key, 0) + n


records = []   # (case id, op, protocol line, impl canonical, oracle errs, nontrivial, finding, use_oracle)


# ----------------------------------------------------------------------------
# reading back through the PROCESSORS (vermouth.processors.PDBInput / GROInput - the path martinize2 takes):
# their own defaults (nothing excluded) and explicit exclude / ignh / modelidx; the model reader takes the
# exclusion list and ignh as parameters; oracle: with an empty exclusion list (and ignh off) exactly what the
# direct, oracle-checked read with exclude=() returned, else exactly its atoms of the other residue names
# (and, with ignh, of an element other than H), in the same order
# ----------------------------------------------------------------------------
def proc_variants(rng_, present):
    names = sorted(n for n in present if n)
    out = [('default', {}), ('empty', {'exclude': ()}), ('sol', {'exclude': ('SOL',)})]
    pick = tuple(rng_.sample(names, min(len(names), rng_.choice([1, 1, 2])))) if names else ('HOH',)
    out.append(('names', {'exclude': pick + ('ZZZ',)}))
    out.append(('ignh', {'ignh': True}))
    out.append(('all', {'exclude': [rng_.choice(names)] if names else [], 'ignh': rng_.random() < 0.5}))
    return out


def proc_reads(cid, fmt, path, case, flines, direct, nontriv):
    """direct: the molecules (PDB) / molecule (GRO) read directly with nothing excluded"""
    rng_ = chk.rng('procread-' + cid)
    dmols = direct if fmt == 'pdb' else [direct]
    rows = [(n.get('resname'), n.get('element'), n) for m in dmols for n in (m.nodes[i] for i in m.nodes)]
    present = {r[0] for r in rows}
    variants = proc_variants(rng_, present)
    if fmt == 'pdb':
        variants.append(('model1', {'modelidx': 1, 'exclude': ()}))
    for tag, kw in variants:
        excl, ignh = tuple(kw.get('exclude', ())), bool(kw.get('ignh', False))
        what = '%s(%s)' % ('PDBInput' if fmt == 'pdb' else 'GROInput',
                           ', '.join('%s=%r' % kv for kv in sorted(kw.items())))
        errs, got = [], None
        try:
            system = System()
            (PDBInput if fmt == 'pdb' else GROInput)(path, **kw).run_system(system)
            got = list(system.molecules)
            if fmt == 'pdb':
                impl = canon_pdb(got)[0]
            else:
                if len(got) != 1:
                    errs.append('%s added %d molecules to the system' % (what, len(got)))
                impl = canon_gro(got[0])
        except Exception as e:
            impl = exc_name(e)
            errs.append('%s raised %s on the written file' % (what, type(e).__name__))
        if got is not None:
            want = [n for rn, el, n in rows if rn not in excl and not (ignh and el == 'H')]
            have = [m.nodes[i] for m in got for i in m.nodes]
            key = (lambda n: (n.get('atomid'), n.get('atomname'), n.get('resname'), n.get('resid'), n.get('chain'),
                              tuple(int(round(float(v) * 10000)) for v in n['position'])))
            if [key(n) for n in want] != [key(n) for n in have]:
                lost = sorted({n.get('resname') for n in want} - {n.get('resname') for n in have})
                errs.append('%s returned %d atoms; the file holds %d atoms, %d of them outside the exclusion%s'
                            % (what, len(have), len(rows), len(want),
                               '; residue names lost: %s' % lost if lost else ''))
        cnt('proc_%s_%s' % (fmt, tag))
        if got is not None and len(have) < len(rows):
            cnt('proc_%s_atoms_excluded' % fmt)
        if any(rn in EXCL_NAMES for rn in present):
            cnt('proc_%s_with_solvent_like_residue_names' % fmt)
        rline = line(fmt + 'read', list(excl), ignh, flines)
        records.append(('%s-%sproc-%s' % (cid, fmt, tag), rline, impl, errs, nontriv, None, True))


def run_pdb(cid, case):
    kind = case['kind']
    wline = line('pdbwrite', case['conect'], enc_system(case))
    text = None
    try:
        text = write_pdb_string(build_system(case, 10000), conect=case['conect'])
        impl_w = 'ok ' + enc(text.split('\n'))
    except Exception as exc:
        impl_w = exc_name(exc)
    if text is None:
        records.append((cid + '-pdbwrite', wline, impl_w, ['write_pdb_string raised: ' + impl_w], False, None, True))
        return
    path = os.path.join(TMP, 'c%d.pdb' % os.getpid())
    with open(path, 'w') as f:
        f.write(text)
    mols, exc = None, None
    try:
        mols = read_pdb(path, exclude=(), ignh=False)
        impl_r, impl_m = canon_pdb(mols)
    except Exception as e:
        exc = e
        impl_r = exc_name(e)
    errs = oracle_pdb(case, text, mols, exc)
    nontriv = field_at_width(case, 'pdb') or 'CONECT' in text
    letterless = pdb_letterless(case)
    finding, use = None, True
    if kind == 'hostile':
        use = False
        cnt('pdb_outside_domain_model_only')
    elif letterless:
        if 'F-C16-2' in known:
            finding = 'F-C16-2'
        else:
            use = False
        cnt('pdb_letterless_name')
    nser = sum(len(m['atoms']) + 1 for m in case['mols'])
    cnt('pdb_serials_' + ('le9999' if nser <= 9999 else 'le99999' if nser <= 99999 else 'gt99999'))
    cnt('pdb_conect_records=%s' % min(text.count('CONECT'), 3))
    cnt('pdb_read_' + impl_r.split()[0] + ('' if exc is None else '_' + impl_r.split()[1]))
    records.append((cid + '-pdbwrite', wline, impl_w, [], nontriv, None, True))
    rline = line('pdbread', [], False, text.split('\n'))
    if nser > 99999 and 'CONECT' in text:
        # outside the quantifier of the property (serials do not fit): truncated CONECT serials make the
        # reader merge molecules, which the model does not follow; only "no column shifts" is checked
        cnt('pdb_beyond_serial_limit_with_conect')
        beyond.add(cid + '-pdbread')
        records.append((cid + '-pdbread', rline, impl_r, [e for e in errs if 'columns long' in e], nontriv, None,
                        False))
        return
    records.append((cid + '-pdbread', rline, impl_r, errs if use or finding else [], nontriv, finding, use))
    if case.get('proc') and exc is None:
        proc_reads(cid, 'pdb', path, case, text.split('\n'), mols, nontriv)
    # the closed form of the totality theorems (pdb_file_overflow_local: truncAtomOf) against what read_pdb returned
    if kind not in ('big', 'huge'):     # (nothing overflows there; saves re-sending the large systems)
        tline = line('pdbtrunc', enc_system(case))
        records.append((cid + '-pdbtrunc', tline, impl_m if exc is None else impl_r, [], nontriv, None, True))


def run_gro(cid, case0, precision=None):
    case = gro_variant(case0)
    kind = case0['kind']
    wline = line('growrite', enc_system(case)) if precision is None else \
        line('growritep', precision, enc_system(case))
    path = os.path.join(TMP, 'c%d.gro' % os.getpid())
    flines = None
    try:
        if precision is None:
            write_gro(build_system(case, 1000), path, defer_writing=False)
        else:
            write_gro(build_system(case, 1000), path, precision=precision, defer_writing=False)
        flines = open(path).read().split('\n')
        if flines and flines[-1] == '':
            flines.pop()
        impl_w = 'ok ' + enc(flines[2:-1])
    except Exception as exc:
        impl_w = exc_name(exc)
    if flines is None:
        records.append((cid + '-growrite', wline, impl_w, ['write_gro raised: ' + impl_w], False, None, True))
        return
    mol, exc = None, None
    try:
        mol = read_gro(path, exclude=())
        impl_r = canon_gro(mol)
    except Exception as e:
        exc = e
        impl_r = exc_name(e)
    errs = oracle_gro(case, flines, mol, exc, 7 if precision is None else precision)
    if precision is not None:
        cnt('gro_precision=%d' % precision)
    nontriv = field_at_width(case, 'gro')
    finding, use = None, True
    if kind == 'hostile':
        use = False
        cnt('gro_outside_domain_model_only')
    elif gro_letterless(case):
        if 'F-C16-2' in known:
            finding = 'F-C16-2'
        else:
            use = False
        cnt('gro_letterless_name')
    if kind != 'hostile' and any('.' in (a['atomname'] or '') + (a['resname'] or '') for m in case['mols'] for a in m['atoms']):
        cnt('gro_points_in_names')
        if gro_first_points(case):
            cnt('gro_points_in_first_line_names=%d' % min(gro_first_points(case), 4))
    cnt('gro_read_' + impl_r.split()[0] + ('' if exc is None else '_' + impl_r.split()[1]))
    records.append((cid + '-growrite', wline, impl_w, [], nontriv, None, True))
    rline = line('groread', [], False, flines)
    records.append((cid + '-groread', rline, impl_r, errs if use or finding else [], nontriv, finding, use))
    if case0.get('proc') and exc is None:
        proc_reads(cid, 'gro', path, case, flines, mol, nontriv)
    if precision is None and kind not in ('big', 'huge'):
        records.append((cid + '-grotrunc', line('grotrunc', enc_system(case)), impl_r, [], nontriv, None, True))


def run_history(cid, case):
    """several files written and read in ONE process (this worker is forked for the history alone): every
    write and every read is compared with the model - a function of the system / of the text only, i.e. what
    a fresh process returns - and checked by the oracle; writing the same system again must give the same text"""
    seen = {}
    for k, (fmt, si, prec) in enumerate(case['steps']):
        sub = case['systems'][si]
        n0 = len(records)
        if fmt == 'pdb':
            run_pdb('%s-h%d' % (cid, k), sub)
        else:
            run_gro('%s-h%d' % (cid, k), sub, prec)
        cnt('history_step_' + fmt)
        new = records[n0:]
        if new:
            key = (fmt, si, prec)
            if key in seen and seen[key] != new[0][2]:
                r = new[0]
                records[n0] = (r[0], r[1], r[2], list(r[3]) + ['writing the same system a second time in one process '
                               'gives a different text'], r[4], r[5], r[6])
            seen.setdefault(key, new[0][2])
            # a history is non-trivial as such (state carried from one file to the next)
            ctx_txt = 'in one process, after %s: ' % (
                ', '.join('%s(system %d%s)' % (f, i, '' if p is None else ', precision=%d' % p)
                          for f, i, p in case['steps'][:k]) or 'nothing')
            for j in range(n0, len(records)):
                r = records[j]
                records[j] = (r[0], r[1], r[2], [ctx_txt + e for e in r[3]], True, r[5], r[6])


def rand_history(rng):
    systems = []
    for _ in range(rng.choice([2, 2, 3])):
        c = rand_case(rng, 'plain')
        c['mols'] = c['mols'][:2]
        for m in c['mols']:            # large coordinates: they need the wide columns of a high precision
            for a in m['atoms']:
                if rng.random() < 0.5:
                    a['x'] = rng.choice([1, -1]) * rng.randint(10 ** 6, 10 ** 9)
        systems.append(c)
    precs = rng.sample([4, 5, 6, 7, 7, 8, 9, 10, 11], 2)
    steps = []
    for k in range(rng.randint(3, 6)):
        if rng.random() < 0.3:
            steps.append(('pdb', rng.randrange(len(systems)), None))
        else:
            steps.append(('gro', rng.randrange(len(systems)),
                          precs[k % 2] if k < 2 or rng.random() < 0.6 else rng.choice([None, 7, 9, 5])))
    if rng.random() < 0.5:
        steps.append(steps[0])       # write after read after write
    return {'kind': 'history', 'systems': systems, 'steps': steps, 'mols': systems[0]['mols'], 'conect': True}


def process(job):
    """one case through both formats; run in a forked worker: returns what it would have appended"""
    cid, case = job
    del records[:]
    counts.clear()
    beyond.clear()
    err = None
    t_start = time.time()
    cnt('kind_' + case['kind'])
    cnt('n_molecules=%d' % min(len(case['mols']), 5))
    try:
        if case['kind'] == 'history':
            run_history(cid, case)
        elif case['kind'] in ('xsys', 'pdbtext', 'grotext'):
            if case['kind'] == 'xsys':
                recs, cts = c16_full.run_xsys(cid, case, TMP, HELPERS)
            elif case['kind'] == 'pdbtext':
                recs, cts = c16_full.run_pdbtext(cid, case, TMP, known)
            else:
                recs, cts = c16_full.run_grotext(cid, case, TMP)
            records.extend(recs)
            for k, v in cts.items():
                cnt(k, v)
        else:
            run_pdb(cid, case)
            run_gro(cid, case)
    except Exception:
        err = ('harness:' + cid, tail(traceback.format_exc()))
    cnt('worker_ms_' + case['kind'], int((time.time() - t_start) * 1000))
    return list(records), dict(counts), set(beyond), err, chk.worker_lines()


# the full model: extra node attributes and keyword arguments, hand-made PDB and GRO texts (harness/c16_full.py)
HELPERS = {'gro_variant': gro_variant, 'STR_ATTRS': STR_ATTRS, 'has_letter': has_letter, 'want_str': want_str,
           'known': known}
rngx = chk.rng('xsys')
for i in range(2000 if chk.thorough else 250):
    cases.append(('xsys-%d' % i, c16_full.extend_case(rngx, rand_case(rngx, 'plain'))))
# must-pass (F-C16-4, repaired): points in the names of the FIRST atom line of a file written with velocities
for i, (rn, an) in enumerate([('A.', 'C'), ('ZN2.', 'C1.A'), ('A.B.', 'C.'), ('ALA', 'C...')]):
    fx = {'mols': [{'atoms': [atom(0, 1, atomname=an, resname=rn, resid=1, x=1500, y=-2250, z=1, element='C'),
                              atom(1, 2, atomname='CA', resname='ALA', resid=2, x=3000, y=-4500, z=2, element='C')],
                    'edges': [(0, 1)]}], 'conect': True, 'kind': 'xsys'}
    for a in fx['mols'][0]['atoms']:
        a.update(haspos=True, vel=(1000 + i, -2000, 3000), charge=0)
    fx.update(omit_charges=True, nan_missing_pos=False, precision=7, title='points in the first names', via='string',
              box=[('dec', 1500, 3), ('int', 2), ('dec', 3250, 3)], velmode='all', posmode='all', chmode='none')
    cases.append(('xsys-fixed-points-%d' % i, fx))
rngt = chk.rng('pdbtext')
for i in range(4000 if chk.thorough else 500):
    cases.append(('pdbtext-%d' % i, c16_full.rand_pdbtext(rngt)))
rngg = chk.rng('grotext')
for i in range(3000 if chk.thorough else 350):
    cases.append(('grotext-%d' % i, c16_full.rand_grotext(rngg)))

# histories: several files per process (GRO files of different precision, PDB files of different systems)
rngh = chk.rng('histories')
hist_fixed = rand_history(random.Random(16))
hist_fixed['steps'] = [('gro', 0, None), ('gro', 1, 9), ('gro', 0, None), ('pdb', 1, None), ('gro', 1, 9), ('gro', 0, 5)]
cases.append(('hist-fixed', hist_fixed))
for i in range(400 if chk.thorough else 60):
    cases.append(('hist-%d' % i, rand_history(rngh)))

# the real code is run in forked workers (the cases are independent; results are collected in case
# order, so the run is deterministic); the largest systems are started first
import multiprocessing
nproc = max(1, min(4 if chk.thorough else 8, (os.cpu_count() or 1)))
order = sorted(range(len(cases)), key=lambda i: -sum(len(m['atoms']) for m in cases[i][1]['mols']))
chk.extra['phase_s']['cases_generated'] = round(chk.elapsed(), 1)
all_records, all_beyond = [], set()
ctx = multiprocessing.get_context('fork')
is_hist = [c[1]['kind'] == 'history' for c in cases]
# a history gets a worker process of its own (maxtasksperchild=1), forked from this process, which has read no
# structure file: whatever a read leaves behind in the library can only come from the history itself
with ctx.Pool(nproc) as pool, ctx.Pool(max(1, nproc // 2), maxtasksperchild=1) as hpool:
    handles = {i: (hpool if is_hist[i] else pool).apply_async(process, (cases[i],)) for i in order}
    results = [handles[i].get() for i in range(len(cases))]
for recs, cts, bey, err, wlines in results:
    chk.merge_worker_lines(wlines)     # line coverage of the anchored functions inside the forked workers
    all_records.extend(recs)
    all_beyond |= bey
    for k, v in cts.items():
        chk.count(k, v)
    if err:
        chk.broken.append(err)
records, beyond = all_records, all_beyond

chk.extra['phase_s']['workers_done'] = round(chk.elapsed(), 1)
# ----------------------------------------------------------------------------
# TruncFormatter.format_field in general: random format specs x values (strings, integers, decimals on the grid
# of the precision, which cross as integers) against C16.formatField; oracle in terms of python's format()
# ----------------------------------------------------------------------------
from vermouth.truncating_formatter import TruncFormatter
_formatter = TruncFormatter()
for cid, spec, val, prec in c16_fmt.stream(chk.rng('fmtfield'), 40000 if chk.thorough else 5000):
    value = c16_fmt.py_value(val, prec)
    status, res = c16_fmt.run_real(_formatter, value, spec)
    impl = 'ok ' + enc(res) if status == 'ok' else 'err ' + res
    errs = c16_fmt.oracle(value, spec, status, res)
    base = spec[:-1] if spec.endswith('t') else spec
    overflow = status == 'ok' and spec.endswith('t') and not base.endswith('t') and \
        any(ch.isdigit() and ch != '0' for ch in base.split('.')[0]) and len(str(val[1])) >= len(res)
    chk.count('fmt_' + ('ok_t' if spec.endswith('t') else 'ok') if status == 'ok' else 'fmt_' + res)
    if overflow:
        chk.count('fmt_value_at_or_beyond_width')
    records.append((cid, line('fmtfield', spec, c16_fmt.enc_val(val)), impl, errs, overflow or status != 'ok', None,
                    True))

lines = [r[1] for r in records]
chk.extra['phase_s']['real_code_done'] = round(chk.elapsed(), 1)
models = chk.drv.ask(lines) if chk.lean_ok else [None] * len(lines)
chk.extra['phase_s']['driver_done'] = round(chk.elapsed(), 1)
for (cid, ln, impl, errs, nontriv, finding, use), mo in zip(records, models):
    if cid in beyond and mo == 'err unmodelled':
        mo = None     # reader behaviour outside the model (merging molecules): oracle-only case
    if cid.endswith('x') and mo == 'err unmodelled':
        mo = None     # e.g. a GRO file of fewer than three lines (StopIteration), a negative atom count
        chk.count('full_model_unmodelled')
    if cid.endswith('trunc') and mo == 'skip':
        mo = None     # an atom the reader drops or stops at by design (element not found, altloc, '#'): no closed form
        chk.count('trunc_closed_form_not_applicable')
    elif cid.endswith('trunc'):
        chk.count('trunc_closed_form_compared')
    if cid.startswith('fmt-') and mo == 'err unmodelled':
        mo = None     # python formatting outside the model (',' grouping, types b c o x n e g %, '_', 'z')
        chk.count('fmt_model_unmodelled')
    chk.case(cid, ln, impl, mo, errs, nontriv, finding)
if 'F-C16-3' not in known:
    chk.notes.append('a CONECT record between atoms of two molecules makes PDBParser._do_single_conect merge them and put '
                     'the bond on the wrong atom (index not shifted after disjoint_union); never written by vermouth within '
                     'the five-digit numbering; counted as text_cross_conect_bond_on_wrong_atom (candidate finding F-C16-3)')
if not any('F-C16-2' == k for k in known):
    chk.notes.append('atom names without an ASCII letter (and, for PDB, without element) make read_pdb/read_gro raise '
                     'ValueError in first_alpha; such systems are compared with the model only and counted as '
                     '*_letterless_name (candidate finding F-C16-2, see level note)')
import shutil
shutil.rmtree(TMP, ignore_errors=True)
chk.finish()
