"""
C16, stream `fmtfield`: TruncFormatter.format_field in general (random format specs x values) against the
Lean model `C16.formatField` (lean/VermouthModel/C16_Format.lean), with an oracle that states what the `t`
flag has to do in terms of python's builtin format().
"""
import re

ALNUM = 'ABCDEFGHIJKLMNOPQRSTUVWXYZabcdefghijklmnopqrstuvwxyz0123456789'
FILLS = ' 0x*<>=^+-#.5ts_'
GARBAGE = '<>=^+- #0123456789,.sdftFxq_z%'


def rand_value(rng, kind=None):
    kind = kind or rng.choice(['str', 'str', 'int', 'int', 'fix'])
    if kind == 'str':
        n = rng.choice([0, 1, 2, 3, 4, 5, 6, 8, 11, 14])
        s = ''.join(rng.choice(ALNUM + '  .-') for _ in range(n))
        return ('str', s)
    if kind == 'nan':
        return ('nan', None)
    if kind == 'int':
        k = rng.random()
        if k < 0.3:
            return ('int', rng.randint(-20, 20))
        if k < 0.8:
            return ('int', rng.choice([1, -1]) * rng.randint(0, 10 ** rng.randint(1, 9)))
        return ('int', rng.choice([0, 9, 10, 99, 100, -9, -10, -99, -100, 99999, 100000, -9999, -10000, 2 ** 31,
                                   -2 ** 40]))
    k = rng.random()
    if k < 0.3:
        return ('fix', rng.randint(-2000, 2000))
    if k < 0.8:
        return ('fix', rng.choice([1, -1]) * rng.randint(0, 10 ** rng.randint(1, 11)))
    return ('fix', rng.choice([0, 1, -1, 999, 1000, -999, -1000, 99999999, -9999999, 10 ** 12, -10 ** 12 + 1]))


def rand_spec(rng):
    """-> (spec string, precision for a scaled decimal or None when the spec has a shape for which the
    harness does not send decimals)"""
    if rng.random() < 0.12:
        n = rng.randint(0, 6)
        return ''.join(rng.choice(GARBAGE) for _ in range(n)), None, None
    out = ''
    k = rng.random()
    if k < 0.25:
        out += rng.choice(FILLS) + rng.choice('<>=^')
    elif k < 0.55:
        out += rng.choice('<><>=^')
    if rng.random() < 0.2:
        out += rng.choice('+- ')
    if rng.random() < 0.08:
        out += '#'
    if rng.random() < 0.15:
        out += '0'
    k = rng.random()
    if k < 0.8:
        out += str(rng.choice([1, 2, 3, 4, 5, 5, 6, 8, 8, 10, 12, 17, 30]))
    elif k < 0.87:
        out += rng.choice(['0', '00', '007', '010'])
    if rng.random() < 0.04:
        out += ','
    prec = 6
    k = rng.random()
    if k < 0.4:
        prec = rng.choice([0, 1, 2, 3, 3, 4, 6, 8])
        out += '.%d' % prec
    elif k < 0.43:
        out += '.'
    k = rng.random()
    if k < 0.82:
        ty = rng.choice(['s', 'd', 'f', 'f', '', ''])
    elif k < 0.88:
        ty = 'F'
    else:
        ty = rng.choice('bcoxXneEgGn%q')
    out += ty
    k = rng.random()
    if k < 0.65:
        out += 't'
    elif k < 0.68:
        out += 'tt'
    return out, prec, ty


WIDTH_RE = re.compile(r'^(?:[\s\S]?([<>=^]))?[+\- ]?#?0?(\d*)')


def py_value(val, prec):
    kind, x = val
    if kind == 'fix':
        return x / 10 ** prec
    if kind == 'nan':
        return float('nan')
    return x


def run_real(formatter, value, spec):
    try:
        return 'ok', formatter.format_field(value, spec)
    except ValueError:
        return 'err', 'valueerror'
    except NotImplementedError:
        return 'err', 'notimplemented'
    except Exception as exc:   # AttributeError for '_' / 'z': the class's regular expression does not know them
        return 'err', 'other:' + type(exc).__name__.lower()


def oracle(value, spec, status, result):
    """the contract of the `t` flag, in terms of python's own format()"""
    errs = []
    trunc = spec.endswith('t')
    base = spec[:-1] if trunc else spec
    try:
        r0 = format(value, base)
    except ValueError:
        if (status, result) != ('err', 'valueerror'):
            errs.append('format(%r, %r) raises ValueError but format_field gave %s %r' % (value, base, status, result))
        return errs
    except Exception:        # e.g. OverflowError of the 'c' type: no claim
        return errs
    if '_' in base or 'z' in base:
        return errs          # known quirk: AttributeError from the fullmatch; not part of the property
    m = WIDTH_RE.match(base)
    width = int(m.group(2)) if m and m.group(2) else 0
    align = m.group(1) if m else None
    if not trunc or width == 0 or len(r0) <= width:
        if (status, result) != ('ok', r0):
            errs.append('without truncation format_field(%r, %r) must equal format(): %r, got %s %r'
                        % (value, spec, r0, status, result))
        return errs
    if align == '=':
        if (status, result) != ('err', 'notimplemented'):
            errs.append("'=' alignment with overflow: expected NotImplementedError, got %s %r" % (status, result))
        return errs
    if status != 'ok':
        errs.append('format_field(%r, %r) raised %s' % (value, spec, result))
        return errs
    over = len(r0) - width
    if align is None:
        align = '<' if isinstance(value, str) else '>'
    want = {'<': r0[:width], '>': r0[over:], '^': r0[over // 2: over // 2 + width]}[align]
    if len(result) != width:
        errs.append('format_field(%r, %r) = %r is not %d characters long' % (value, spec, result, width))
    if result != want:
        errs.append('format_field(%r, %r) = %r, expected the %s part %r of %r'
                    % (value, spec, result, {'<': 'left', '>': 'right', '^': 'middle'}[align], want, r0))
    return errs


def enc_val(val):
    kind, x = val
    if kind == 'nan':
        return [3]
    return [{'int': 0, 'str': 1, 'fix': 2}[kind], x]


def stream(rng, n):
    """-> list of (case id, spec, val, prec)"""
    out = []
    for i in range(n):
        spec, prec, ty = rand_spec(rng)
        if prec is None:
            kind = rng.choice(['str', 'int'])
        elif rng.random() < 0.12:
            kind = None                       # any kind, matching the type letter or not
        else:
            kind = {'s': 'str', 'd': 'int', 'f': rng.choice(['fix', 'fix', 'fix', 'fix', 'int', 'int', 'nan']), 'F': 'fix',
                    '': rng.choice(['str', 'int'])}.get(ty)
        val = rand_value(rng, kind)
        out.append(('fmt-%d' % i, spec, val, prec if prec is not None else 0))
    return out
