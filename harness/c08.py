#!/venv/bin/python
"""C08 - warning allowances are accounted exactly; errors are never waived.
Model: lean/VermouthModel/C08.lean; theorems: lean/VermouthProps/C08.lean."""
import logging
import runpy
from common import *

chk = Check('C08')
chk.extra['rule'] = ('records are logged through the real TypeAdapter/StyleAdapter into a CountingHandler, '
                     'specifications are parsed by the real maxwarn(); a case is non-trivial if it has >= 2 '
                     'warning types, >= 1 specification and the result differs from the plain total; '
                     'distinct = distinct protocol line')
chk.lean(['VermouthProps.C08', 'VermouthProps.C08_Hist'], 'driver_c08')

from vermouth.log_helpers import (get_logger, StyleAdapter, CountingHandler, ignore_warnings_and_count)
import argparse
M2 = runpy.run_path(os.path.join(REPO, 'bin', 'martinize2'), run_name='verif_m2')
maxwarn = M2['maxwarn']

TYPES = ['general', 'inconsistent-data', 'unmapped-atom', 'missing-atom', 'pdb-alternate', 'a', 'b', '']  # '' is a legal (falsy) type
LEVELS = [logging.DEBUG, logging.INFO, logging.WARNING, 35, logging.ERROR, logging.CRITICAL]


def make_counter(records):
    """Log `records` = [(level, type-or-None)] through the real adapters; return the handler."""
    base = logging.getLogger('vermouth.verif_c08')
    base.handlers[:] = []
    base.propagate = False
    base.setLevel(logging.DEBUG)
    handler = CountingHandler()
    base.addHandler(handler)
    logger = StyleAdapter(get_logger('vermouth.verif_c08'))
    for level, typ in records:
        if typ is None:
            logger.log(level, 'message {}', 1)
        else:
            logger.log(level, 'message {}', 1, type=typ)
    base.handlers[:] = []
    return handler


def dump(handler):
    return [[lvl, typ, cnt] for lvl, d in handler.counts.items() for typ, cnt in d.items()]


def gen_records(rng):
    n = rng.choice([0, 1, 2, 3, 5, 8, 13, 30])
    ntypes = rng.randint(1, len(TYPES))
    types = rng.sample(TYPES, ntypes) + [None]
    wl = rng.choice([[30], [30, 30, 30, 40], LEVELS])
    return [(rng.choice(wl), rng.choice(types)) for _ in range(n)]


def gen_spec_strings(rng, allow_both):
    out = []
    used_named, used_num = set(), set()
    for _ in range(rng.choice([0, 1, 1, 2, 3, 5])):
        group = []
        for _ in range(rng.choice([1, 1, 2, 3])):
            k = rng.random()
            t = rng.choice(TYPES + ['never-seen', 'other'])
            c = rng.choice([0, 1, 2, 3, 5, 100, -1, -7])
            if k < 0.3:
                s = str(c)
            elif k < 0.6:
                if not allow_both and t in used_num:
                    continue
                used_named.add(t)
                s = t
            else:
                if not allow_both and t in used_named:
                    continue
                used_num.add(t)
                s = '%s:%d' % (t, c)
            group.append(s)
        out.append(group)
    return out


def own_parse(text):
    """The documented grammar of one -maxwarn token, read independently of bin/martinize2:
    NUMBER | TYPE | TYPE:NUMBER (TYPE may be empty: ':3' limits the type '' to 3)."""
    if text.count(':') == 1:
        t, c = text.split(':')
        return (t, int(c))
    try:
        return (None, int(text))
    except ValueError:
        return (text, None)


def oracle(entries, specs, level=logging.WARNING):
    """The property statement, computed independently of code and model."""
    above = sum(c for l, t, c in entries if l > level)
    warn = {}
    for l, t, c in entries:
        if l == level:
            warn[t] = warn.get(t, 0) + c
    flat = [sp for g in specs for sp in g]
    named = {t for t, c in flat if c is None}
    limits = {}
    for t, c in flat:
        if c is not None:
            limits[t] = max(limits.get(t, 0), c, 0)
    blanket = limits.pop(None, 0)
    if named & set(limits):
        return None  # left unspecified by the property
    total = above
    rest = 0
    for t, c in warn.items():
        if t in limits:
            total += max(0, c - limits[t])
        elif t in named:
            pass
        else:
            rest += c
    total += max(0, rest - blanket)
    return total


cases = []
# corpus: hand-picked hard cases first
corpus = [
    ([(30, 'a')] * 3 + [(40, 'a')], [['a']]),
    ([(30, 'a')] * 3 + [(30, 'b')] * 2, [['5']]),
    ([(30, 'a')] * 3 + [(30, 'b')] * 2, [['a:1', 'a:2'], ['a:-4']]),
    ([(30, 'a')] * 2, [['never-seen:10']]),
    ([(30, 'a'), (30, 'b'), (30, 'a'), (30, 'c')], [['2'], ['b']]),
    ([(35, 'a'), (30, 'a')], [['a'], ['100']]),
    ([], [['3']]),
    ([(30, None), (30, 'general')], [['general:1']]),
]
for recs, ss in corpus:
    cases.append((recs, ss, True))
rng = chk.rng('leftover')
N = 60000 if chk.thorough else 4000
for i in range(N):
    both = rng.random() < 0.15
    cases.append((gen_records(rng), gen_spec_strings(rng, both), not both))

lines, impls, meta = [], [], []
for recs, ss, use_oracle in cases:
    handler = make_counter(recs)
    specs = [[maxwarn(s) for s in g] for g in ss]
    entries = dump(handler)
    impl = ignore_warnings_and_count(handler, specs)
    lines.append(line('leftover', logging.WARNING, entries, [[[t, c] for t, c in g] for g in specs]))
    impls.append(str(impl))
    meta.append((entries, specs, use_oracle, impl, [[own_parse(x) for x in g] for g in ss]))
models = chk.drv.ask(lines) if chk.lean_ok else [None] * len(lines)
for i, (ln, impl, mo, (entries, specs, use_oracle, impl_v, own_specs)) in enumerate(zip(lines, impls, models, meta)):
    errs = []
    want = oracle(entries, own_specs) if use_oracle else None
    if want is not None and want != impl_v:
        errs.append('leftover=%d but the stated accounting gives %d' % (impl_v, want))
    nerr = sum(c for l, t, c in entries if l > logging.WARNING)
    if impl_v < nerr:
        errs.append('errors waived: leftover %d < %d records above warning level' % (impl_v, nerr))
    if impl_v < 0:
        errs.append('negative leftover')
    wtypes = {t for l, t, c in entries if l == logging.WARNING}
    plain = sum(c for l, t, c in entries if l >= logging.WARNING)
    nontriv = len(wtypes) >= 2 and any(specs) and impl_v != plain
    chk.count('n_warning_types=%d' % min(len(wtypes), 5))
    chk.count('n_spec_groups=%d' % min(len(specs), 4))
    chk.count('result_zero' if impl_v == 0 else 'result_positive')
    if want is None and use_oracle is False:
        chk.count('named_and_numeric_stream')
    chk.case('leftover-%d' % i, ln, impl, mo, errs, nontriv)

# ---- maxwarn parser --------------------------------------------------------
rng = chk.rng('maxwarn')
strings = ['3', '-3', '+3', ' 3', '3 ', '1_000', '1__0', '_1', '1_', 'general:15', 'inconsistent-data', 'a:b:c',
           'a:', ':3', ':', '', 'a:3:', 'x:-2', 'x: 2', 'x:+2', '3:4', '3:a', '--3', '+-3', 'a:1_0', '0', '00', '-0']
alpha = 'ab-_:0123456789 +'
for _ in range(20000 if chk.thorough else 3000):
    k = rng.random()
    if k < 0.4:
        strings.append(''.join(rng.choice(alpha) for _ in range(rng.randint(0, 6))))
    elif k < 0.7:
        strings.append('%s:%d' % (rng.choice(TYPES), rng.randint(-20, 20)))
    elif k < 0.85:
        strings.append(str(rng.randint(-50, 50)))
    else:
        strings.append(rng.choice(TYPES) + ''.join(rng.choice(alpha) for _ in range(rng.randint(0, 3))))
plines, pimpl = [], []
for s in strings:
    try:
        t, c = maxwarn(s)
        pimpl.append('ok %s %s' % (enc(t), enc(c)))
    except argparse.ArgumentTypeError:
        pimpl.append('reject')
    plines.append(line('maxwarn', s))
pmodel = chk.drv.ask(plines) if chk.lean_ok else [None] * len(plines)
for i, (s, ln, im, mo) in enumerate(zip(strings, plines, pimpl, pmodel)):
    errs = []
    # oracle: canonical renderings must round-trip, three-part specs must be rejected
    if s.count(':') >= 2 and im != 'reject':
        errs.append('three-part specification %r accepted' % s)
    m = re.fullmatch(r'([a-z-]*):(-?[0-9]+)', s)   # the type may be empty
    if m and im != 'ok %s %s' % (enc(m.group(1)), enc(int(m.group(2)))):
        errs.append('type:count %r parsed as %s' % (s, im))
    if re.fullmatch(r'-?[0-9]+', s) and im != 'ok - %d' % int(s):
        errs.append('number %r parsed as %s' % (s, im))
    chk.count('maxwarn_' + im.split()[0])
    chk.case('maxwarn-%d' % i, ln, im, mo, errs, ':' in s)

# ---- histories on ONE handler: logging interleaved with queries ------------------------------------
# (theorems hrun_eq_fresh, countsBy_fresh, history_leftover_ge_errors: every query of every history is
# answered as a fresh handler holding the records logged so far would answer it)
def run_history(ops):
    """ops: ('log', level, type-or-None) | ('count', level-or-None, type-or-None) | ('leftover', spec strings).
    Returns the real answers and the protocol line."""
    base = logging.getLogger('vermouth.verif_c08h')
    base.handlers[:] = []
    base.propagate = False
    base.setLevel(logging.DEBUG)
    handler = CountingHandler()
    base.addHandler(handler)
    logger = StyleAdapter(get_logger('vermouth.verif_c08h'))
    answers, enc_ops = [], []
    for op in ops:
        if op[0] == 'log':
            _, level, typ = op
            if typ is None:
                logger.log(level, 'message {}', 1)
            else:
                logger.log(level, 'message {}', 1, type=typ)
            answers.append(None)
            enc_ops.append(['log', level, typ if typ is not None else 'general'])
        elif op[0] == 'count':
            _, level, typ = op
            answers.append(handler.number_of_counts_by(level=level, type=typ))
            enc_ops.append(['count', level, typ])
        else:
            specs = [[maxwarn(s) for s in g] for g in op[1]]
            answers.append(ignore_warnings_and_count(handler, specs))
            enc_ops.append(['leftover', logging.WARNING, [[[t, c] for t, c in g] for g in specs]])
    base.handlers[:] = []
    return answers, line('hist', enc_ops)


def gen_history(rng):
    ops = []
    types = rng.sample(TYPES, rng.randint(1, 4)) + [None]
    wl = rng.choice([[30], [30, 30, 40], [20, 30, 40, 50], LEVELS])
    for _ in range(rng.randint(2, 5)):                      # rounds: a batch of records, then queries
        for _ in range(rng.choice([0, 1, 1, 2, 3, 6])):
            ops.append(('log', rng.choice(wl), rng.choice(types)))
        for _ in range(rng.choice([1, 1, 2, 3])):
            if rng.random() < 0.5:
                ops.append(('leftover', gen_spec_strings(rng, False)))
            else:
                ops.append(('count', rng.choice([None, 10, 30, 31, 40, 50]), rng.choice([None] + types[:-1] + ['general'])))
    return ops


hist_corpus = [
    # count, then only records above warning level, then count again (a remembered total would hide the error)
    [('log', 30, 'a'), ('leftover', [['a']]), ('log', 40, 'a'), ('leftover', [['a']]), ('log', 50, 'b'), ('leftover', [['5']])],
    [('count', 30, None), ('log', 40, 'x'), ('count', 30, None), ('count', None, 'x'), ('log', 30, 'x'), ('count', 30, 'x')],
    [('leftover', []), ('log', 30, None), ('leftover', []), ('log', 30, 'general'), ('leftover', [['general:1']])],
]
rng = chk.rng('history')
hists = list(hist_corpus) + [gen_history(rng) for _ in range(6000 if chk.thorough else 700)]
hl, ha = [], []
for ops in hists:
    ans, ln = run_history(ops)
    hl.append(ln)
    ha.append(ans)
hm = chk.drv.ask(hl) if chk.lean_ok else [None] * len(hl)
for i, (ops, ln, ans, mo) in enumerate(zip(hists, hl, ha, hm)):
    errs = []
    recs = []          # the oracle's own record of what was logged so far
    for k, (op, a) in enumerate(zip(ops, ans)):
        if op[0] == 'log':
            recs.append((op[1], op[2] if op[2] is not None else 'general'))
        elif op[0] == 'count':
            want = sum(1 for l, t in recs if (op[1] is None or l >= op[1]) and (op[2] is None or t == op[2]))
            if a != want:
                errs.append('step %d: number_of_counts_by(%r, %r) = %r but %d such records were logged so far' % (k, op[1], op[2], a, want))
        else:
            entries = {}
            for l, t in recs:
                entries[(l, t)] = entries.get((l, t), 0) + 1
            ent = [[l, t, c] for (l, t), c in entries.items()]
            specs = [[own_parse(s) for s in g] for g in op[1]]
            want = oracle(ent, specs)
            if want is not None and a != want:
                errs.append('step %d: leftover=%r but the stated accounting of the %d records logged so far gives %d' % (k, a, len(recs), want))
            nerr = sum(1 for l, t in recs if l > logging.WARNING)
            if a < nerr:
                errs.append('step %d: errors waived: leftover %r < %d records above warning level logged so far' % (k, a, nerr))
    nq = sum(1 for op in ops if op[0] != 'log')
    chk.count('history_queries=%d' % min(nq, 8))
    late_error = any(op[0] == 'log' and op[1] > logging.WARNING and any(o[0] != 'log' for o in ops[:j])
                     for j, op in enumerate(ops))
    chk.count('history_error_after_query' if late_error else 'history_no_late_error')
    chk.case('history-%d' % i, ln, enc([a for a in ans]), mo, errs, nq >= 2 and late_error)
chk.finish()
