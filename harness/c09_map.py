"""C09 - the mapping-definition stream: REAL do_mapping followed by REAL DoAverageBead on generated toy
force fields / molecules, compared with
  * the composed Lean model (driver op `pipe`: C01 model of do_mapping, then C09 model of DoAverageBead),
  * an oracle that computes every particle's position from the MAPPING DEFINITION (Mapping.mapping of the
    block and modification mappings, the matches, the input coordinates and masses) - never from the
    particle's own 'mapping_weights' attribute.

The toy force fields, molecules and modification cases are those of harness/c01.py (`gen_case`,
`build`, `build_mod_case`, the recording matcher and the protocol encoders).  That file is a check
script (importing it would run the C01 check), so its definitions are loaded BY NAME from its source
(`load_c01_defs`): the function bodies that run are the ones in harness/c01.py, unchanged.
"""
import ast
import copy
import itertools
import logging
import os
from fractions import Fraction as F

import numpy as np
import networkx as nx
import vermouth
import vermouth.forcefield
import vermouth.map_parser
from vermouth.molecule import Molecule, Block, Link, Choice, NotDefinedOrNot
from vermouth.map_parser import Mapping
from vermouth.processors.do_mapping import do_mapping
from vermouth.processors.average_beads import DoAverageBead

from common import VERIF, enc, line

C01_NAMES = ['KEEP', 'MUST', 'STASH', 'RECORD', '_OrigMatcher', 'RecMatcher', 'wval', 'unspec', 'build', 'enc_inters',
             'enc_weights', 'enc_raw', 'enc_block_maps', 'enc_mod_maps', 'WEIGHTS', 'gen_ff', 'gen_molecule',
             'pattern_components', 'gen_case', 'FEAT', 'build_mod_case', 'XTYPES', 'XWEIGHTS', 'build_xmod_case']


def load_c01_defs(chk):
    """the named top-level definitions of harness/c01.py, executed in a fresh namespace (in file order)"""
    path = os.path.join(VERIF, 'harness', 'c01.py')
    tree = ast.parse(open(path).read(), path)
    picked = []
    for node in tree.body:
        names = []
        if isinstance(node, (ast.FunctionDef, ast.ClassDef)):
            names = [node.name]
        elif isinstance(node, ast.Assign):
            for t in node.targets:
                names += [e.id for e in (t.elts if isinstance(t, ast.Tuple) else [t]) if isinstance(e, ast.Name)]
        if names and all(n in C01_NAMES for n in names):
            picked.append(node)
    ns = {'Fraction': F, 'nx': nx, 'vermouth': vermouth, 'Molecule': Molecule, 'Block': Block, 'Mapping': Mapping,
          'Link': Link, 'Choice': Choice, 'NotDefinedOrNot': NotDefinedOrNot, 'do_mapping': do_mapping, 'chk': chk, 'copy': copy, 'itertools': itertools,
          'logging': logging, 'enc': enc, 'line': line, 'os': os, '__name__': 'c01_defs'}
    exec(compile(ast.Module(body=picked, type_ignores=[]), path, 'exec'), ns)
    missing = [n for n in C01_NAMES if n not in ns]
    if missing:
        raise RuntimeError('harness/c01.py no longer defines %r' % missing)
    return ns


Q30 = 1 << 30
NONFINITE = ('nan', 'inf', '-inf')
MASSES = [F(1, 4), F(1, 2), F(1), F(1), F(2), F(12), F(14), F(16), F(32)]


def has_pos(pos):
    return pos is not None and pos != 'absent' and not any(c in NONFINITE for c in pos)


def rat(x):
    x = F(x)
    return [x.numerator, x.denominator]


def num(fr, as_int):
    fr = F(fr)
    fl = float(fr)
    assert F(fl) == fr
    return int(fr) if (fr.denominator == 1 and as_int) else fl


def decorate(rng, mol):
    """positions (2^-6 grid, some missing / None / partly non-finite, sometimes the origin) and masses
    (dyadic, sometimes 0, rarely missing) on the atoms of the input molecule; returns the geometry
    [[key, pos, {attr: 'n/d'}], ...] in node order"""
    p_missing = rng.choice([0, 0, 0.1, 0.3])
    p_nonfinite = rng.choice([0, 0, 0.1])
    p_origin = rng.choice([0, 0, 0.15, 1.0]) if rng.random() < 0.3 else 0
    p_nomass = rng.choice([0, 0, 0, 0, 0.05])
    masses = MASSES + ([F(0)] * 3 if rng.random() < 0.3 else [])
    if rng.random() < 0.05:
        masses = [F(0)]
    geom = []
    for k in mol.nodes:
        d = mol.nodes[k]
        if rng.random() < p_missing:
            pos = rng.choice([None, 'absent'])
        elif rng.random() < p_origin:
            pos = ['0', '0', '0']
        else:
            pos = [str(F(rng.randint(-640, 640), 64)) for _ in range(3)]
        if isinstance(pos, list) and rng.random() < p_nonfinite:
            for ax in rng.sample(range(3), rng.choice([1, 1, 2, 3])):
                pos[ax] = rng.choice(NONFINITE)
        if pos is None:
            d['position'] = None
        elif pos != 'absent':
            d['position'] = np.array([float(c) if c in NONFINITE else float(F(c)) for c in pos], dtype=float)
        attrs = {}
        if rng.random() >= p_nomass:
            m = rng.choice(masses)
            attrs['mass'] = str(m)
            d['mass'] = num(m, rng.random() < 0.5)
        geom.append([k, pos, attrs])
    return geom


def quant(v, qexp=30):
    x = F(float(v)) * (F(2) ** qexp)
    return (x + F(1, 2)).__floor__()


def canon_particles(out):
    """-> (canonical string 'ok [ [key res]* ]', {key: raw}) from the particle molecule"""
    toks, raw = [], {}
    for k in out.nodes:
        node = out.nodes[k]
        if 'graph' not in node:
            if 'position' in node:
                toks.append('[ %d xtouched ]' % k)
                raw[k] = 'touched'
            else:
                toks.append('[ %d - ]' % k)
                raw[k] = None
            continue
        pos = np.asarray(node.get('position'), dtype=float)
        if pos.shape != (3,):
            toks.append('[ %d xshape ]' % k)
            raw[k] = 'shape %r' % (pos.shape,)
        elif np.all(np.isnan(pos)):
            toks.append('[ %d [ ] ]' % k)
            raw[k] = 'nan'
        elif np.any(~np.isfinite(pos)):
            toks.append('[ %d xnonfinite ]' % k)
            raw[k] = 'nonfinite'
        else:
            toks.append('[ %d [ %d %d %d ] ]' % ((k,) + tuple(quant(c) for c in pos)))
            raw[k] = tuple(F(float(c)) for c in pos)
    return 'ok ' + ('[ ' + ' '.join(toks) + ' ]' if toks else '[ ]'), raw


def effective_attr(weight, ffvar):
    if weight is None:
        return None if ffvar == 'absent' else ffvar
    if weight is False:
        return None
    return weight


# ----------------------------------------------------------------------------
# the oracle: expected particles from the mapping DEFINITION
# ----------------------------------------------------------------------------
def declared_particles(blocks, rawb, mods, rawm):
    """[{'name', 'entries': {atom: weight}}] - what the mapping definitions declare for the matches found.
    Block matches first: one particle per node of block_to, its atoms and weights read off Mapping.mapping
    through the match; a node nothing maps to gets every atom of the match with weight 0.  Then the
    modification matches: a PTM_atom node is a new particle; any other node is laid over the particle of
    that name one of its atoms already contributes to, and its weights REPLACE the block's for the same
    atom.  Returns None when a modification node has no unique target (not generated)."""
    parts = []
    for i, mt in rawb:
        m = blocks[i]
        tables = {atom: dict(m.mapping[f]) for atom, f in mt}
        mapped = {t for tab in tables.values() for t in tab}
        for t in m.block_to.nodes:
            if t in mapped:
                entries = {atom: F(tab[t]) for atom, tab in tables.items() if t in tab}
            else:
                entries = {atom: F(0) for atom in tables}
            parts.append({'name': m.block_to.nodes[t].get('atomname'), 'entries': entries})
    for i, mt in rawm:
        m = mods[i]
        tables = {atom: dict(m.mapping[f]) for atom, f in mt}
        for b in m.block_to.nodes:
            mine = {atom: F(tab[b]) for atom, tab in tables.items() if b in tab}
            name = m.block_to.nodes[b].get('atomname')
            if m.block_to.nodes[b].get('PTM_atom', False):
                parts.append({'name': name, 'entries': mine})
                continue
            cands = [p for p in parts if p['name'] == name and any(a in p['entries'] for a in mine)]
            if len(cands) != 1:
                return None
            cands[0]['entries'].update(mine)
    return parts


def expected_position(entries, geom_by_key, attr):
    """'untouched' | 'nan' | exact position (Fractions) of the declared, positioned atoms"""
    if not entries:
        return 'untouched', []
    cons = []
    for atom, w in entries.items():
        _, pos, attrs = geom_by_key[atom]
        if not has_pos(pos):
            continue
        if attr is not None:
            w = w * F(attrs[attr])
        cons.append((w, tuple(F(c) for c in pos)))
    total = sum((w for w, _ in cons), F(0))
    if total == 0:
        return 'nan', cons
    return tuple(sum((w * x[ax] for w, x in cons), F(0)) / total for ax in range(3)), cons


def definition_oracle(case, out, raw_pos, status2):
    """errors of the real result against the mapping definition; flags"""
    errs, flags = [], set()
    parts = declared_particles(case['blocks'], case['rawb'], case['mods'], case['rawm'])
    if parts is None:
        flags.add('ambiguous_overlay_skipped')
        return errs, flags
    geom_by_key = {g[0]: g for g in case['geom']}
    attr = effective_attr(case['weight'], case['ffvar'])
    # which outcome the definition predicts
    lacking = attr is not None and any(attr not in geom_by_key[a][2] for p in parts for a in p['entries'])
    no_graph = any(not p['entries'] for p in parts)
    want = 'keyerror' if lacking else ('valueerror' if (no_graph and not case['ignore']) else 'ok')
    if status2 != want:
        errs.append('DoAverageBead: %s, the mapping definition and the input predict %s' % (status2, want))
        return errs, flags
    if want != 'ok':
        return errs, flags
    actual = []
    for k in out.nodes:
        node = out.nodes[k]
        g = node.get('graph')
        actual.append([node.get('atomname'), frozenset(g.nodes) if g is not None else frozenset(), raw_pos[k], k, False])
    if len(actual) != len(parts):
        errs.append('%d particles, the mapping definition declares %d' % (len(actual), len(parts)))
    for p in parts:
        exp, cons = expected_position(p['entries'], geom_by_key, attr)
        key = (p['name'], frozenset(p['entries']))
        cands = [a for a in actual if not a[4] and (a[0], a[1]) == key]
        if not cands:
            errs.append('no particle %r built from exactly the atoms %r the mapping declares for it'
                        % (p['name'], sorted(p['entries'])))
            continue
        ws = {w for w, _ in cons}
        if len(ws) >= 2:
            flags.add('unequal')
        if len(cons) < len(p['entries']):
            flags.add('has_unpositioned')
        if cons and all(w == 0 for w in ws):
            flags.add('all_zero_weights')
        if any(x == (0, 0, 0) for _, x in cons):
            flags.add('constituent_at_origin')
        if len(cons) == 1:
            flags.add('single_positioned_constituent')

        def fits(r):
            if exp == 'untouched':
                return r is None
            if exp == 'nan':
                return r == 'nan'
            if not isinstance(r, tuple):
                return False
            scale = sum((abs(w) * (1 + max(abs(c) for c in x)) for w, x in cons), F(0)) / abs(sum(w for w, _ in cons))
            return all(abs(a - b) <= scale * F(1, 1 << 40) for a, b in zip(r, exp))
        hit = [a for a in cands if fits(a[2])]
        if not hit:
            a = cands[0]
            shown = a[2] if not isinstance(a[2], tuple) else [float(c) for c in a[2]]
            wanted = exp if not isinstance(exp, tuple) else [float(c) for c in exp]
            errs.append('particle %r (%s, atoms %r): position %s, but the weights the mapping DEFINITION declares '
                        '(%s) and the input coordinates give %s'
                        % (a[3], p['name'], sorted(p['entries']), shown,
                           ', '.join('%s:%s' % (k, v) for k, v in sorted(p['entries'].items())), wanted))
            a[4] = True
        else:
            hit[0][4] = True
            if isinstance(exp, tuple) and all(w >= 0 for w, _ in cons):
                r = hit[0][2]
                for ax in range(3):
                    lo = min(x[ax] for w, x in cons if w > 0)
                    hi = max(x[ax] for w, x in cons if w > 0)
                    if not (lo - F(1, 1 << 40) <= r[ax] <= hi + F(1, 1 << 40)):
                        errs.append('particle %r axis %d: %.10f outside the bounding box [%s, %s] of the atoms the '
                                    'mapping declares for it' % (hit[0][3], ax, float(r[ax]), lo, hi))
                        break
    shared = {}
    for p in parts:
        for a in p['entries']:
            shared[a] = shared.get(a, 0) + 1
    if any(v > 1 for v in shared.values()):
        flags.add('shared_atoms')
    return errs, flags


# ----------------------------------------------------------------------------
# one case: real code, protocol line
# ----------------------------------------------------------------------------
def run_case(D, rng, kind):
    """build a toy case, run the real do_mapping + DoAverageBead -> dict"""
    if kind == 'blocks':
        spec, meta = D['gen_case'](rng, 8, D['FEAT'])
        mol, mappings, ffb = D['build'](spec)
    elif kind == 'xmods':
        # cross-link modifications (anchors in two block placements) and modifications that put an atom on ONE
        # of several particles nothing maps to; predicates (Choice / NotDefinedOrNot) in block_from
        mol, mappings, ffb, meta = D['build_xmod_case'](rng)
    else:
        mol, mappings, ffb, meta = D['build_mod_case'](rng)
    geom = decorate(rng, mol)
    weight = rng.choice([None, None, None, None, False, 'mass'])
    ffvar = rng.choice(['absent', 'absent', 'mass', 'mass', None])
    ignore = rng.random() < 0.5
    if ffvar != 'absent':
        ffb.variables['center_weight'] = ffvar
    coll = list(mappings['c01src']['c01tgt'].values())
    blocks = [m for m in coll if m.type == 'block']
    mods = [m for m in coll if m.type == 'modification']
    bid = {id(m.block_from): i for i, m in enumerate(blocks)}
    mid = {id(m.block_from): i for i, m in enumerate(mods)}
    RECORD = D['RECORD']
    RECORD.clear()
    saved = vermouth.map_parser.MappingGraphMatcher
    vermouth.map_parser.MappingGraphMatcher = D['RecMatcher']
    try:
        try:
            out = do_mapping(mol, mappings, ffb, attribute_keep=D['KEEP'], attribute_must=D['MUST'],
                             attribute_stash=D['STASH'])
            status = 'ok'
        except ValueError:
            out, status = None, 'valueerror'
        except KeyError:
            out, status = None, 'keyerror'
        except Exception as err:
            out, status = None, 'exception-' + type(err).__name__.lower()
    finally:
        vermouth.map_parser.MappingGraphMatcher = saved
    rawb = [(bid[i], m) for i, m in RECORD if i in bid]
    rawm = [(mid[i], m) for i, m in RECORD if i in mid]
    case = {'kind': kind, 'geom': geom, 'weight': weight, 'ffvar': ffvar, 'ignore': ignore, 'blocks': blocks,
            'mods': mods, 'rawb': rawb, 'rawm': rawm, 'meta': meta, 'mol': mol}
    status2, raw_pos = None, None
    # no two particles may share ONE weight-table object (what a later mapping assigns to one of them would show
    # up in the other): identity check on the real result
    case['aliased'] = []
    if status == 'ok':
        seen = {}
        for k in out.nodes:
            t = out.nodes[k].get('mapping_weights')
            if t is not None:
                if id(t) in seen:
                    case['aliased'].append((seen[id(t)], k))
                seen.setdefault(id(t), k)
    if status != 'ok':
        impl = 'maperror ' + status
    else:
        try:
            ret = DoAverageBead(ignore_missing_graphs=ignore, weight=weight).run_molecule(out)
            status2 = 'ok' if ret is out else 'returned-other-object'
        except KeyError:
            status2 = 'keyerror'
        except ValueError:
            status2 = 'valueerror'
        except Exception as err:
            status2 = 'exception-' + type(err).__name__.lower()
        if status2 == 'ok':
            impl, raw_pos = canon_particles(out)
        else:
            impl = status2
    maps_enc, rawb_enc = D['enc_block_maps'](blocks, rawb)
    mods_enc, rawm_enc = D['enc_mod_maps'](mods, rawm)
    atoms = []
    for k, pos, attrs in geom:
        p = None if (pos is None or pos == 'absent') else [None if c in NONFINITE else rat(c) for c in pos]
        atoms.append([k, p, [[n, rat(v)] for n, v in attrs.items()]])
    wt = 0 if weight is False else weight
    ln = line('pipe', wt, None if ffvar == 'absent' else ffvar, ignore, 30, atoms, maps_enc, rawb_enc, mods_enc, rawm_enc)
    case.update({'status': status, 'status2': status2, 'out': out, 'impl': impl, 'raw_pos': raw_pos, 'line': ln})
    return case
