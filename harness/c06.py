#!/venv/bin/python
"""C06 - subgraph matching is sound, complete and symmetry-reduced.

Two layers (see harness/manifest_parts/C06.json):

(1) TRANSCRIPTION of the search core of vermouth/ismags.py: lean/VermouthModel/C06_Ismags.lean
    (_find_nodecolor_candidates, _get_lookahead_candidates, _edges_of_same_color, intersect, _map_nodes,
    find_isomorphisms, _remove_node, _largest_common_subgraph, largest_common_subgraph, _make_constraints),
    theorems lean/VermouthProps/C06_Ismags.lean, C06_IsmagsLcs.lean, C06_IsmagsSym.lean.  Tie = output for output:
      tcand   _find_nodecolor_candidates() / _get_lookahead_candidates() of a fresh matcher
      tiso0/1 find_isomorphisms(symmetry=False/True): the model is fed the constraints the real call made (recorded by
              wrapping _make_constraints); outputs compared as SORTED lists with multiplicity (the yield order depends on
              CPython's set iteration order, which the model does not reproduce)
      tlcs0/1 largest_common_subgraph(symmetry=False/True), constraints in the iteration order of the real set object
      tcons   _make_constraints on the cosets the real call used
      tvalid  the constraints of the real call are the stabiliser-chain orbits of the pattern (verified checker
              constraintsValidB = hypothesis of theorem ismags_find_one_per_class); analyze_symmetry itself is NOT transcribed
      tcosets the COSETS dict of the real call (fresh or from the shared cache) against the checker cosetsExactB
              (lean/VermouthModel/C06_Cosets.lean; cosetsExact_spec: every coset[k] is exactly the orbit of k in the
              stabiliser of the smaller nodes, nodes without an entry have a trivial orbit) and the product of the
              coset sizes against |Aut| of the verified reference (theorem cosetsExact_product: orbit-stabiliser);
              when Python's own brute force finds a wrong coset, the pattern is searched in renumbered copies of
              itself until the oracle sees a wrong answer (a failing input, not only a broken correspondence)
    Every call into the real code runs under a CPU-time limit (a call that does not return is a failing input).
(2) Verified REFERENCE lean/VermouthModel/Iso.lean (shared) + C06.lean; theorems lean/VermouthProps/C06.lean: the real
    vermouth.ismags.ISMAGS is compared with the reference enumerator / class checker / MCIS through the driver, and an
    independent Python brute force (different algorithm for the classes: canonical representatives) states the property
    on every real result.

Reference queries (one protocol line each, the real output is part of the `sym`/`lcssym` lines):
  iso    find_isomorphisms(symmetry=False)        == allIsos (as sorted lists)
  sym    find_isomorphisms(symmetry=True)         oneRepPerClass out (allIsos) = true
  lcs    largest_common_subgraph(symmetry=False)  == allMCIS
  lcssym largest_common_subgraph(symmetry=True)   coversUpToAut out (allMCIS) = true
  subiso subgraph_is_isomorphic                   == (allIsos != [])
  isiso  is_isomorphic                            == (same number of nodes and allIsos != [])

Besides single calls on fresh matchers there are HISTORIES (the property is about every call):
several calls in random order on one matcher object, and matchers for several pairs that share
one symmetry `cache` dict (as repair_graph shares it across residues); every answer in a history
is compared with the reference and with the transcription exactly as if it had been computed alone.
"""
import itertools
from common import *
import ast as _ast


def symmetry_code_fingerprint():
    """sha1 of the AST (docstrings removed) of the functions of vermouth/ismags.py that make up the
    automorphism search; F-C06-1 is a defect of exactly this code."""
    names = {'analyze_symmetry', '_refine_node_partitions', '_process_ordered_pair_partitions', '_couple_nodes',
             '_find_permutations', '_update_orbits', '_find_node_edge_color', '_get_permutations_by_length',
             'make_partitions', 'partition_to_color', 'intersect'}
    tree = _ast.parse(open(os.path.join(REPO, 'vermouth', 'ismags.py')).read())
    parts = []
    for node in _ast.walk(tree):
        if isinstance(node, _ast.FunctionDef) and node.name in names:
            body = node.body
            if body and isinstance(body[0], _ast.Expr) and isinstance(getattr(body[0], 'value', None), _ast.Constant) \
                    and isinstance(body[0].value.value, str):
                node.body = body[1:] or [_ast.Pass()]
            parts.append((node.name, _ast.dump(node)))
    return hashlib.sha1(repr(sorted(parts)).encode()).hexdigest()

chk = Check('C06')
_fp = symmetry_code_fingerprint()
_known_fps = [k.get('code_fingerprint') for k in chk.known if k['id'] == 'F-C06-1']
SYMMETRY_CODE_IS_THE_KNOWN_ONE = _fp in _known_fps
chk.extra['symmetry_code_fingerprint'] = _fp
if not SYMMETRY_CODE_IS_THE_KNOWN_ONE:
    chk.notes.append('the automorphism search of vermouth/ismags.py differs from the code in which F-C06-1 was recorded '
                     '(fingerprint %s): cases with the F-C06-1 signature are reported as violations' % _fp)
chk.extra['rule'] = ('graph pairs: exhaustive small graphs (graph atlas, random keys), EXHAUSTIVE LABELLINGS (every distinct '
                     'numbering, n <= 5, or a seeded sample, n = 6..8, of cycles, paths, stars, spiders, K_n, K_m,n, prisms, '
                     'two disjoint copies, on contiguous and non-contiguous keys, in renumbered copies of themselves +- a '
                     'node / an edge, symmetry=True), symmetric patterns of 5-10 '
                     'nodes (paths, cycles, stars, spiders, trees+chord, complete bipartite) inside noisy targets, '
                     'random sparse pairs for the common-subgraph search, corpus; call histories (2-5 calls on one matcher object; 2-4 matchers sharing one symmetry cache with patterns of equal keys/edges/label-class sizes); node keys non-contiguous, 1-3 '
                     'node colours, 1-2 edge colours. A case is non-trivial if the pattern has >= 3 nodes and '
                     '(>= 1 isomorphism / common subgraph of >= 2 nodes was found or |Aut(pattern)| > 1); '
                     'distinct = distinct protocol line. Every call is also replayed on the TRANSCRIPTION (ops tcand/tiso/tlcs/tcons/tvalid/tcosets) with the constraints / cosets the real call made')
chk.trusted.append('harness/c06.py: graph encoding, canonicalisation of mappings, Python brute-force oracle')
chk.lean(['VermouthProps.C06_All'], 'driver_c06')
chk.extra['lean_build_and_audit_s'] = round(chk.elapsed(), 1)

import networkx as nx
from vermouth.ismags import ISMAGS

MAX_AUT = 150
MAX_AUT_LABELLING = 1500       # the exhaustive-labelling stream also takes K6, K7-less shapes like two K4 (|Aut| = 1152)
MAX_FULL = 2500


# ----------------------------------------------------------------------------
# CPU-time limit for every call into the real code
# ----------------------------------------------------------------------------
# A broken symmetry analysis can deliver constraints (a, b) AND (b, a); ISMAGS._remove_node then never returns.
# A call that does not come back is a failing input like any other (the search "returns ... every maximum one"),
# so every call of the real code runs under a limit of CPU time (ITIMER_VIRTUAL: machine load does not count);
# on the unchanged tree the slowest call takes well under a second (chk.extra['max_real_call_cpu_s']).
CALL_LIMIT = 10.0
MAX_TIMEOUTS = 3               # after that many the remaining streams are skipped (the verdict is there)


class CaseTimeout(Exception):
    pass


_ARMED = [False]
_TIMEOUTS = [0]
_MAX_CALL = [0.0]


def _vt(signum, frame):
    if not _ARMED[0]:
        return
    f, depth = frame, 0
    while f is not None and depth < 8:     # never raise inside coverage.py (see common.py)
        if '/coverage/' in f.f_code.co_filename:
            return
        f, depth = f.f_back, depth + 1
    raise CaseTimeout('no answer within %d s of CPU time' % CALL_LIMIT)


signal.signal(signal.SIGVTALRM, _vt)


def guarded(fn):
    """run fn() (a call into the real code) under the CPU-time limit; the timer repeats (an exception raised
    while a finaliser runs is swallowed there)"""
    t0 = time.process_time()
    _ARMED[0] = True
    signal.setitimer(signal.ITIMER_VIRTUAL, CALL_LIMIT, 0.25)
    try:
        return fn()
    except CaseTimeout:
        _TIMEOUTS[0] += 1
        chk.count('real_call_timeout')
        raise
    finally:
        _ARMED[0] = False
        signal.setitimer(signal.ITIMER_VIRTUAL, 0)
        _MAX_CALL[0] = max(_MAX_CALL[0], time.process_time() - t0)


def stopped():
    if _TIMEOUTS[0] >= MAX_TIMEOUTS:
        chk.count('skipped_after_%d_timeouts' % MAX_TIMEOUTS)
        return True
    return False


# ----------------------------------------------------------------------------
# independent Python statement of the property
# ----------------------------------------------------------------------------
def ncol(G, n):
    return G.nodes[n].get('c', 0)


def ecol(G, u, v):
    return G.edges[u, v].get('c', 0) if G.has_edge(u, v) else None


def pattern_order(sg):
    """every node adjacent to an earlier one where possible (good pruning); deterministic"""
    order, seen = [], set()
    for start in sorted(sg.nodes, key=lambda n: (-sg.degree(n), n)):
        if start in seen:
            continue
        queue = [start]
        seen.add(start)
        while queue:
            n = queue.pop(0)
            order.append(n)
            for nb in sorted(sg[n], key=lambda n: (-sg.degree(n), n)):
                if nb not in seen:
                    seen.add(nb)
                    queue.append(nb)
    return order


def is_common(g, sg, m):
    """m: dict pattern node -> target node; induced, colour-respecting, injective?"""
    if len(set(m.values())) != len(m):
        return 'not injective'
    for p, t in m.items():
        if p not in sg or t not in g:
            return 'node %r->%r not in the graphs' % (p, t)
        if ncol(sg, p) != ncol(g, t):
            return 'node colour differs at %r->%r' % (p, t)
    for p, q in itertools.combinations(m, 2):
        if ecol(sg, p, q) != ecol(g, m[p], m[q]):
            return 'edge/non-edge (%r,%r) -> (%r,%r) not preserved' % (p, q, m[p], m[q])
    return None


def brute(g, sg, order, limit=None):
    """all induced isomorphisms of sg[order] into g, as tuples of target nodes along `order`"""
    out = []
    gn = sorted(g.nodes)
    cand = {p: [t for t in gn if ncol(g, t) == ncol(sg, p)] for p in order}

    def rec(i, acc, used):
        if limit is not None and len(out) > limit:
            return
        if i == len(order):
            out.append(tuple(acc))
            return
        p = order[i]
        for t in cand[p]:
            if t in used:
                continue
            ok = True
            for j in range(i):
                if ecol(sg, order[j], p) != ecol(g, acc[j], t):
                    ok = False
                    break
            if ok:
                acc.append(t)
                used.add(t)
                rec(i + 1, acc, used)
                used.discard(t)
                acc.pop()
    rec(0, [], set())
    return out


def canon_rep(order, auts_idx, tup):
    """smallest member of the class of `tup` (tuple along `order`): min over automorphisms a of tup∘a"""
    return min(tuple(tup[i] for i in a) for a in auts_idx)


def brute_mcis(g, sg, order):
    for k in range(len(order), 0, -1):
        res = []
        for S in itertools.combinations(order, k):
            for tup in brute(g, sg, list(S)):
                res.append(tuple(zip(S, tup)))
        if res:
            return k, res
    return 0, [()]


def partial_canon(order, auts_maps, pm):
    """class representative of a partial map (tuple of (p, t)) under m -> m∘a"""
    best = None
    d = dict(pm)
    pos = {p: i for i, p in enumerate(order)}
    for a in auts_maps:  # a: dict u -> a(u)
        mm = tuple(sorted(((u, d[au]) for u, au in a.items() if au in d), key=lambda x: pos[x[0]]))
        if best is None or mm < best:
            best = mm
    return best


# ----------------------------------------------------------------------------
# running the real code
# ----------------------------------------------------------------------------
def nm(a, b):
    return a.get('c', 0) == b.get('c', 0)


def make_ismags(g, sg, explicit):
    ncols = {ncol(g, n) for n in g} | {ncol(sg, n) for n in sg}
    ecols = {d.get('c', 0) for _, _, d in g.edges(data=True)} | {d.get('c', 0) for _, _, d in sg.edges(data=True)}
    node_match = nm if (len(ncols) > 1 or explicit) else None
    edge_match = nm if (len(ecols) > 1 or explicit) else None
    return ISMAGS(g, sg, node_match=node_match, edge_match=edge_match)


def enc_graph(G, order):
    pos = {n: i for i, n in enumerate(order)}
    nodes = [[n, ncol(G, n)] for n in order]
    edges = sorted([min(u, v, key=pos.get), max(u, v, key=pos.get), d.get('c', 0)] for u, v, d in G.edges(data=True))
    return nodes, edges


def coset_product(ism, sg):
    _, cosets = guarded(lambda: ism.analyze_symmetry(sg, ism._sgn_partitions, ism._sge_colors))
    prod = 1
    for v in cosets.values():
        prod *= len(v)
    return prod


lines, pending = [], []


class ConstraintRecorder:
    """records what ISMAGS._make_constraints returns during one call of the real code (the constraints the
    search really uses, also when the cosets come from a shared symmetry cache), in the iteration order of
    that very set object (the order `_remove_node` walks it in)"""

    def __init__(self, ism):
        self.value = None
        self.cosets = None
        ism._make_constraints = self

    def __call__(self, cosets):
        res = ISMAGS._make_constraints(cosets)
        self.cosets = [[k, sorted(v)] for k, v in cosets.items()]
        self.value = res
        return res

    def take(self):
        """[[low, high], ...] in set-iteration order; [] when the call made no constraints (symmetry=False)"""
        v, self.value = self.value, None
        return [list(c) for c in v] if v is not None else []



_N_ORACLE = [0]


def add(cid, ln, impl, errs, nontriv, finding=None):
    if errs and not finding:
        _N_ORACLE[0] += 1
    lines.append(ln)
    pending.append((cid, ln, impl, errs, nontriv, finding))


class Pair:
    """one (graph, pattern) pair with its reference data (computed once, independently of any matcher)"""

    def __init__(self, g, sg, explicit=False, max_aut=MAX_AUT):
        self.g, self.sg, self.explicit = g, sg, explicit
        self.order = pattern_order(sg)
        self.sn, self.se = enc_graph(sg, self.order)
        self.gn, self.ge = enc_graph(g, sorted(g.nodes))
        self.auts = brute(sg, sg, self.order, limit=max_aut)
        self.ok = len(self.auts) <= max_aut
        self._orbits = None
        idx = {p: i for i, p in enumerate(self.order)}
        self.auts_idx = [tuple(idx[x] for x in a) for a in self.auts]
        self.auts_maps = [dict(zip(self.order, a)) for a in self.auts]
        self.naut = len(self.auts)
        self._full = self._mcis = None
        ecols = {d.get('c', 0) for _, _, d in g.edges(data=True)} | {d.get('c', 0) for _, _, d in sg.edges(data=True)}
        self.edge_none = 0 if (len(ecols) > 1 or explicit) else 1   # matcher() passes edge_match=None

    def full(self):
        if self._full is None:
            self._full = brute(self.g, self.sg, self.order, limit=MAX_FULL)
        return self._full if len(self._full) <= MAX_FULL else None

    def mcis(self):
        if self._mcis is None:
            self._mcis = brute_mcis(self.g, self.sg, self.order)
        return self._mcis

    def stab_orbits(self):
        """node -> its orbit under the automorphisms fixing every pattern node with a smaller key (brute force)"""
        if self._orbits is None:
            res, stab = {}, self.auts_maps
            for i in sorted(self.sg.nodes):
                res[i] = {a[i] for a in stab}
                stab = [a for a in stab if a[i] == i]
            self._orbits = res
        return self._orbits

    def matcher(self, cache=None):
        g, sg = self.g, self.sg
        ncols = {ncol(g, n) for n in g} | {ncol(sg, n) for n in sg}
        ecols = {d.get('c', 0) for _, _, d in g.edges(data=True)} | {d.get('c', 0) for _, _, d in sg.edges(data=True)}
        node_match = nm if (len(ncols) > 1 or self.explicit) else None
        edge_match = nm if (len(ecols) > 1 or self.explicit) else None
        if cache is None:
            return ISMAGS(g, sg, node_match=node_match, edge_match=edge_match)
        return ISMAGS(g, sg, node_match=node_match, edge_match=edge_match, cache=cache)

    def describe(self):
        return 'pattern nodes %s edges %s in graph nodes %s edges %s' % (self.sn, self.se, self.gn, self.ge)


WITNESS_TODO, _WITNESS_SEEN, _IN_WITNESS = [], set(), [False]


def check_cosets(cid, P, cosets_used, nontriv):
    """the cosets dict analyze_symmetry delivered for this call (fresh or from the shared cache) against the
    specification cosetsExactB (verified against the reference `auts`: cosetsExact_spec): every coset[k] is EXACTLY
    the orbit of k in the stabiliser of the smaller nodes, nodes without an entry have a trivial orbit, and the
    product of the coset sizes is |Aut| as the reference counts it (theorem cosetsExact_product)"""
    if cosets_used is None:
        return
    prod = 1
    for _, v in cosets_used:
        prod *= len(v)
    chk.count('coset_product_eq_aut=%s' % (prod == P.naut))
    add('%s-tcosets' % cid, line('tcosets', P.sn, P.se, cosets_used), 'exact=1 dict=1 prod=%d aut=%d' % (prod, prod),
        [], nontriv and P.naut > 1)
    truth = P.stab_orbits()
    got = {k: set(v) for k, v in cosets_used}
    if all(got.get(k, {k}) == truth[k] for k in truth) and set(got) <= set(truth):
        return
    # analyze_symmetry is wrong on this pattern (the tcosets case above fails).  Whether THIS call shows a wrong
    # answer depends on the numbering of the target; look for a target that does (a failing input of the property)
    chk.count('cosets_differ_from_stabiliser_orbits')
    key = enc([P.sn, P.se])
    if key not in _WITNESS_SEEN and len(_WITNESS_SEEN) < 6 and not _IN_WITNESS[0]:
        _WITNESS_SEEN.add(key)
        WITNESS_TODO.append((cid, P))


def flush_witness():
    """for every pattern on which the cosets were wrong: the pattern in renumbered copies of itself (and with a
    pendant node), symmetry=True, until the oracle sees a wrong answer"""
    if not WITNESS_TODO or _IN_WITNESS[0]:
        return
    _IN_WITNESS[0] = True
    wrng = chk.rng('witness')
    try:
        while WITNESS_TODO:
            cid, P = WITNESS_TODO.pop()
            before = _N_ORACLE[0]
            for t in range(40):
                if _N_ORACLE[0] > before or stopped():
                    break
                g = P.sg.copy()
                if t % 3 == 2:
                    g.add_edge(max(g.nodes) + 1, wrng.choice(list(g.nodes)))
                    for u, v in g.edges:
                        g.edges[u, v].setdefault('c', 0)
                    for n in g.nodes:
                        g.nodes[n].setdefault('c', 0)
                g = relabel(g, wrng)
                P2 = Pair(g, P.sg, P.explicit, max_aut=max(MAX_AUT, P.naut))
                if not P2.ok or P2.full() is None:
                    break
                chk.count('witness_search_pairs')
                call_iso('%s-witness%d' % (cid, t), P2, P2.matcher(), True)
                if len(P.sg) <= 8:
                    call_lcs('%s-witness%d' % (cid, t), P2, P2.matcher(), True)
            chk.count('witness_found=%s' % (_N_ORACLE[0] > before))
    finally:
        _IN_WITNESS[0] = False


def call_iso(cid, P, ism, symmetry, alias=False, ctx=''):
    """find_isomorphisms / subgraph_isomorphisms_iter (alias=True) / isomorphisms_iter (alias='isomorphisms_iter')
    on the matcher `ism` of the pair `P`.  isomorphisms_iter yields nothing when graph and pattern differ in size and
    is find_isomorphisms(symmetry) otherwise: unequal sizes are judged by the `isiso` reference query (any yield ==
    same size and allIsos != []), equal sizes exactly as find_isomorphisms with that symmetry value."""
    method = 'find_isomorphisms' if not alias else 'subgraph_isomorphisms_iter' if alias is True else alias
    if method == 'isomorphisms_iter' and len(P.g) != len(P.sg):
        chk.count('isomorphisms_iter_unequal_size')
        errs = []
        try:
            raw = guarded(lambda: list(ism.isomorphisms_iter(symmetry=symmetry)))
        except Exception as e:  # noqa
            raw = None
            errs.append('exception %s: %s' % (type(e).__name__, e))
        if raw:
            errs.append('isomorphisms_iter(symmetry=%s) yields %d mappings although |graph|=%d and |pattern|=%d differ'
                        % (symmetry, len(raw), len(P.g), len(P.sg)))
        add('%s-isiso' % cid, line('isiso', P.gn, P.ge, P.sn, P.se), enc(None if raw is None else bool(raw)),
            [ctx + e for e in errs], len(P.sg) >= 3)
        return
    if method == 'isomorphisms_iter':
        chk.count('isomorphisms_iter_equal_size')
        ctx = ctx + 'through isomorphisms_iter: '
    g, sg, order, naut = P.g, P.sg, P.order, P.naut
    full = P.full()
    if full is None:
        chk.count('skipped_full_cap')
        return
    fullset = set(full)
    nontriv = len(sg) >= 3 and (len(full) >= 1 or naut > 1)
    errs = []
    rec = ConstraintRecorder(ism)
    calls = CallRecorder(ism, False)
    try:
        raw = guarded(lambda: list(getattr(ism, method)(symmetry=symmetry)))
    except Exception as e:  # noqa
        raw = []
        errs.append('exception %s: %s' % (type(e).__name__, e))
    cosets_used = rec.cosets
    cons = rec.take()
    choices = calls.take()
    out = []
    for d in raw:
        inv = {s: t for t, s in d.items()}
        if set(inv) != set(order) or len(inv) != len(d):
            errs.append('yielded mapping does not cover the pattern exactly: %r' % (d,))
            continue
        why = is_common(g, sg, inv)
        if why:
            errs.append('yielded mapping is not an induced subgraph isomorphism (%s): %r' % (why, d))
        out.append(tuple(inv[p] for p in order))
    finding = None
    if not symmetry:
        if len(set(out)) != len(out):
            errs.append('symmetry=False yields an isomorphism more than once')
        miss = fullset - set(out)
        if miss:
            errs.append('symmetry=False misses %d of %d isomorphisms, e.g. %r along %r'
                        % (len(miss), len(full), sorted(miss)[0], order))
        extra = set(out) - fullset
        if extra and not errs:
            errs.append('symmetry=False yields %d mappings outside the brute-force answer' % len(extra))
        impl = enc([list(m) for m in sorted(out)])
        add('%s-iso' % cid, line('iso', P.gn, P.ge, P.sn, P.se), impl, [ctx + e for e in errs], nontriv)
    else:
        classes = {}
        for m in full:
            classes.setdefault(canon_rep(order, P.auts_idx, m), 0)
        hits = dict.fromkeys(classes, 0)
        outside = 0
        for m in out:
            r = canon_rep(order, P.auts_idx, m)
            if m in fullset:
                hits[r] += 1
            else:
                outside += 1
        missing = [r for r, c in hits.items() if c == 0]
        multi = [r for r, c in hits.items() if c > 1]
        if outside and not errs:
            errs.append('symmetry=True yields %d mappings outside the full answer' % outside)
        if missing:
            errs.append('symmetry=True loses %d of %d symmetry classes, e.g. the class of %r along %r'
                        % (len(missing), len(classes), missing[0], order))
        if multi:
            errs.append('symmetry=True yields %d members of one symmetry class (|Aut|=%d, %d classes, %d yielded)'
                        % (hits[multi[0]], naut, len(classes), len(out)))
        # signature of the known finding F-C06-1 (DESIGN appendix A)
        if multi and not missing and not outside and len(errs) == 1:
            try:
                prod = coset_product(P.matcher(), sg)
            except Exception:  # noqa
                prod = None
            if prod is not None and prod < naut:
                chk.count('F-C06-1_signature')
                if SYMMETRY_CODE_IS_THE_KNOWN_ONE:
                    finding = 'F-C06-1'
                else:
                    # the automorphism search was edited since the finding was recorded: its
                    # failures are not the listed finding any more, report them
                    chk.count('F-C06-1_signature_but_symmetry_code_changed')
        chk.count('classes=%s' % (0 if not classes else 1 if len(classes) == 1 else '2-5' if len(classes) <= 5 else '>5'))
        impl = 'classes=%d ok' % len(out)
        add('%s-sym' % cid, line('sym', P.gn, P.ge, P.sn, P.se, [list(m) for m in out]), impl,
            [ctx + e for e in errs], nontriv, finding)
        if cosets_used is not None:
            # _make_constraints: transcription on the cosets the real code used
            add('%s-tcons' % cid, line('tcons', cosets_used), enc(sorted(cons)), [], nontriv and bool(cons))
            chk.count('constraints=%s' % (len(cons) if len(cons) <= 2 else '3-6' if len(cons) <= 6 else '>6'))
            if any(lo >= hi for lo, hi in cons):
                chk.count('constraint_not_low_lt_high')
            # hypothesis constraintsValidB of theorem ismags_find_one_per_class: the constraints analyze_symmetry +
            # _make_constraints delivered are exactly the stabiliser-chain orbits of the pattern (verified checker)
            add('%s-tvalid' % cid, line('tvalid', P.sn, P.se, sorted(cons)), '1', [], nontriv and P.naut > 1)
            # hypothesis antisymB of theorem ismags_find_exact on the constraints the real code made
            cset = {tuple(c) for c in cons}
            chk.count('hyp_antisymB=%s' % all((hi, lo) not in cset for lo, hi in cset))
            check_cosets(cid, P, cosets_used, nontriv)
    # the TRANSCRIPTION of find_isomorphisms/_map_nodes (C06_Ismags.lean) with the constraints the real
    # call used must yield the same mappings with the same multiplicities (sorted: the yield order depends
    # on CPython's set iteration order)
    add('%s-tiso%d' % (cid, int(symmetry)), line('tiso', P.edge_none, P.gn, P.ge, P.sn, P.se, cons),
        enc([list(m) for m in sorted(out)]), [], nontriv)
    if choices is not None:
        # ... and, replayed with the next-node choices recorded from the real run, in the same ORDER
        add('%s-qiso%d' % (cid, int(symmetry)), line('qiso', P.edge_none, P.gn, P.ge, P.sn, P.se, cons) + ' ' + choices,
            enc([list(m) for m in out]), [], nontriv)


def call_lcs(cid, P, ism, symmetry, ctx=''):
    """largest_common_subgraph on the matcher `ism` of the pair `P`"""
    g, sg, order, naut = P.g, P.sg, P.order, P.naut
    k, best = P.mcis()
    nontriv = len(sg) >= 3 and (k >= 2 or naut > 1)
    pos = {p: i for i, p in enumerate(order)}
    errs = []
    rec = ConstraintRecorder(ism)
    calls = CallRecorder(ism, True)
    try:
        raw = guarded(lambda: list(ism.largest_common_subgraph(symmetry=symmetry)))
    except Exception as e:  # noqa
        raw = []
        errs.append('exception %s: %s' % (type(e).__name__, e))
    cosets_used = rec.cosets
    cons = rec.take()
    choices = calls.take()
    out = []
    for d in raw:
        inv = {s: t for t, s in d.items()}
        why = is_common(g, sg, inv) if len(inv) == len(d) else 'two graph nodes for one pattern node'
        if why:
            errs.append('yielded mapping is not a common induced subgraph (%s): %r' % (why, d))
        out.append(tuple(sorted(inv.items(), key=lambda x: pos.get(x[0], -1))))
    # TRANSCRIPTION of largest_common_subgraph/_largest_common_subgraph/_remove_node with the constraints of
    # the real call, in the iteration order of the real constraints set: same mappings, same multiplicities
    add('%s-tlcs%d' % (cid, int(symmetry)), line('tlcs', P.gn, P.ge, P.sn, P.se, cons),
        enc([[list(pt) for pt in m] for m in sorted(out, key=lambda m: [x for pt in m for x in pt])]), [], nontriv)
    if symmetry and len(sg) and len(g):
        # hypothesis constraintsValidB of theorem ismags_lcs_sym_cover on the constraints of this call
        add('%s-tvalid' % cid, line('tvalid', P.sn, P.se, sorted(cons)), '1', [], nontriv and naut > 1)
        check_cosets(cid, P, cosets_used, nontriv)
    if choices is not None:
        add('%s-qlcs%d' % (cid, int(symmetry)), line('qlcs', P.gn, P.ge, P.sn, P.se, cons) + ' ' + choices,
            enc([[list(pt) for pt in m] for m in out]), [], nontriv)
    if not out:
        # nothing in common is reported as "no result"; the reference reports the empty map
        chk.count('lcs_no_result')
        out = [()]
    if len(set(out)) != len(out):
        chk.count('lcs_duplicate_results')
    sizes = {len(m) for m in out}
    if sizes != {k}:
        errs.append('largest_common_subgraph(symmetry=%s) yields sizes %s, the maximum is %d' % (symmetry, sorted(sizes), k))
    else:
        reps = {partial_canon(order, P.auts_maps, m) for m in out}
        outset = set(out)
        lost = [m for m in best if m not in outset and partial_canon(order, P.auts_maps, m) not in reps]
        if lost:
            errs.append('largest_common_subgraph(symmetry=%s): %d maximum common subgraphs are neither yielded '
                        'nor symmetry-equivalent to a yielded one, e.g. %r' % (symmetry, len(lost), lost[0]))
    errs = [ctx + e for e in errs]
    if not symmetry:
        # canonical order = sorted by flattened (p, t) pairs, as the driver does
        uniq2 = sorted(set(out), key=lambda m: [x for pt in m for x in pt])
        impl = '%d %s' % (max(sizes), enc([[list(pt) for pt in m] for m in uniq2]))
        add('%s-lcs' % cid, line('lcs', P.gn, P.ge, P.sn, P.se), impl, errs, nontriv)
    else:
        uniq = sorted(set(out), key=lambda m: [x for p, t in m for x in (pos.get(p, -1), t)])
        impl = 'size=%d ok' % max(sizes)
        add('%s-lcssym' % cid, line('lcssym', P.gn, P.ge, P.sn, P.se, [[list(pt) for pt in m] for m in uniq]),
            impl, errs, nontriv)


REC_CAP = 1500


class CallRecorder:
    """records, for every call of the real ISMAGS._map_nodes during one call of the matcher, the search node
    (mapping made so far, nodes left to map) and the pattern node the call was started with: the outcome of the
    code's `min(left_to_map, key=...)`, which depends on CPython's set iteration order.  The driver replays the
    transcription with these choices (each checked to be a possible result of that min) and the yield
    SEQUENCES are compared."""

    def __init__(self, ism, with_left):
        self.rec = []
        self.n = 0
        self.with_left = with_left
        self.orig = ISMAGS._map_nodes.__get__(ism)
        ism._map_nodes = self

    def __call__(self, sgn, candidates, constraints, mapping=None, to_be_mapped=None):
        self.n += 1
        if self.n <= REC_CAP:
            self.rec.append((tuple(mapping.items()) if mapping else (), to_be_mapped, sgn))
        return self.orig(sgn, candidates, constraints, mapping=mapping, to_be_mapped=to_be_mapped)

    def take(self):
        """the records as one protocol token (encoded here: they are the bulk of the protocol), or None when there
        were more than REC_CAP calls.  A record is [mapping, left, sgn]; `left` is omitted when to_be_mapped was
        not wanted (find_isomorphisms: to_be_mapped is always the whole pattern)."""
        if self.n > REC_CAP:
            chk.count('recorded_run_skipped_cap')
            return None
        chk.count('recorded_choices', self.n)
        if not self.rec:
            return '[ ]'
        parts = []
        for m, tbm, sgn in self.rec:
            ms = '[ ' + ' '.join(['[ %d %d ]' % kv for kv in sorted(m)]) + ' ]' if m else '[ ]'
            if not self.with_left:
                parts.append('[ %s %d ]' % (ms, sgn))
            else:
                keys = {k for k, _ in m}
                left = sorted(n for n in tbm if n not in keys)
                ls = '[ ' + ' '.join(map(str, left)) + ' ]' if left else '[ ]'
                parts.append('[ %s %s %d ]' % (ms, ls, sgn))
        return '[ ' + ' '.join(parts) + ' ]'


def call_cand(cid, P):
    """_find_nodecolor_candidates / _get_lookahead_candidates of a fresh matcher against their transcriptions"""
    if not len(P.sg) or not len(P.g):
        return
    ism = P.matcher()
    nc, la = {}, {}
    try:
        nc = guarded(ism._find_nodecolor_candidates)
        la = guarded(ism._get_lookahead_candidates)
        impl = enc([[[sorted(s) for s in nc[u]], [sorted(la[u])] if u in la else [[]]] for u in P.order])
    except Exception as e:  # noqa
        impl = 'exception %s' % type(e).__name__
    chk.count('lookahead_prunes=%s' % any(len(la.get(u, ())) < len(P.g) for u in P.order))
    gnc = {ncol(P.g, n) for n in P.g}
    gec = {dd.get('c', 0) for _, _, dd in P.g.edges(data=True)}
    if any(ncol(P.sg, n) not in gnc for n in P.sg) or any(dd.get('c', 0) not in gec for _, _, dd in P.sg.edges(data=True)):
        chk.count('pattern_colour_absent_from_graph_edgeNone=%d' % P.edge_none)   # the `except KeyError: pass` of the look-ahead
    add('%s-tcand' % cid, line('tcand', P.edge_none, P.gn, P.ge, P.sn, P.se), impl, [], len(P.sg) >= 3)


def call_bool(cid, P, ism, which, symmetry, ctx=''):
    """is_isomorphic / subgraph_is_isomorphic on the matcher `ism` of the pair `P`"""
    full = P.full()
    if full is None:
        chk.count('skipped_full_cap')
        return
    errs = []
    rec = ConstraintRecorder(ism)
    try:
        got = bool(guarded(lambda: getattr(ism, which)(symmetry=symmetry)))
    except Exception as e:  # noqa
        got = None
        errs.append('exception %s: %s' % (type(e).__name__, e))
    cons = rec.take()
    if symmetry:
        check_cosets(cid, P, rec.cosets, len(P.sg) >= 3)
    want = bool(full) and (which == 'subgraph_is_isomorphic' or len(P.g) == len(P.sg))
    if got is not None and got != want:
        errs.append('%s(symmetry=%s) returns %s although %d induced subgraph isomorphisms exist (|graph|=%d, |pattern|=%d)'
                    % (which, symmetry, got, len(full), len(P.g), len(P.sg)))
    op = 'isiso' if which == 'is_isomorphic' else 'subiso'
    add('%s-%s' % (cid, op), line(op, P.gn, P.ge, P.sn, P.se), enc(got), [ctx + e for e in errs],
        len(P.sg) >= 3 and (bool(full) or P.naut > 1))
    # the transcribed wrapper on the transcribed find_isomorphisms, with the constraints of the real call
    add('%s-tbool' % cid, line('tbool', 1 if which == 'is_isomorphic' else 0, P.edge_none, P.gn, P.ge, P.sn, P.se, cons),
        enc(got), [], len(P.sg) >= 3 and (bool(full) or P.naut > 1))


def run_pair(cid, g, sg, do_iso=True, do_lcs=False, explicit=False, alias=False, symmetries=(False, True),
             max_aut=MAX_AUT):
    """all requested queries for one pair of graphs, each on a fresh matcher"""
    if stopped():
        return
    P = Pair(g, sg, explicit, max_aut)
    if not P.ok:
        chk.count('skipped_aut_cap')
        return
    naut = P.naut
    chk.count('aut=%s' % (naut if naut <= 2 else '3-6' if naut <= 6 else '7-24' if naut <= 24 else '>24'))
    chk.count('pattern_nodes=%d' % len(sg))
    call_cand(cid, P)
    if do_iso:
        full = P.full()
        if full is None:
            chk.count('skipped_full_cap')
            return
        chk.count('isos=%s' % (0 if not full else 1 if len(full) == 1 else '2-20' if len(full) <= 20 else '>20'))
        for symmetry in symmetries:
            call_iso(cid, P, P.matcher(), symmetry, alias)
        if _N_PAIR[0] % 3 == 0 if len(g) == len(sg) else _N_PAIR[0] % 16 == 0:
            # the networkx-style entry point for graphs of equal size, both symmetry values
            for symmetry in (False, True):
                call_iso(cid + '-ii%d' % int(symmetry), P, P.matcher(), symmetry, 'isomorphisms_iter')
        _N_PAIR[0] += 1
    if do_lcs:
        k = P.mcis()[0]
        chk.count('lcs_size_vs_pattern=%s' % ('equal' if k == len(sg) else 'minus1' if k == len(sg) - 1 else 'smaller'))
        for symmetry in symmetries:
            call_lcs(cid, P, P.matcher(), symmetry)
    flush_witness()


_N_PAIR = [0]
CALLS = [('find_isomorphisms', False), ('find_isomorphisms', True), ('subgraph_isomorphisms_iter', False),
         ('subgraph_isomorphisms_iter', True), ('largest_common_subgraph', False), ('largest_common_subgraph', True),
         ('is_isomorphic', False), ('is_isomorphic', True), ('subgraph_is_isomorphic', False),
         ('subgraph_is_isomorphic', True), ('isomorphisms_iter', False), ('isomorphisms_iter', True)]


def do_call(cid, P, ism, name, symmetry, ctx):
    chk.count('history_call_' + name)
    if name == 'find_isomorphisms':
        call_iso(cid, P, ism, symmetry, False, ctx)
    elif name == 'subgraph_isomorphisms_iter':
        call_iso(cid, P, ism, symmetry, True, ctx)
    elif name == 'isomorphisms_iter':
        call_iso(cid, P, ism, symmetry, 'isomorphisms_iter', ctx)
    elif name == 'largest_common_subgraph':
        call_lcs(cid, P, ism, symmetry, ctx)
    else:
        call_bool(cid, P, ism, name, symmetry, ctx)


def run_object_history(cid, g, sg, calls, explicit=False):
    """several calls on ONE matcher object; every answer must be right as if computed alone"""
    if stopped():
        return
    P = Pair(g, sg, explicit)
    if not P.ok or P.full() is None:
        chk.count('skipped_aut_cap')
        return
    ism = P.matcher()
    done = []
    for j, (name, symmetry) in enumerate(calls):
        ctx = ''
        if done:
            ctx = 'call %d on ONE matcher object, after %s: ' % (j + 1, ', '.join('%s(symmetry=%s)' % c for c in done))
        do_call('%s-c%d' % (cid, j), P, ism, name, symmetry, ctx)
        done.append((name, symmetry))
    chk.count('object_history_len=%d' % len(calls))
    flush_witness()


def run_cache_history(cid, pairs, rng):
    """matchers for several (graph, pattern) pairs SHARING one symmetry cache (as repair_graph does across
    residues); every answer must be right as if computed alone"""
    cache = {}
    earlier = []
    if stopped():
        return
    for j, (g, sg, explicit) in enumerate(pairs):
        P = Pair(g, sg, explicit)
        if not P.ok or P.full() is None:
            chk.count('skipped_aut_cap')
            continue
        ctx = ''
        if earlier:
            ctx = 'matcher %d sharing one symmetry cache with earlier matchers for [%s]: ' % (j + 1, ' | '.join(earlier))
        for name in rng.choice([['find_isomorphisms'], ['find_isomorphisms', 'largest_common_subgraph'],
                                ['largest_common_subgraph', 'find_isomorphisms'], ['subgraph_isomorphisms_iter']]):
            do_call('%s-m%d' % (cid, j), P, P.matcher(cache), name, True, ctx)
        earlier.append(P.describe())
    chk.count('cache_history_len=%d' % len(pairs))
    chk.count('cache_entries=%d' % min(len(cache), 4))
    flush_witness()


# ----------------------------------------------------------------------------
# generators
# ----------------------------------------------------------------------------
def relabel(G, rng, hi=60):
    keys = rng.sample(range(-5, hi), len(G))
    return nx.relabel_nodes(G, dict(zip(list(G.nodes), keys)))


def colour_nodes(G, rng, ncolours):
    for n in G.nodes:
        G.nodes[n]['c'] = rng.randrange(ncolours)


def colour_edges(G, rng, ncolours):
    for u, v in G.edges:
        G.edges[u, v]['c'] = rng.randrange(ncolours)


def spider(legs, length):
    G = nx.Graph()
    G.add_node(0)
    k = 1
    for _ in range(legs):
        prev = 0
        for _ in range(length):
            G.add_edge(prev, k)
            prev = k
            k += 1
    return G


def sym_pattern(rng):
    kind = rng.choice(['path', 'cycle', 'star', 'spider', 'spider', 'tree', 'treechord', 'bipartite', 'dumbbell',
                       'twospiders', 'caterpillar'])
    if kind == 'path':
        G = nx.path_graph(rng.randint(5, 10))
    elif kind == 'cycle':
        G = nx.cycle_graph(rng.randint(5, 10))
    elif kind == 'star':
        G = nx.star_graph(rng.randint(3, 5))
        # lengthen one leaf to reach >= 5 nodes
        if len(G) < 5:
            G.add_edge(1, 10)
    elif kind == 'spider':
        legs, length = rng.choice([(3, 1), (3, 2), (3, 3), (4, 2), (2, 3), (2, 4), (4, 1), (3, 2), (3, 3)])
        G = spider(legs, length)
        if rng.random() < 0.3:
            G.add_edge(0, 99)  # an odd leg
    elif kind == 'tree':
        G = nx.random_labeled_tree(rng.randint(5, 10), seed=rng.randrange(10 ** 9))
    elif kind == 'treechord':
        G = nx.random_labeled_tree(rng.randint(5, 10), seed=rng.randrange(10 ** 9))
        u, v = rng.sample(list(G.nodes), 2)
        G.add_edge(u, v)
    elif kind == 'bipartite':
        a, b = rng.choice([(2, 3), (2, 4), (3, 3), (2, 2), (1, 4)])
        G = nx.complete_bipartite_graph(a, b)
        if len(G) < 5:
            G.add_edge(0, 50)
    elif kind == 'dumbbell':
        # two equal cycles/stars joined by a path: symmetric under the swap
        k = rng.randint(3, 4)
        G = nx.disjoint_union(nx.cycle_graph(k), nx.cycle_graph(k))
        G.add_edge(0, k)
        if rng.random() < 0.5:
            G = nx.Graph(G)
            G.remove_edge(0, k)
            G.add_edge(0, 2 * k)
            G.add_edge(2 * k, k)
    elif kind == 'twospiders':
        # the tree from the comment at ismags.py:873 and relatives
        G = nx.Graph([(5, 4), (4, 0), (0, 3), (3, 12), (12, 13), (9, 8), (8, 0), (3, 16), (16, 17)])
        if rng.random() < 0.5:
            G.remove_nodes_from([13, 17])
    else:
        n = rng.randint(3, 5)
        G = nx.path_graph(n)
        k = n
        for i in range(n):
            for _ in range(rng.choice([0, 1, 2])):
                if len(G) < 10:
                    G.add_edge(i, k)
                    k += 1
    chk.count('kind_' + kind)
    return nx.Graph(G)


def noisy_target(sg, rng):
    g = sg.copy()
    base = max(g.nodes) + 1
    extra = rng.choice([0, 0, 1, 1, 2, 3, 4])
    for i in range(extra):
        g.add_node(base + i)
        for _ in range(rng.choice([1, 1, 2])):
            g.add_edge(base + i, rng.choice([n for n in g.nodes if n != base + i]))
    k = rng.random()
    if k < 0.15 and g.number_of_edges():
        g.remove_edge(*rng.choice(list(g.edges)))   # often no match at all
    elif k < 0.3:
        u, v = rng.sample(list(g.nodes), 2)
        g.add_edge(u, v)
    return g


def corpus_cases():
    d = json.load(open(os.path.join(VERIF, 'corpus', 'c06_sym_duplicate_class.json')))
    yield 'corpus-dupclass', nx.Graph(d['graph_edges']), nx.Graph(d['subgraph_edges'])
    # the spider with three equal legs of length 3 in itself and in a slightly larger tree
    sp = spider(3, 3)
    yield 'corpus-spider33-self', sp.copy(), sp.copy()
    g = sp.copy()
    g.add_edge(3, 20)
    g.add_edge(20, 21)
    yield 'corpus-spider33-plus', g, sp.copy()
    # the tree of the code comment at ismags.py:873
    t = nx.Graph([(5, 4), (4, 0), (0, 3), (3, 12), (12, 13), (9, 8), (8, 0), (3, 16), (16, 17)])
    yield 'corpus-comment-tree', t.copy(), t.copy()
    g = t.copy()
    g.add_edge(17, 30)
    g.add_edge(13, 31)
    yield 'corpus-comment-tree-plus', g, t.copy()
    for extra in sorted(os.listdir(os.path.join(VERIF, 'corpus'))):
        if extra.startswith('c06_') and extra != 'c06_sym_duplicate_class.json' and extra.endswith('.json'):
            d = json.load(open(os.path.join(VERIF, 'corpus', extra)))
            g, sg = nx.Graph(), nx.Graph()
            for G, key in ((g, 'graph'), (sg, 'subgraph')):
                for n, c in d[key + '_nodes']:
                    G.add_node(n, c=c)
                for u, v, c in d[key + '_edges']:
                    G.add_edge(u, v, c=c)
            yield 'corpus-' + extra[4:-5], g, sg


# ---- corpus ------------------------------------------------------------------
for cid, g, sg in corpus_cases():
    run_pair(cid, g, sg, do_iso=True, do_lcs=(len(sg) <= 6))

# ---- exhaustive small graphs ---------------------------------------------------
rng = chk.rng('atlas')
atlas = nx.graph_atlas_g()
small = [G for G in atlas if len(G) <= 5]
pats = [G for G in small if len(G) <= 4]
n_ex = 0
for pi, P in enumerate(pats):
    for ti, T in enumerate(small):
        variants = [(1, 1)]
        if chk.thorough:
            variants += [(2, 1), (2, 2), (1, 2)]
        elif (pi + ti) % 5 == 0:
            variants += [(2, 1)]
        elif (pi + ti) % 7 == 0:
            variants += [(2, 2)]
        for nc, ec in variants:
            reps = 2 if (chk.thorough and nc * ec > 1) else 1
            for r in range(reps):
                sg = relabel(nx.Graph(P), rng, 30)
                g = relabel(nx.Graph(T), rng, 30)
                if nc > 1:
                    colour_nodes(sg, rng, nc)
                    colour_nodes(g, rng, nc)
                if ec > 1:
                    colour_edges(sg, rng, ec)
                    colour_edges(g, rng, ec)
                run_pair('atlas-%d-%d-%d%d%d' % (pi, ti, nc, ec, r), g, sg, do_iso=True, do_lcs=True,
                         explicit=(n_ex % 3 == 0), alias=(n_ex % 4 == 1))
                n_ex += 1
chk.count('atlas_pairs', n_ex)
if chk.thorough:
    # every LABELLED pattern on <= 4 nodes (all relative numberings of every shape: ISMAGS orders nodes by key)
    n_lab = 0
    for n in range(1, 5):
        pairs = list(itertools.combinations(range(n), 2))
        for mask in range(1 << len(pairs)):
            P = nx.Graph()
            P.add_nodes_from(range(n))
            P.add_edges_from(pr for b, pr in enumerate(pairs) if mask >> b & 1)
            for ti, T in enumerate(small):
                if len(T) < 2:
                    continue
                g = relabel(nx.Graph(T), rng, 30)
                run_pair('lab-%d-%d-%d' % (n, mask, ti), g, P.copy(), do_iso=True, do_lcs=True, explicit=(n_lab % 3 == 0))
                n_lab += 1
    chk.count('labelled_pattern_pairs', n_lab)

# ---- EXHAUSTIVE LABELLING: every small symmetric shape under all / many node numberings ------------------
# The symmetry analysis walks the pattern in KEY order (cosets = orbits in the stabiliser of the smaller keys), so
# what it does depends on how the shape is NUMBERED, not only on the shape: a five-ring numbered 0-3-2-1-4 merges
# orbits after a coset was stored, a ring numbered along the ring never does.  Every distinct labelled version
# (n <= 5), or a seeded sample of them (n = 6..8), of every symmetric shape below is searched with symmetry=True in
# a renumbered copy of itself (plain, plus a pendant node, plus / minus an edge).
def labelling_shapes():
    S = []
    for n in range(3, 8):
        S.append(('cycle%d' % n, nx.cycle_graph(n)))
    for n in range(2, 8):
        S.append(('path%d' % n, nx.path_graph(n)))
    for n in range(3, 7):
        S.append(('star%d' % n, nx.star_graph(n)))
    S.append(('spider222', spider(3, 2)))
    for name, legs in (('spider112', (1, 1, 2)), ('spider122', (1, 2, 2)), ('spider1112', (1, 1, 1, 2)), ('spider113', (1, 1, 3))):
        G = nx.Graph()
        k = 1
        for length in legs:
            prev = 0
            for _ in range(length):
                G.add_edge(prev, k)
                prev = k
                k += 1
        S.append((name, G))
    for n in range(3, 7):
        S.append(('K%d' % n, nx.complete_graph(n)))
    for a, b in ((2, 3), (3, 3), (2, 4), (3, 4), (2, 5)):
        S.append(('K%d_%d' % (a, b), nx.complete_bipartite_graph(a, b)))
    S.append(('prism3', nx.circular_ladder_graph(3)))
    S.append(('prism4', nx.circular_ladder_graph(4)))
    for name, G in (('path2', nx.path_graph(2)), ('path3', nx.path_graph(3)), ('cycle3', nx.cycle_graph(3)),
                    ('cycle4', nx.cycle_graph(4)), ('star3', nx.star_graph(3)), ('K4', nx.complete_graph(4)),
                    ('path4', nx.path_graph(4))):
        S.append(('2x' + name, nx.disjoint_union(G, G)))
    S.append(('3xpath2', nx.disjoint_union(nx.disjoint_union(nx.path_graph(2), nx.path_graph(2)), nx.path_graph(2))))
    S.append(('2xpath2+node', nx.disjoint_union(nx.disjoint_union(nx.path_graph(2), nx.path_graph(2)), nx.path_graph(1))))
    if chk.thorough:
        # every graph on exactly 5 nodes (none of them is asymmetric)
        for G in atlas:
            if len(G) == 5:
                S.append(('atlas%s' % G.name, nx.Graph(G)))
    return [(name, nx.Graph(G)) for name, G in S]


def numberings(G, rng, cap):
    """distinct LABELLED versions of G on the keys 0..n-1: all of them (n <= 5, or when there are few), else a seeded
    sample of `cap`"""
    n = len(G)
    nodes = list(G.nodes)
    seen, out = set(), []

    def take(perm):
        H = nx.Graph()
        H.add_nodes_from(range(n))
        H.add_edges_from((perm[nodes.index(u)], perm[nodes.index(v)]) for u, v in G.edges)
        key = frozenset(frozenset(e) for e in H.edges)
        if key in seen:
            return
        seen.add(key)
        out.append(H)

    if n <= 5:
        for perm in itertools.permutations(range(n)):
            take(perm)
        return out
    if cap > 2:
        take(tuple(range(n)))                   # numbered as constructed
    tries = 0
    while len(out) < cap and tries < 30 * cap:
        take(tuple(rng.sample(range(n), n)))
        tries += 1
    return out


rng = chk.rng('labelling')
_t_lab = time.time()
_n_lines_lab = len(lines)
n_lab_pat = n_lab_pairs = 0
for name, shape in labelling_shapes():
    n = len(shape)
    big = n >= 6
    cap = (48 if chk.thorough else 8) if big else 10 ** 6
    if big and not chk.thorough and n == 8:
        cap = 6
    shape_aut = len(brute(shape, shape, pattern_order(shape), limit=MAX_AUT))
    if shape_aut > MAX_AUT:
        # K6, star6, two K4, K2_5: the class oracle is quadratic in |Aut| (seconds per pair) - thorough tier only
        chk.count('labelling_shape_aut_gt_%d' % MAX_AUT)
        if not chk.thorough:
            continue
        cap = 1 if n == 8 else 2                         # two K4: half a minute per pair
    elif shape_aut > 100:
        cap = min(cap, 40 if chk.thorough else 3)        # K3_4, star5, K5, two 4-rings
    labelled = numberings(shape, rng, cap)
    chk.count('labelling_shape_n=%d' % n)
    _t_shape = time.time()
    for li, sg0 in enumerate(labelled):
        # keys: 0..n-1, or the same relative order on non-contiguous keys
        if n_lab_pat % 2:
            ks = sorted(rng.sample(range(-5, 60), n))
            sg0 = nx.relabel_nodes(sg0, dict(zip(range(n), ks)))
            chk.count('labelling_keys_noncontiguous')
        n_lab_pat += 1
        variants = ['copy', 'pendant', 'edge'] if (chk.thorough or not big) else [('copy', 'pendant', 'edge')[li % 3]]
        if shape_aut > 100 and big:
            variants = ['copy', 'pendant'] if chk.thorough else variants[:1]
        if not chk.thorough and not big and n == 5 and len(labelled) > 20:
            variants = [('copy', 'pendant', 'edge')[li % 3]]      # path5, spider112: 60 numberings each
        for var in variants:
            g = sg0.copy()
            if var == 'pendant':
                g.add_edge(max(g.nodes) + 1, rng.choice(list(sg0.nodes)))
            elif var == 'edge':
                non = [(u, v) for u, v in itertools.combinations(sorted(g.nodes), 2) if not g.has_edge(u, v)]
                if non and rng.random() < 0.5:
                    g.add_edge(*rng.choice(non))                     # the pattern no longer fits: smaller common subgraph
                elif g.number_of_edges():
                    g.remove_edge(*rng.choice(sorted(g.edges)))
            g = relabel(g, rng)
            both = chk.thorough and n_lab_pairs % 4 == 0
            run_pair('label-%s-%d-%s' % (name, li, var), g, sg0.copy(), do_iso=True, do_lcs=True,
                     explicit=(n_lab_pairs % 5 == 0), symmetries=((False, True) if both else (True,)),
                     max_aut=MAX_AUT_LABELLING)
            n_lab_pairs += 1
            chk.count('labelling_target_' + var)
    chk.extra.setdefault('labelling_shape_s', {})[name] = [len(labelled), round(time.time() - _t_shape, 2)]
chk.count('labelling_patterns', n_lab_pat)
chk.count('labelling_pairs', n_lab_pairs)
chk.extra['labelling_stream_s'] = round(time.time() - _t_lab, 1)
chk.extra['labelling_stream_MB'] = round(sum(len(l) for l in lines[_n_lines_lab:]) / 1e6, 1)

# ---- symmetric patterns of 5-10 nodes in noisy targets -----------------------------
rng = chk.rng('sym')
N = 6000 if chk.thorough else 700
for i in range(N):
    sg = sym_pattern(rng)
    g = noisy_target(sg, rng)
    k = rng.random()
    if k < 0.2:
        colour_nodes(sg, rng, 1)
        # colour symmetric positions alike: by degree
        for n in sg.nodes:
            sg.nodes[n]['c'] = min(sg.degree(n), 2) if rng.random() < 0.9 else 0
        for n in g.nodes:
            g.nodes[n]['c'] = sg.nodes[n]['c'] if n in sg else rng.randrange(3)
    elif k < 0.3:
        for u, v in sg.edges:
            sg.edges[u, v]['c'] = 1 if (sg.degree(u) == 1 or sg.degree(v) == 1) else 0
        for u, v in g.edges:
            g.edges[u, v]['c'] = sg.edges[u, v]['c'] if sg.has_edge(u, v) else rng.randrange(2)
    g = relabel(g, rng)
    sg = relabel(sg, rng)
    run_pair('sym-%d' % i, g, sg, do_iso=True, do_lcs=False, explicit=(i % 5 == 0), alias=(i % 7 == 0))

# ---- disconnected / edge-coloured / node-coloured symmetric patterns, targets with several disjoint copies --------
def coloured_component(rng):
    """a small symmetric component with a symmetric colouring of its edges and/or nodes; returns (graph, |Aut| bound)"""
    kind = rng.choice(['cycle', 'cycle', 'cycle', 'path', 'star', 'edge', 'node', 'tripod'])
    G = nx.Graph()
    if kind == 'cycle':
        n = rng.choice([3, 4, 4, 4, 5, 6, 6])
        G = nx.cycle_graph(n)
        mode = rng.choice(['plain', 'alternating', 'alternating', 'block', 'one', 'nodes-alternating', 'nodes-one'])
        for i in range(n):
            u, v = i, (i + 1) % n
            if mode == 'alternating':
                G.edges[u, v]['c'] = i % 2
            elif mode == 'block':
                G.edges[u, v]['c'] = 0 if i < n // 2 else 1
            elif mode == 'one':
                G.edges[u, v]['c'] = 1 if i == 0 else 0
        if mode == 'nodes-alternating':
            for i in range(n):
                G.nodes[i]['c'] = i % 2
        elif mode == 'nodes-one':
            G.nodes[0]['c'] = 1
        kind += '-' + mode
    elif kind == 'path':
        n = rng.choice([2, 3, 3, 4])
        G = nx.path_graph(n)
        if rng.random() < 0.4:
            for i in range(n - 1):
                G.edges[i, i + 1]['c'] = 1 if i in (0, n - 2) else 0     # symmetric: the end bonds differ
        if rng.random() < 0.3:
            G.nodes[0]['c'] = G.nodes[n - 1]['c'] = 1
    elif kind == 'star':
        G = nx.star_graph(3)
        if rng.random() < 0.5:
            G.edges[0, 1]['c'] = 1
    elif kind == 'tripod':
        G = spider(3, 1)
        for leaf in (1, 2, 3):
            G.nodes[leaf]['c'] = 1
    elif kind == 'edge':
        G.add_edge(0, 1)
    else:
        G.add_node(0)
    chk.count('multi_component_' + kind)
    return G


def multi_pattern(rng):
    """2-3 disjoint copies of one coloured component, sometimes plus a different component; node keys interleaved"""
    comp = coloured_component(rng)
    while len(comp) > 5:                                    # keep the whole pattern within 10 nodes
        comp = coloured_component(rng)
    copies = 3 if (len(comp) <= 3 and rng.random() < 0.3) else 2
    parts = [comp.copy() for _ in range(copies)]
    if rng.random() < 0.35:
        other = coloured_component(rng)
        if len(other) + len(comp) * copies <= 10:
            parts.append(other)
            chk.count('multi_with_other_component')
    P = nx.Graph()
    k = 0
    for part in parts:
        m = {n: k + i for i, n in enumerate(part.nodes)}
        P = nx.union(P, nx.relabel_nodes(part, m))
        k += len(part)
    return P, parts


def multi_target(P, parts, rng):
    g = P.copy()
    base = max(g.nodes) + 1
    r = rng.random()
    if r < 0.3:
        chk.count('multi_target_self')
    elif r < 0.55:
        g.add_edge(rng.choice(list(P.nodes)), base, c=rng.choice([0, 2]))       # a pendant atom
        chk.count('multi_target_pendant')
    elif r < 0.8:
        extra = rng.choice(parts)                                                # one more disjoint copy
        g = nx.union(g, nx.relabel_nodes(extra, {n: base + i for i, n in enumerate(extra.nodes)}))
        chk.count('multi_target_extra_copy')
    elif r < 0.9:
        u, v = rng.sample(list(g.nodes), 2)                                      # join two components
        if not g.has_edge(u, v):
            g.add_edge(u, v, c=rng.randrange(2))
        chk.count('multi_target_joined')
    else:
        if g.number_of_edges():
            g.remove_edge(*rng.choice(list(g.edges)))                            # damaged: often no match
        chk.count('multi_target_damaged')
    return g


rng = chk.rng('multi')
N = 2000 if chk.thorough else 140
_t_multi = time.time()
_n_lines_multi = len(lines)
for i in range(N):
    sg, parts = multi_pattern(rng)
    g = multi_target(sg, parts, rng)
    if rng.random() < 0.5:
        g = relabel(g, rng)
        sg = relabel(sg, rng)
    else:
        # plain / interleaved numbering as a chemist would write it (the keys decide the order of the symmetry analysis)
        sg = nx.relabel_nodes(sg, dict(zip(list(sg.nodes), rng.sample(range(len(sg)), len(sg)))))
    run_pair('multi-%d' % i, g, sg, do_iso=True, do_lcs=(len(sg) <= 6 and i % 3 == 0), explicit=(i % 4 != 3), alias=(i % 7 == 0))
chk.extra['multi_stream_s'] = round(time.time() - _t_multi, 1)
chk.extra['multi_stream_MB'] = round(sum(len(l) for l in lines[_n_lines_multi:]) / 1e6, 1)

# ---- common-subgraph search on pairs that are not contained in each other -------------
rng = chk.rng('lcs')
N = 2500 if chk.thorough else 500
for i in range(N):
    ns = rng.randint(3, 7)
    kind = rng.random()
    if kind < 0.35:
        sg = nx.gnp_random_graph(ns, rng.choice([0.3, 0.5, 0.7]), seed=rng.randrange(10 ** 9))
    elif kind < 0.6:
        sg = nx.random_labeled_tree(ns, seed=rng.randrange(10 ** 9))
    elif kind < 0.8:
        sg = rng.choice([nx.path_graph, nx.cycle_graph, lambda n: nx.star_graph(n - 1)])(ns)
    else:
        sg = spider(rng.choice([2, 3]), rng.choice([1, 2]))
    sg = nx.Graph(sg)
    ng = rng.randint(2, 8)
    if rng.random() < 0.6:
        g = sg.copy()
        for _ in range(rng.randint(1, 2)):   # damage the copy so the pattern no longer fits
            r = rng.random()
            if r < 0.4 and len(g) > 2:
                g.remove_node(rng.choice(list(g.nodes)))
            elif r < 0.7 and g.number_of_edges():
                g.remove_edge(*rng.choice(list(g.edges)))
            else:
                u, v = rng.sample(list(g.nodes), 2)
                g.add_edge(u, v)
        for j in range(rng.randint(0, 2)):
            g.add_edge(100 + j, rng.choice(list(g.nodes)))
    else:
        g = nx.gnp_random_graph(ng, rng.choice([0.3, 0.5]), seed=rng.randrange(10 ** 9))
    if rng.random() < 0.25:
        colour_nodes(sg, rng, 2)
        colour_nodes(g, rng, 2)
    if rng.random() < 0.15:
        colour_edges(sg, rng, 2)
        colour_edges(g, rng, 2)
    g = relabel(g, rng)
    sg = relabel(sg, rng)
    run_pair('lcs-%d' % i, g, sg, do_iso=False, do_lcs=True, explicit=(i % 4 == 0))

# ---- histories: the property is about EVERY call, whatever was called before ---------------------
def small_shape(rng):
    kind = rng.choice(['path', 'path', 'cycle', 'star', 'spider', 'tree', 'treechord'])
    if kind == 'path':
        G = nx.path_graph(rng.randint(3, 7))
    elif kind == 'cycle':
        G = nx.cycle_graph(rng.randint(4, 7))
    elif kind == 'star':
        G = nx.star_graph(rng.randint(3, 4))
    elif kind == 'spider':
        G = spider(*rng.choice([(3, 1), (3, 2), (2, 2), (2, 3), (4, 1)]))
    else:
        G = nx.random_labeled_tree(rng.randint(4, 7), seed=rng.randrange(10 ** 9))
        if kind == 'treechord':
            G.add_edge(*rng.sample(list(G.nodes), 2))
    chk.count('history_shape_' + kind)
    return nx.Graph(G)


def target_for(sg, rng):
    """a target containing the (coloured) pattern most of the time; keys of the TARGET are renumbered"""
    g = noisy_target(sg, rng)
    for n in g.nodes:
        if 'c' not in g.nodes[n]:
            g.nodes[n]['c'] = rng.randrange(2)
    for u, v in g.edges:
        if 'c' not in g.edges[u, v]:
            g.edges[u, v]['c'] = 0
    return relabel(g, rng)


def corpus_histories():
    """path 0-1-2-3 labelled ABBA then AABB and the reverse (same keys, edges and label-class sizes)"""
    def lp(cols):
        G = nx.path_graph(len(cols))
        for n, c in enumerate(cols):
            G.nodes[n]['c'] = c
        return G
    for name, seq in (('abba-aabb', ([0, 1, 1, 0], [0, 0, 1, 1])), ('aabb-abba', ([0, 0, 1, 1], [0, 1, 1, 0])),
                      ('abab-abba-baab', ([0, 1, 0, 1], [0, 1, 1, 0], [1, 0, 0, 1]))):
        yield 'corpus-cache-' + name, [(lp(c), lp(c), True) for c in seq]


class _FixedChoice:
    def __init__(self, value):
        self.value = value

    def choice(self, _):
        return self.value


for cid, pairs in corpus_histories():
    run_cache_history(cid, pairs, _FixedChoice(['find_isomorphisms']))
    run_cache_history(cid + '-lcs', pairs, _FixedChoice(['largest_common_subgraph', 'find_isomorphisms']))
sp = spider(3, 2)
run_object_history('corpus-object-iso-then-lcs', nx.path_graph(4), nx.star_graph(3),
                   [('find_isomorphisms', True), ('largest_common_subgraph', True), ('largest_common_subgraph', False)])
run_object_history('corpus-object-lcs-then-iso', sp.copy(), sp.copy(),
                   [('largest_common_subgraph', True), ('find_isomorphisms', False), ('find_isomorphisms', True),
                    ('is_isomorphic', False)])
# every public entry point with both symmetry values on one matcher: a six-ring onto a renumbered six-ring
# (|Aut| = 12: equal size), and the same ring in a larger graph (isomorphisms_iter yields nothing)
_ring = nx.relabel_nodes(nx.cycle_graph(6), {0: 7, 1: 3, 2: 11, 3: 5, 4: 2, 5: 9})
_ring_plus = _ring.copy()
_ring_plus.add_edge(7, 20)
for _nm, _tg in (('corpus-object-entry-points-ring', _ring), ('corpus-object-entry-points-ring-plus', _ring_plus)):
    run_object_history(_nm, _tg, nx.cycle_graph(6), [CALLS[k] for k in (11, 10, 3, 2, 1, 0, 7, 6, 9, 8, 5, 4)])

rng = chk.rng('cache-history')
N = 3000 if chk.thorough else 350
for i in range(N):
    base = small_shape(rng)
    nodes = list(base.nodes)
    ncl = rng.choice([2, 2, 3])
    cols = [rng.randrange(ncl) for _ in nodes]
    ecols = [rng.randrange(2) if rng.random() < 0.2 else 0 for _ in base.edges]
    pairs = []
    for j in range(rng.randint(2, 4)):
        sg = nx.Graph()
        k = rng.random()
        order = list(nodes)
        mycols, myecols = list(cols), list(ecols)
        if j > 0:
            if k < 0.55:
                rng.shuffle(mycols)                      # same label-class sizes, other arrangement
                chk.count('variant_labels_permuted')
            elif k < 0.7:
                rng.shuffle(myecols)                     # same edge-colour multiset, other arrangement
                chk.count('variant_edge_colours_permuted')
            elif k < 0.8:
                rng.shuffle(order)                       # other insertion order of the same nodes
                chk.count('variant_node_order')
            elif k < 0.9:
                mycols = [rng.randrange(ncl) for _ in nodes]
                chk.count('variant_labels_redrawn')
            else:
                chk.count('variant_identical')
        cmap = dict(zip(nodes, mycols))
        for n in order:
            sg.add_node(n, c=cmap[n])
        for (u, v), c in zip(base.edges, myecols):
            sg.add_edge(u, v, c=c)
        g = target_for(sg, rng) if rng.random() < 0.7 else sg.copy()
        pairs.append((g, sg, True))
    run_cache_history('cache-%d' % i, pairs, rng)

rng = chk.rng('object-history')
N = 3000 if chk.thorough else 350
for i in range(N):
    sg = small_shape(rng)
    if rng.random() < 0.4:
        colour_nodes(sg, rng, 2)
    r = rng.random()
    if r < 0.35:
        g = sg.copy()                                    # same size: is_isomorphic can be true
        if rng.random() < 0.3 and g.number_of_edges():
            g.remove_edge(*rng.choice(list(g.edges)))
    elif r < 0.75:
        g = noisy_target(sg, rng)
        for n in g.nodes:
            g.nodes[n].setdefault('c', rng.randrange(2))
    else:
        g = sg.copy()                                    # damaged: the pattern does not fit any more
        g.remove_node(rng.choice(list(g.nodes)))
        g.add_edge(200, rng.choice(list(g.nodes)))
        g.nodes[200]['c'] = 0
    g = relabel(g, rng)
    if rng.random() < 0.5:
        sg = relabel(sg, rng)
    calls = [rng.choice(CALLS) for _ in range(rng.randint(2, 5))]
    run_object_history('object-%d' % i, g, sg, calls, explicit=(i % 3 == 0))

# ---- model side ------------------------------------------------------------------
_t_drv = time.time()
chk.extra['protocol_MB'] = round(sum(len(l) for l in lines) / 1e6, 1)
chk.extra['max_real_call_cpu_s'] = round(_MAX_CALL[0], 2)
if chk.lean_ok:
    # identical protocol lines (the same pattern analysed by several calls) are asked once
    uniq = list(dict.fromkeys(lines))
    chk.extra['protocol_lines_distinct'] = len(uniq)
    answer = dict(zip(uniq, chk.drv.ask(uniq)))
    models = [answer[ln] for ln in lines]
else:
    models = [None] * len(lines)
chk.extra['driver_s'] = round(time.time() - _t_drv, 1)
chk.extra['real_code_and_oracle_s'] = round(_t_drv - chk.t0, 1)
for (cid, ln, impl, errs, nontriv, finding), mo in zip(pending, models):
    kind = cid.rsplit('-', 1)[1]
    chk.count('query_' + kind)
    chk.case(cid, ln, impl, mo, errs, nontriv, finding)
chk.finish()
