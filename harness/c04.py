#!/venv/bin/python
"""C04 - atoms are identified by connectivity, not by the names in the input.

Model: lean/VermouthModel/C04.lean (repair GIVEN the reference graph of make_reference; the matcher is
specified as `M in allMCIS` of lean/VermouthModel/Iso.lean, not transcribed); theorems:
lean/VermouthProps/C04.lean.

Every case is a molecule of 1-3 residues, each a *presentation* of a block of a shipped atomistic force
field (charmm, amber, gromos) or of its hydrogen-free skeleton: names kept / replaced by X1..Xn / shuffled
among atoms of one element, atom order kept / permuted, keys contiguous / sparse, atoms removed, extra atoms
attached, mutation / modification requests.  RepairGraph.run_molecule of the real code is run with a spy
around make_reference that records the reference graph (block, found, match, residue attributes) BEFORE the
repair; that record is the input of the model (`repair` line), whose result is compared exactly with the
repaired molecule (atoms in order with every attribute, PTM flags, added atoms, edge set, final matches,
missing-atom log records).  The oracle states the property directly on the real result.  The size of the
real match is compared with the Lean `mcisSize` (`mcis` line) for residues and blocks of <= 10 atoms, and
with the size known by construction for pure renamings/permutations and pure deletions.
Requested modifications: all shipped single-residue modifications of charmm/amber, the residue presented with
the modification's atoms; the patched reference is compared by atom names with what block + modification
declare (expected_patch, independent of _patch_modification) and with the Lean model shared with C19 (`patch`).
"""
import copy
import itertools
import logging
from common import *

chk = Check('C04')
chk.extra['rule'] = ('a case = molecule of 1-3 residues, each a presentation (renamed X1..Xn / names shuffled within an '
                     'element / atom order permuted / sparse keys / atoms removed / extra atoms attached / mutation or '
                     'modification request) of a block of charmm, amber or gromos (or of its hydrogen-free skeleton); '
                     'non-trivial if the first residue has >= 4 atoms and its presentation differs from the block '
                     '(renamed, permuted, missing or extra atoms); distinct = distinct protocol line')
chk.trusted.append('harness/c04.py: presentation generator, spy around make_reference, encoding of node dictionaries '
                   '(atomname/element/PTM_atom split off, values as repr strings, position/graph not sent), oracle')
chk.lean(['VermouthProps.C04'], 'driver_c04')

import networkx as nx
import numpy as np
import vermouth
import vermouth.forcefield
from vermouth.molecule import Molecule, Block
from vermouth.graph_utils import add_element_attr
import vermouth.processors.repair_graph as RG

CASE_TIMEOUT = 20.0 if chk.thorough else 4.0
SKIP_ATTRS = ('atomname', 'element', 'PTM_atom', 'position', 'graph')
RES_EXCLUDED = ('match', 'found', 'reference', 'nnodes', 'nedges', 'density', 'graph')


class CaseTimeout(Exception):
    pass


def _vt(signum, frame):
    raise CaseTimeout()


signal.signal(signal.SIGVTALRM, _vt)


# ----------------------------------------------------------------------------
# force fields
# ----------------------------------------------------------------------------
def load_ffs():
    ffs = {}
    for name in ('charmm', 'amber', 'gromos'):
        ff = copy.deepcopy(vermouth.forcefield.get_native_force_field(name))
        good = {}
        for bname, block in ff.blocks.items():
            try:
                add_element_attr(block)
            except ValueError:
                chk.count('block_skipped_no_element')
                continue
            names = [block.nodes[n].get('atomname') for n in block]
            if len(block) == 0 or None in names or len(set(names)) != len(names):
                chk.count('block_skipped_names_not_unique')
                continue
            if any(u == v for u, v in block.edges):
                chk.count('block_skipped_self_loop')
                continue
            good[bname] = block
        ffs[name] = (ff, good)
    # hydrogen-free skeletons (small enough for the exhaustive Lean reference)
    for name in ('charmm', 'amber'):
        ff, good = ffs[name]
        sk = vermouth.forcefield.ForceField(name=name + '_heavy')
        for bname, block in good.items():
            heavy = [n for n in block if block.nodes[n]['element'] != 'H']
            if not 3 <= len(heavy) <= 10:
                continue
            b = Block(force_field=sk)
            b.name = bname
            for n in heavy:
                b.add_node(n, **dict(block.nodes[n]))
            for u, v in block.edges:
                if u in b and v in b:
                    b.add_edge(u, v)
            sk.blocks[bname] = b
        ffs[name + '_heavy'] = (sk, dict(sk.blocks))
    return ffs


FFS = load_ffs()


# ----------------------------------------------------------------------------
# presentations
# ----------------------------------------------------------------------------
def elcode(el):
    return int.from_bytes(str(el).encode('utf-8'), 'big')


def val(v):
    if v is None or isinstance(v, (str, int, float, bool)):
        return repr(v)
    if isinstance(v, (list, tuple)):
        return ('[%s]' if isinstance(v, list) else '(%s)') % ', '.join(val(x) for x in v)
    return '<%s %s>' % (type(v).__name__, getattr(v, 'name', ''))


def expected_patch(block, mods):
    """What the modification DECLARES, stated independently of _patch_modification: the block plus the
    modification's PTM atoms, each bond of the modification that touches a PTM atom present between the
    namesakes.  Nodes are keyed by atom name.  Returns None when the modification does not apply cleanly
    (anchor name absent / anchor bonds differ / name clash / residue name restriction)."""
    g = nx.Graph()
    for n in block.nodes:
        d = block.nodes[n]
        g.add_node(d['atomname'], atomname=d['atomname'], element=d['element'], ptm=False)
    for u, v in block.edges:
        g.add_edge(block.nodes[u]['atomname'], block.nodes[v]['atomname'])
    for mod in mods:
        nm = {n: mod.nodes[n].get('atomname') for n in mod.nodes}
        new = [n for n in mod.nodes if mod.nodes[n].get('PTM_atom')]
        anchors = [n for n in mod.nodes if not mod.nodes[n].get('PTM_atom')]
        if not new or not anchors or None in nm.values() or len(set(nm.values())) != len(nm):
            return None
        if any(mod.nodes[n].get('resname') not in (None, block.name) for n in mod.nodes):
            return None
        if any(nm[n] not in g for n in anchors) or any(nm[n] in g for n in new):
            return None
        if any(mod.nodes[n].get('element') is None for n in new):
            return None
        for a, b in itertools.combinations(anchors, 2):
            if mod.has_edge(a, b) != g.has_edge(nm[a], nm[b]):
                return None
        for n in new:
            g.add_node(nm[n], atomname=nm[n], element=mod.nodes[n]['element'], ptm=True)
        for u, v in mod.edges:
            if u in new or v in new:
                g.add_edge(nm[u], nm[v])
    g.name = block.name
    return g


def applicable_mods(ffname):
    """[(block name, modification name)] for every shipped single-residue modification and every amino-acid
    block it applies to"""
    ff, good = FFS[ffname]
    out = []
    for mname in sorted(ff.modifications):
        mod = ff.modifications[mname]
        for b in AA:
            if b in good and expected_patch(good[b], [mod]) is not None:
                out.append((b, mname))
    return out


AA = ['GLY', 'ALA', 'SER', 'VAL', 'LEU', 'ILE', 'THR', 'ASP', 'ASN', 'GLU', 'GLN', 'LYS', 'ARG', 'PHE', 'TYR',
      'TRP', 'HSD', 'HSE', 'HSP', 'HIS', 'HID', 'HIE', 'HIP', 'MET', 'CYS', 'PRO', 'LYN', 'ASH', 'GLH']


def present(spec):
    """spec (JSON-able dict) -> Molecule.  Residues: list of dicts
       {ff, block, names: keep|x|shuffle|swap, perm, missing, extra, mutate?, modify?, seed}; keys: dense|sparse|random"""
    ff = FFS[spec['residues'][0]['ff']][0]
    mol = Molecule(force_field=ff)
    rng = random.Random(spec['seed'])
    keymode = spec.get('keys', 'dense')
    used = set()
    nextkey = [rng.choice([0, 1, 7])]

    def fresh():
        if keymode == 'dense':
            k = nextkey[0]
            nextkey[0] += 1
        elif keymode == 'sparse':
            k = nextkey[0]
            nextkey[0] += rng.randint(1, 4)
        else:
            k = rng.randint(0, 400)
            while k in used:
                k = rng.randint(0, 400)
        used.add(k)
        return k

    info = []
    prev_heavy = None
    atomid = 0
    for ridx, rs in enumerate(spec['residues']):
        block = FFS[rs['ff']][1][rs['block']]
        if rs.get('with_mod'):
            # the residue is presented WITH the atoms of the requested modification(s)
            block = expected_patch(block, [FFS[rs['ff']][0].modifications[m] for m in rs['modify']])
            if block is None:
                raise KeyError('modification %s does not apply to %s' % (rs['modify'], rs['block']))
        nodes = list(block.nodes)
        order = nodes[:]
        if rs.get('perm') == 'element':
            # atoms grouped by element (stable): two isomers then look alike until the bonds are read
            order.sort(key=lambda n: block.nodes[n]['element'])
        elif rs.get('perm'):
            rng.shuffle(order)
        names = {n: block.nodes[n]['atomname'] for n in nodes}
        mode = rs.get('names', 'keep')
        if mode == 'x':
            names = {n: 'X%d' % (i + 1) for i, n in enumerate(order)}
        elif mode == 'shuffle':
            by_el = {}
            for n in nodes:
                by_el.setdefault(block.nodes[n]['element'], []).append(n)
            for el, ns in sorted(by_el.items()):
                perm = [names[n] for n in ns]
                rng.shuffle(perm)
                for n, nm in zip(ns, perm):
                    names[n] = nm
        elif mode == 'swap' and len(nodes) >= 2:
            a, b = rng.sample(nodes, 2)
            names[a], names[b] = names[b], names[a]
        removed = set(rng.sample(nodes, min(rs.get('missing', 0), max(len(nodes) - 1, 0))))
        if rs.get('missing_h'):
            hs = [n for n in nodes if block.nodes[n]['element'] == 'H' and n not in removed]
            removed |= set(rng.sample(hs, min(rs['missing_h'], len(hs))))
        if rs.get('missing_ptm'):
            ps = [n for n in nodes if block.nodes[n].get('ptm') and n not in removed]
            removed |= set(rng.sample(ps, min(rs['missing_ptm'], len(ps))))
        key = {}
        resid = ridx + 1 + spec.get('resid0', 0)
        common = dict(resname=rs.get('resname', rs['block']), resid=resid, chain='A')
        if rs.get('mutate'):
            common['mutation'] = [rs['mutate']]
        if rs.get('modify'):
            common['modification'] = list(rs['modify'])
        for n in order:
            if n in removed:
                continue
            atomid += 1
            k = fresh()
            key[n] = k
            mol.add_node(k, atomname=names[n], element=block.nodes[n]['element'], atomid=atomid,
                         position=np.array([float(atomid), 0.0, 0.0]), **copy.deepcopy(common))
        for u, v in block.edges:
            if u in key and v in key:
                mol.add_edge(key[u], key[v])
        heavy = [key[n] for n in order if n in key and block.nodes[n]['element'] != 'H'] or list(key.values())
        extras = []
        for i in range(rs.get('extra', 0)):
            atomid += 1
            k = fresh()
            el = rng.choice(['C', 'N', 'O', 'H', 'P', 'S'])
            mol.add_node(k, atomname='%sX%d' % (el, i), element=el, atomid=atomid,
                         position=np.array([float(atomid), 0.0, 0.0]), **copy.deepcopy(common))
            mol.add_edge(k, rng.choice(heavy + extras))
            extras.append(k)
        if prev_heavy and heavy and rs.get('link', True):
            mol.add_edge(rng.choice(prev_heavy), rng.choice(heavy))
        prev_heavy = heavy or prev_heavy
        info.append(dict(key=key, removed=removed, extras=extras, block=block, resid=resid, spec=rs))
    return mol, info


# ----------------------------------------------------------------------------
# running the real code
# ----------------------------------------------------------------------------
class LogSpy(logging.Handler):
    def __init__(self):
        super().__init__(level=1)
        self.records = []

    def emit(self, record):
        self.records.append((record.levelno, getattr(record, 'type', None), record.getMessage()))


def atom_enc(key, d):
    attrs = [[k, val(v)] for k, v in d.items() if k not in SKIP_ATTRS]
    return [key, d.get('atomname'), elcode(d.get('element')), attrs,
            None if 'PTM_atom' not in d else int(bool(d['PTM_atom']))]


def snapshot_reference(mol, rg):
    """state right after make_reference: the input of the model"""
    residues = []
    for residx in rg.nodes:
        node = rg.nodes[residx]
        ref = node['reference']
        idx = {n: i for i, n in enumerate(ref.nodes)}
        bnodes = [atom_enc(idx[n], ref.nodes[n]) for n in ref.nodes]
        bedges = [[idx[u], idx[v]] for u, v in ref.edges]
        found = sorted(node['found'].nodes)
        match = [[idx[r], k] for r, k in node['match'].items()]
        common = [[k, val(v)] for k, v in node.items() if k not in RES_EXCLUDED and k not in SKIP_ATTRS]
        residues.append(dict(bnodes=bnodes, bedges=bedges, found=found, match=match, common=common,
                             idx=idx, ref=ref, node=node, resid=node.get('resid')))
    nodes = [atom_enc(k, mol.nodes[k]) for k in mol.nodes]
    edges = [[u, v] for u, v in mol.edges]
    return dict(nodes=nodes, edges=edges, residues=residues)


def canon_events(records):
    out = []
    for lvl, typ, msg in records:
        if typ != 'missing-atom':
            continue
        if msg.startswith('Missing atom '):
            out.append(['missing', msg.rsplit(':', 1)[1], lvl == 5])
        elif msg.startswith('Adding '):
            out.append(['adding', msg.rsplit(':', 1)[1], lvl == 5])
        elif msg.startswith('Could not reconstruct atom '):
            out.append(['lost', msg.rsplit(':', 1)[1]])
        else:
            out.append(['other', msg])
    return out


def run_real(mol, include_graph):
    """-> dict(status, snap, out, events, matches)"""
    captured = {}
    orig = RG.make_reference

    def spy(m):
        rg = orig(m)
        captured['snap'] = snapshot_reference(m, rg)
        captured['rg'] = rg
        return rg

    lg = logging.getLogger('vermouth')
    old_handlers, old_level, old_prop = lg.handlers[:], lg.level, lg.propagate
    spyh = LogSpy()
    lg.handlers[:] = [spyh]
    lg.setLevel(1)
    lg.propagate = False
    RG.make_reference = spy
    res = dict(status='ok')
    t0 = time.time()
    signal.setitimer(signal.ITIMER_VIRTUAL, CASE_TIMEOUT)
    try:
        out = RG.RepairGraph(include_graph=include_graph).run_molecule(mol)
        signal.setitimer(signal.ITIMER_VIRTUAL, 0)
        res['out'] = out
    except CaseTimeout:
        res['status'] = 'timeout'
    except Exception as err:  # noqa
        signal.setitimer(signal.ITIMER_VIRTUAL, 0)
        res['status'] = 'error:%s:%s' % (type(err).__name__, str(err)[:200])
    finally:
        signal.setitimer(signal.ITIMER_VIRTUAL, 0)
        RG.make_reference = orig
        lg.handlers[:] = old_handlers
        lg.setLevel(old_level)
        lg.propagate = old_prop
    res['dt'] = time.time() - t0
    res['snap'] = captured.get('snap')
    res['rg'] = captured.get('rg')
    res['records'] = spyh.records
    return res


def canon_result(res):
    out = res['out']
    snap = res['snap']
    nodes = [atom_enc(k, out.nodes[k]) for k in out.nodes]
    edges = sorted(set((min(u, v), max(u, v)) for u, v in out.edges))
    matches = []
    for r, residx in zip(snap['residues'], res['rg'].nodes):
        m = res['rg'].nodes[residx]['match']
        matches.append([[r['idx'][a], k] for a, k in m.items()])
    events = canon_events(res['records'])
    return ' '.join([enc(nodes), enc([list(e) for e in edges]), enc(matches), enc(events)])


# ----------------------------------------------------------------------------
# the oracle: the property stated on the result of the real code
# ----------------------------------------------------------------------------
def oracle(mol_in, info, res):
    """mol_in: the presented molecule; info: per residue what the generator did; res: run_real result"""
    errs = []
    out = res['out']
    snap = res['snap']
    records = res['records']
    lost_logged = {msg.rsplit(':', 1)[1] for lvl, typ, msg in records
                   if typ == 'missing-atom' and msg.startswith('Could not reconstruct')}
    by_resid = {r['resid']: r for r in snap['residues']}
    for inf in info:
        rsnap = by_resid[inf['resid']]
        ref = rsnap['ref']          # the reference actually used (mutated / modified block)
        resid = inf['resid']
        bname = {ref.nodes[n]['atomname']: n for n in ref.nodes}
        atoms = [k for k in out.nodes if out.nodes[k].get('resid') == resid]
        recog = [k for k in atoms if not out.nodes[k].get('PTM_atom')]
        flagged = [k for k in atoms if out.nodes[k].get('PTM_atom')]
        names = [out.nodes[k].get('atomname') for k in recog]
        tag = 'residue %s (%s): ' % (resid, inf['spec']['block'])
        sp = inf['spec']
        if sp.get('modify') and not sp.get('mutate'):
            errs.extend(tag + e for e in oracle_modified(mol_in, inf, rsnap, out, atoms))
        # (1) names unique among recognised atoms
        dup = sorted({n for n in names if names.count(n) > 1})
        if dup:
            errs.append(tag + 'canonical names not unique among recognised atoms: %s' % dup)
            continue
        # (2) the name assignment is an element-preserving, induced embedding into the block
        bad = [n for n in names if n not in bname]
        if bad:
            errs.append(tag + 'recognised atoms carry names that are not block atom names: %s' % bad[:5])
            continue
        for k in recog:
            bn = bname[out.nodes[k]['atomname']]
            if out.nodes[k].get('element') != ref.nodes[bn].get('element'):
                errs.append(tag + 'atom %s named %s has element %s, block says %s'
                            % (k, out.nodes[k]['atomname'], out.nodes[k].get('element'), ref.nodes[bn].get('element')))
            if k in mol_in.nodes and mol_in.nodes[k].get('element') != out.nodes[k].get('element'):
                errs.append(tag + 'input atom %s of element %s was recognised as %s (%s)'
                            % (k, mol_in.nodes[k].get('element'), out.nodes[k]['atomname'], out.nodes[k].get('element')))
        for a, b in itertools.combinations(recog, 2):
            ba, bb = bname[out.nodes[a]['atomname']], bname[out.nodes[b]['atomname']]
            if out.has_edge(a, b) != ref.has_edge(ba, bb):
                errs.append(tag + 'atoms %s,%s named %s,%s are %sbonded but the block atoms are %sbonded'
                            % (a, b, out.nodes[a]['atomname'], out.nodes[b]['atomname'],
                               '' if out.has_edge(a, b) else 'not ', '' if ref.has_edge(ba, bb) else 'not '))
                break
        # (3) every block atom is present afterwards (bonded as in the block by (2))
        originally = [k for k in recog if k in mol_in.nodes]
        # (block atoms contributed by a requested modification are marked PTM_atom by the reference itself)
        absent = sorted({nm for nm, n in bname.items() if not ref.nodes[n].get('PTM_atom')} - set(names))
        if absent:
            comp_ok = True
            for comp in nx.connected_components(ref):
                cnames = {ref.nodes[n]['atomname'] for n in comp}
                if cnames & {out.nodes[k]['atomname'] for k in originally}:
                    if cnames & set(absent):
                        comp_ok = False
                else:
                    # a component without any recognised input atom cannot be placed: must be reported
                    if not cnames & set(absent) <= lost_logged:
                        errs.append(tag + 'block atoms %s neither present nor reported' % sorted(cnames & set(absent) - lost_logged)[:5])
            if not comp_ok:
                errs.append(tag + 'block atoms %s missing after the repair although a bonded partner is present' % absent[:6])
        # atoms of the input never vanish silently: present, or flagged+requested (removed on purpose)
        for k in inf['key'].values():
            if k not in out.nodes:
                if not (mol_in.nodes[k].get('mutation') or mol_in.nodes[k].get('modification')):
                    errs.append(tag + 'input atom %s vanished' % k)
        # (4) flagged only beyond a largest match; the maximum where it is known by construction
        n_in = len(inf['key']) + len(inf['extras'])
        n_rec = len(originally)
        gone = [k for k in list(inf['key'].values()) + inf['extras'] if k not in out.nodes]
        n_unrec = len([k for k in flagged if k in mol_in.nodes]) + len(gone)
        if n_rec + n_unrec != n_in:
            errs.append(tag + 'recognised (%d) + unrecognised (%d) != atoms presented (%d)' % (n_rec, n_unrec, n_in))
        sp = inf['spec']
        same_block = not sp.get('mutate') and not sp.get('modify')
        if same_block and not inf['extras']:
            # the residue is (isomorphic to) an induced subgraph of the block: nothing may be flagged
            if n_unrec:
                errs.append(tag + 'presentation is an induced subgraph of the block but %d atoms are unrecognised' % n_unrec)
        if same_block and not inf['extras'] and not inf['removed']:
            added = [k for k in atoms if k not in mol_in.nodes]
            if added:
                errs.append(tag + 'pure renaming/permutation but atoms %s were added' % added)
            if sorted(names) != sorted(bname):
                errs.append(tag + 'pure renaming/permutation does not come back with exactly the block names')
        if same_block and inf['extras'] and n_rec < len(inf['key']):
            # the block part of the presentation is itself a common induced subgraph
            errs.append(tag + 'match recognises %d atoms, the block part of the presentation has %d' % (n_rec, len(inf['key'])))
        # the recorded match itself (what the model was given)
        m = dict((r, k) for r, k in rsnap['match'])
        if len(set(m.values())) != len(m):
            errs.append(tag + 'match of make_reference is not injective')
    return errs


def ref_by_name(ref):
    names = sorted(ref.nodes[n]['atomname'] for n in ref.nodes)
    edges = sorted(tuple(sorted((ref.nodes[u]['atomname'], ref.nodes[v]['atomname']))) for u, v in ref.edges)
    return names, edges


def oracle_modified(mol_in, inf, rsnap, out, atoms):
    """requested modifications: the reference must be the block patched AS THE MODIFICATION DECLARES (every
    added atom bonded to its anchor), and a residue presented with the modification's atoms comes back
    complete, with exactly the modification's atoms marked and bonded as declared"""
    errs = []
    sp = inf['spec']
    ff, good = FFS[sp['ff']]
    want = expected_patch(good[sp['block']], [ff.modifications[m] for m in sp['modify'] if m != 'none'])
    if want is None:
        return errs
    ref = rsnap['ref']
    rn, re_ = ref_by_name(ref)
    wn = sorted(want.nodes)
    we = sorted(tuple(sorted(e)) for e in want.edges)
    if rn != wn:
        errs.append('reference for modification %s has atoms %s, declared %s'
                    % (sp['modify'], sorted(set(rn) ^ set(wn)), 'differ'))
    if re_ != we:
        errs.append('reference for modification %s: bonds %s are declared by block+modification but %s'
                    % (sp['modify'], sorted(set(we) - set(re_))[:4], 'absent from the patched reference'
                       if set(we) - set(re_) else 'reference has extra bonds %s' % sorted(set(re_) - set(we))[:4]))
    if not sp.get('with_mod') or inf['extras']:
        return errs
    # the presented residue is block + modification (possibly minus some atoms): afterwards it is all there
    names = sorted(out.nodes[k].get('atomname') for k in atoms)
    if names != wn:
        errs.append('modified residue comes back with atoms %s instead of block+modification (differences: %s)'
                    % (names[:40], sorted(set(names) ^ set(wn))))
        return errs
    byname = {out.nodes[k]['atomname']: k for k in atoms}
    oe = sorted(tuple(sorted((out.nodes[u]['atomname'], out.nodes[v]['atomname'])))
                for u, v in out.edges if u in byname.values() and v in byname.values())
    if oe != we:
        errs.append('modified residue: bonds missing %s / unexpected %s w.r.t. block+modification'
                    % (sorted(set(we) - set(oe))[:4], sorted(set(oe) - set(we))[:4]))
    flagged = sorted(n for n, k in byname.items() if out.nodes[k].get('PTM_atom'))
    declared = sorted(n for n in want.nodes if want.nodes[n]['ptm'])
    if flagged != declared:
        errs.append('modified residue: atoms marked PTM_atom %s, the modification adds %s' % (flagged, declared))
    added = [k for k in atoms if k not in mol_in.nodes]
    if len(added) != len(inf['removed']):
        errs.append('modified residue: %d atoms added, %d were missing' % (len(added), len(inf['removed'])))
    for k in inf['key'].values():
        if k not in out.nodes:
            errs.append('modified residue: input atom %s vanished' % k)
    return errs


def patch_line(sp):
    """protocol line for the Lean model of _patch_modification (shared with C19): unpatched block + modifications"""
    ff, good = FFS[sp['ff']]
    blk = good[sp['block']]
    idx = {n: i for i, n in enumerate(blk.nodes)}
    bn = [atom_enc(idx[n], blk.nodes[n]) for n in blk.nodes]
    be = [[idx[u], idx[v]] for u, v in blk.edges]
    mods = []
    for m in sp['modify']:
        if m == 'none':
            continue
        mod = ff.modifications[m]
        mi = {n: i for i, n in enumerate(mod.nodes)}
        mods.append([[atom_enc(mi[n], dict(mod.nodes[n], element=mod.nodes[n].get('element', 'X'))) for n in mod.nodes],
                     [[mi[u], mi[v]] for u, v in mod.edges]])
    return line('patch', bn, be, mods)


def mcis_line(rsnap, snap):
    """protocol line for the Lean reference: residue graph (target) and block graph (pattern)"""
    found = set(rsnap['found'])
    gn = [[a[0], a[2]] for a in snap['nodes'] if a[0] in found]
    ge = [e for e in snap['edges'] if e[0] in found and e[1] in found]
    sn = [[a[0], a[2]] for a in rsnap['bnodes']]
    # pattern nodes in BFS order (pruning)
    return line('mcis', gn, ge, bfs_order(sn, rsnap['bedges']), rsnap['bedges'])


def bfs_order(nodes, edges):
    adj = {n[0]: [] for n in nodes}
    for u, v in edges:
        adj[u].append(v)
        adj[v].append(u)
    col = dict((n[0], n[1]) for n in nodes)
    seen, order = set(), []
    for s in sorted(adj, key=lambda n: (-len(adj[n]), n)):
        if s in seen:
            continue
        q = [s]
        seen.add(s)
        while q:
            n = q.pop(0)
            order.append([n, col[n]])
            for nb in adj[n]:
                if nb not in seen:
                    seen.add(nb)
                    q.append(nb)
    return order


def explain(impl, model):
    """first difference between the two canonical strings, decoded"""
    try:
        a, b = dec(impl), dec(model)
    except Exception:
        return 'undecodable: %s' % clip(model, 200)
    for part, x, y in zip(('atoms', 'edges', 'matches', 'log'), a, b):
        if x != y:
            if isinstance(x, list) and isinstance(y, list):
                for i, (p, q) in enumerate(zip(x, y)):
                    if p != q:
                        return '%s[%d]: code %r, model %r' % (part, i, p, q)
                return '%s: code has %d entries, model %d; tail code %r model %r' % (part, len(x), len(y), x[len(y):][:3], y[len(x):][:3])
            return '%s: code %r model %r' % (part, x, y)
    return 'no difference found after decoding'


# ----------------------------------------------------------------------------
# case stream
# ----------------------------------------------------------------------------
def block_pool(ffname, max_atoms, min_atoms=1):
    return sorted(b for b, blk in FFS[ffname][1].items() if min_atoms <= len(blk) <= max_atoms)


def gen_specs(rng):
    specs = []
    max_atoms = 80 if chk.thorough else 30
    n_blocks = {'charmm': 150, 'amber': 31, 'gromos': 35} if chk.thorough else {'charmm': 26, 'amber': 8, 'gromos': 6}
    aa = ['GLY', 'ALA', 'SER', 'VAL', 'LEU', 'ILE', 'THR', 'ASP', 'ASN', 'GLU', 'GLN', 'LYS', 'ARG', 'PHE', 'TYR',
          'TRP', 'HSD', 'HIS', 'MET', 'CYS', 'PRO']
    for ffname, nb in n_blocks.items():
        pool = block_pool(ffname, max_atoms, 2)
        prot = [b for b in aa if b in pool]
        chosen = rng.sample(prot, min(len(prot), max(3, nb // 3)))
        rest = [b for b in pool if b not in chosen]
        chosen += rng.sample(rest, min(len(rest), nb - len(chosen)))
        for b in chosen:
            n = len(FFS[ffname][1][b])
            big = n > 20
            xk = 4 if n <= 15 else 2      # extra atoms with names kept (timing bounds of DESIGN 5.4)
            pres = [
                dict(names='x'), dict(names='shuffle'), dict(perm=True), dict(names='x', perm=True),
                dict(names='shuffle', perm=True), dict(names='swap'),
                dict(names='keep', perm=True, missing=rng.randint(1, 4)),
                dict(names='keep', extra=rng.randint(1, xk)),
                dict(names='keep', perm=True, missing=rng.randint(1, 4), extra=rng.randint(1, xk)),
                dict(names=rng.choice(['x', 'shuffle']), perm=True, missing=rng.randint(1, 2)),
                dict(names=rng.choice(['x', 'shuffle']), perm=True, extra=rng.randint(1, 2)),
                dict(names=rng.choice(['x', 'shuffle']), perm=True, missing_h=rng.randint(1, 2 if big else 3),
                     extra=rng.randint(1, 2)),
                dict(names='keep', missing_h=rng.randint(2, 6)),
            ]
            if not chk.thorough:
                pres = rng.sample(pres[:6], 3) + rng.sample(pres[6:], 4)
                if big and b not in aa:
                    # name-scrambled symmetric lipids/sugars above 20 atoms run into the ISMAGS time-out: thorough tier only
                    pres = [p for p in pres if p.get('names', 'keep') in ('keep', 'swap')]
            for p in pres:
                r = dict(ff=ffname, block=b, **p)
                spec = dict(residues=[r], seed=rng.randrange(10 ** 9), keys=rng.choice(['dense', 'sparse', 'random']),
                            include_graph=rng.random() < 0.5)
                # multi-residue molecules: key allocation (max over the whole molecule), residues not mixed up
                if rng.random() < 0.3:
                    others = []
                    for _ in range(rng.randint(1, 2)):
                        ob = rng.choice([x for x in prot if len(FFS[ffname][1][x]) <= 20] or prot)
                        others.append(dict(ff=ffname, block=ob, names=rng.choice(['keep', 'x']), perm=rng.random() < 0.5,
                                           missing_h=rng.randint(0, 2), extra=rng.choice([0, 0, 1])))
                    rs = [r] + others
                    rng.shuffle(rs)
                    spec['residues'] = rs
                specs.append(spec)
    # isomer pairs in ONE molecule: same elements, same number of bonds, different connectivity, all atoms renamed
    # and listed by element, so that anything shared between the residues of a molecule (caches) must key on the
    # actual bonds
    for ffname in ('charmm', 'amber', 'gromos'):
        good = FFS[ffname][1]
        groups = {}
        for b in block_pool(ffname, 24, 4):
            blk = good[b]
            sig = (tuple(sorted(blk.nodes[n]['element'] for n in blk.nodes)), blk.number_of_edges())
            groups.setdefault(sig, []).append(b)
        pairs = [(a, b) for g in groups.values() for a in g for b in g if a < b]
        pairs = [pr for pr in pairs if {'LEU', 'ILE'} == set(pr)] + rng.sample(pairs, min(len(pairs), 12 if chk.thorough else 3))
        for a, b in pairs:
            for first, second in ((a, b), (b, a)):
                rs = [dict(ff=ffname, block=first, names='x', perm='element', link=False),
                      dict(ff=ffname, block=second, names='x', perm='element', link=False)]
                specs.append(dict(residues=rs, seed=rng.randrange(10 ** 9), keys='dense', include_graph=False))
    # hydrogen-free skeletons: the maximum is computed by the Lean reference
    for ffname in ('charmm_heavy', 'amber_heavy'):
        pool = block_pool(ffname, 10, 3)
        for b in rng.sample(pool, min(len(pool), 120 if chk.thorough else 25)):
            for _ in range(3 if chk.thorough else 2):
                r = dict(ff=ffname, block=b, names=rng.choice(['x', 'shuffle', 'keep']), perm=True,
                         missing=rng.randint(0, 2), extra=rng.randint(0, 3))
                specs.append(dict(residues=[r], seed=rng.randrange(10 ** 9), keys=rng.choice(['dense', 'sparse', 'random']),
                                  include_graph=False, want_mcis=True))
    # mutation / modification requests (the reference is another / a patched block)
    for ffname in ('charmm', 'amber'):
        ff, good = FFS[ffname]
        prot = [b for b in aa if b in good]
        small = [b for b in prot if len(good[b]) <= 14]
        for _ in range(40 if chk.thorough else 8):
            a, b = rng.sample(prot if chk.thorough else small, 2)
            r = dict(ff=ffname, block=a, mutate=b, names=rng.choice(['keep', 'keep', 'x']), perm=rng.random() < 0.5,
                     missing_h=rng.randint(0, 2))
            if len(good[a]) > 20 and r['names'] != 'keep':
                r['names'] = 'keep'
            specs.append(dict(residues=[r], seed=rng.randrange(10 ** 9), keys='sparse', include_graph=False))
        # every shipped modification that applies to a single residue (termini, protonation states, ...), the
        # residue presented WITH the modification's atoms: complete / scrambled / permuted / one PTM atom missing
        appl = applicable_mods(ffname)
        by_mod = {}
        for b, mname in appl:
            by_mod.setdefault(mname, []).append(b)
        for mname, blocks in sorted(by_mod.items()):
            restricted = len(blocks) <= 3
            chosen = blocks if restricted else rng.sample(blocks, 3 if chk.thorough else 1)
            for b in chosen:
                n = len(good[b])
                variants = [dict(names='keep'), dict(names='x', perm=True), dict(names='shuffle', perm=True),
                            dict(names='keep', perm=True, missing_ptm=1), dict(names='x', perm=True, missing_ptm=1),
                            dict(names='keep', missing_h=2, missing_ptm=1)]
                if n > 18:
                    variants = [v for v in variants if v.get('names') == 'keep'] + [dict(names='x')]
                if not chk.thorough:
                    variants = variants[:2] + rng.sample(variants[2:], 2) if restricted else rng.sample(variants, 2)
                for v in variants:
                    r = dict(ff=ffname, block=b, modify=[mname], with_mod=True, **v)
                    specs.append(dict(residues=[r], seed=rng.randrange(10 ** 9), keys=rng.choice(['dense', 'sparse']),
                                      include_graph=False))
        mods = sorted(m for m in ff.modifications if m in ('N-ter', 'C-ter', 'COOH-ter', 'NH2-ter', 'N-ter-NH2'))
        for _ in range(20 if chk.thorough else 4):
            if not mods:
                break
            a = rng.choice(prot)
            r = dict(ff=ffname, block=a, modify=[rng.choice(mods)], names='keep', perm=rng.random() < 0.5,
                     missing_h=rng.randint(0, 2))
            specs.append(dict(residues=[r], seed=rng.randrange(10 ** 9), keys='dense', include_graph=False))
    rng.shuffle(specs)      # so that a time budget cuts every family alike
    return specs


def corpus_specs():
    path = os.path.join(VERIF, 'corpus', 'c04_hard.json')
    if os.path.exists(path):
        for i, s in enumerate(json.load(open(path))['cases']):
            yield 'corpus-%d' % i, s


def presentation_differs(spec):
    r = spec['residues'][0]
    return bool(r.get('names', 'keep') != 'keep' or r.get('perm') or r.get('missing') or r.get('missing_h')
                or r.get('extra') or r.get('mutate') or r.get('modify'))


all_specs = list(corpus_specs())
rng = chk.rng('presentations')
all_specs += [('gen-%d' % i, s) for i, s in enumerate(gen_specs(rng))]

pending = []   # (cid, spec, mol_in, info, res)
timed_out_blocks = set()
patch_cases = []  # (cid, protocol line, reference of the real code by atom names)
lines = []
t_budget = 780 if chk.thorough else 55
for cid, spec in all_specs:
    if chk.elapsed() > t_budget and not cid.startswith('corpus'):
        chk.count('skipped_for_time')
        continue
    r0 = spec['residues'][0]
    if any((r['ff'], r['block']) in timed_out_blocks and r.get('names', 'keep') in ('x', 'shuffle') for r in spec['residues']):
        # this block already ran into the ISMAGS time-out under scrambled names: do not burn the budget again
        chk.count('skipped_after_timeout_of_same_block')
        continue
    try:
        mol, info = present(spec)
    except KeyError as err:
        chk.count('spec_skipped_%s' % type(err).__name__)
        chk.notes.append('spec skipped (%r): %s' % (err, cid))
        continue
    mol_in = mol.copy()
    res = run_real(mol, spec.get('include_graph', False))
    chk.count('status_' + res['status'].split(':')[0])
    if os.environ.get('VERIF_DEBUG') and res['dt'] > 1.0:
        print('slow %.1fs %s %s' % (res['dt'], cid, json.dumps(spec)[:300]), flush=True)
    r0 = spec['residues'][0]
    chk.count('names_%s%s' % (r0.get('names', 'keep'), '+perm' if r0.get('perm') else ''))
    chk.count('ff_' + r0['ff'])
    if res['status'] == 'timeout':
        chk.count('inconclusive_timeout')
        timed_out_blocks.update((r['ff'], r['block']) for r in spec['residues'] if r.get('names', 'keep') in ('x', 'shuffle'))
        chk.notes.append('inconclusive (ISMAGS time-out %.0f s): %s %s' % (CASE_TIMEOUT, cid, json.dumps(spec)[:200]))
        continue
    if res['status'].startswith('error'):
        kind = res['status'].split(':')[1]
        # modification does not fit: raised by design (not for the ones the harness found applicable)
        expected = bool(r0.get('modify')) and kind == 'ValueError' and not r0.get('with_mod')
        chk.count('error_' + kind)
        if expected:
            continue
        chk.case(cid, json.dumps(spec, sort_keys=True), res['status'], None,
                 ['the repair raised %s' % res['status']], True)
        continue
    snap = res['snap']
    ln = line('repair', snap['nodes'], snap['edges'],
              [[r['bnodes'], r['bedges'], r['found'], r['match'], r['common']] for r in snap['residues']])
    qs = [ln]
    # maximality against the Lean reference where it is small enough
    for r in snap['residues']:
        if len(r['bnodes']) <= 10 and len(r['found']) <= 13:
            qs.append(mcis_line(r, snap))
            chk.count('mcis_queries')
        else:
            qs.append(None)
    if len(spec['residues']) == 1 and r0.get('modify') and not r0.get('mutate'):
        rn, re_ = ref_by_name(snap['residues'][0]['ref'])
        patch_cases.append((cid, patch_line(r0), enc([rn, [list(e) for e in re_]])))
        chk.count('modification_%s' % '+'.join(r0['modify']))
        chk.count('modified_residue_%s' % ('presented_with_mod_atoms' if r0.get('with_mod') else 'presented_bare'))
    n0 = len(info[0]['key']) + len(info[0]['extras'])
    chk.count('residues=%d' % len(info))
    chk.count('atoms_%s' % ('<=10' if n0 <= 10 else '<=20' if n0 <= 20 else '<=40' if n0 <= 40 else '>40'))
    chk.count('missing=%d' % min(len(info[0]['removed']), 5))
    chk.count('extra=%d' % len(info[0]['extras']))
    pending.append((cid, spec, mol_in, info, res, qs))

flat = [q for p in pending for q in p[5] if q is not None]
answers = chk.drv.ask(flat) if chk.lean_ok else [None] * len(flat)
ans = iter(answers)
for cid, spec, mol_in, info, res, qs in pending:
    model = next(ans)
    impl = canon_result(res)
    errs = oracle(mol_in, info, res)
    for r, q in zip(res['snap']['residues'], qs[1:]):
        if q is None:
            continue
        size = next(ans)
        if size is None:
            continue
        found = set(r['found'])
        got = len([1 for _, k in r['match'] if k in found])
        if str(got) != size:
            errs.append('residue %s: make_reference matched %d atoms, the largest common induced subgraph has %s'
                        % (r['resid'], got, size))
        else:
            chk.count('mcis_size_confirmed')
    added = sum(1 for k in res['out'].nodes if k not in mol_in.nodes)
    flagged = sum(1 for k in res['out'].nodes if res['out'].nodes[k].get('PTM_atom'))
    chk.count('added_atoms=%s' % ('0' if not added else '1-3' if added <= 3 else '>3'))
    chk.count('flagged=%s' % ('0' if not flagged else '>0'))
    if any(ev[0] == 'lost' for ev in canon_events(res['records'])):
        chk.count('could_not_reconstruct')
    nontriv = len(mol_in) >= 4 and presentation_differs(spec)
    chk.case(cid, json.dumps(spec, sort_keys=True), impl, model, errs, nontriv)
    if errs or (model is not None and model != impl):
        chk.notes.append('%s: %s' % (cid, explain(impl, model) if model is not None and model != impl else errs[0]))
        if os.environ.get('VERIF_DEBUG'):
            print(chk.notes[-1][:1500], flush=True)

# ---- the patched reference against the Lean model of _patch_modification (shared with C19) ----------------
pans = chk.drv.ask([p[1] for p in patch_cases]) if chk.lean_ok and patch_cases else [None] * len(patch_cases)
for (cid, ln, impl), mo in zip(patch_cases, pans):
    model = mo
    if mo is not None and mo not in ('does-not-fit', 'bad-op', 'bad-line', 'driver-died'):
        try:
            nodes, edges = dec(mo)
            nm = {k: n for k, n in nodes}
            model = enc([sorted(nm.values()), sorted([sorted((nm[u], nm[v])) for u, v in edges])])
        except Exception:
            model = 'undecodable ' + clip(mo, 200)
    chk.case('patch-' + cid, ln, impl, model, [], True)
    if model is not None and model != impl:
        chk.notes.append('patch-%s: reference of the code %s / model %s' % (cid, clip(str(dec(impl)), 600), clip(str(try_dec(model)), 600)))

# ---- unknown residue: run_system deletes the molecule with a warning, or raises -------------------------
from vermouth.system import System
for i, (ffname, delete) in enumerate(itertools.product(['charmm', 'amber'], [True, False])):
    ff = FFS[ffname][0]
    sysm = System(force_field=ff)
    good, _ = present(dict(residues=[dict(ff=ffname, block='GLY', names='x', perm=True)], seed=i))
    bad, _ = present(dict(residues=[dict(ff=ffname, block='ALA', resname='ZZZ', names='keep')], seed=i))
    sysm.molecules = [good, bad]
    lg = logging.getLogger('vermouth')
    spyh = LogSpy()
    old = lg.handlers[:], lg.level, lg.propagate
    lg.handlers[:] = [spyh]
    lg.setLevel(1)
    lg.propagate = False
    try:
        RG.RepairGraph(delete_unknown=delete).run_system(sysm)
        outcome = 'kept=%d warned=%d' % (len(sysm.molecules), sum(1 for r in spyh.records if r[1] == 'unknown-residue' and r[0] == 30))
    except KeyError as err:
        outcome = 'KeyError'
    finally:
        lg.handlers[:], lg.level, lg.propagate = old[0], old[1], old[2]
        lg.setLevel(old[1])
    want = 'kept=1 warned=1' if delete else 'KeyError'
    chk.count('unknown_residue_cases')
    chk.case('unknown-%d' % i, 'unknown-residue %s delete_unknown=%s' % (ffname, delete), outcome, None,
             [] if outcome == want else ['unknown residue: %s, expected %s' % (outcome, want)], False)

chk.finish()
