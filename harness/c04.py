#!/venv/bin/python
"""C04 - atoms are identified by connectivity, not by the names in the input.

Model: lean/VermouthModel/C04.lean (repair GIVEN the reference graph of make_reference; the matcher is
specified as `M in allMCIS` of lean/VermouthModel/Iso.lean, not transcribed); theorems:
lean/VermouthProps/C04.lean.

Every case is a molecule of 1-3 residues, each a *presentation* of a block of a shipped atomistic force
field (charmm, amber, gromos) or of its hydrogen-free skeleton: names kept / replaced by X1..Xn / shuffled
among atoms of one element, atom order kept / permuted, keys contiguous / sparse, atoms removed, extra atoms
attached, mutation / modification requests.  RepairGraph.run_molecule of the real code is run with a spy
around make_reference that records the reference graph (block, found, match, residue attributes) BEFORE the
repair; that record is the input of the model (`repair` line), whose result is compared exactly with the
repaired molecule (atoms in order with every attribute, PTM flags, added atoms, edge set, final matches,
missing-atom log records).  The oracle states the property directly on the real result.  The size of the
real match is compared with the Lean `mcisSize` (`mcis` line) for residues and blocks of <= 10 atoms, and
with the size known by construction for pure renamings/permutations and pure deletions.
Requested modifications: all shipped single-residue modifications of charmm/amber, the residue presented with
the modification's atoms; the patched reference is compared by atom names with what block + modification
declare (expected_patch, independent of _patch_modification) and with the Lean model shared with C19 (`patch`).

Extension round: lean/VermouthModel/C04_Ref.lean models make_reference AROUND the matcher, _get_reference_residue /
_patch_modification with their guards and the whole pipeline (theorems: lean/VermouthProps/C04_Ref.lean, C04_Patch.lean,
C04_Pipeline.lean).  RefSpy hooks _get_reference_residue, add_element_attr, nx.relabel_nodes and ISMAGS inside
make_reference and records, per residue, the reference returned, the graphs before the element guess, the relabelling
dictionaries, the graphs / node predicate / cache handed to the matcher and the answers it yields; protocol lines
`getref`, `mkref`, `pipeline` compare the model with those records exactly, `mcismem` checks every recorded answer of
the real matcher against the Lean reference.  Families ref-* (degenerate references, atoms without element / name,
refused requests, synthetic modifications) and peptide-* (whole peptides through AnnotateMutMod + RepairGraph listed
in several atom orders: the result must not depend on the order; some carry per-residue requests written as text
(-mutate A-SER0:ALA) on residues numbered 0 / negative with a namesake in the chain: only the named residue changes).
"""
import copy
import itertools
import logging
import string
from common import *

chk = Check('C04')
if os.environ.get('VERIF_DEBUG'):
    import faulthandler
    faulthandler.register(signal.SIGUSR1, all_threads=True)
chk.extra['rule'] = ('a case = molecule of 1-3 residues, each a presentation (renamed X1..Xn / names shuffled within an '
                     'element / atom order permuted / sparse keys / atoms removed / extra atoms attached / mutation or '
                     'modification request) of a block of charmm, amber or gromos (or of its hydrogen-free skeleton); '
                     'non-trivial if the first residue has >= 4 atoms and its presentation differs from the block '
                     '(renamed, permuted, missing or extra atoms); distinct = distinct protocol line.  Per molecule one '
                     'line for repair GIVEN the match plus, per residue, one line for _get_reference_residue and one for '
                     'make_reference around the matcher (inputs recorded by a spy inside make_reference, real ISMAGS '
                     'answers included) and one line for the whole pipeline.  Further families: degenerate references of '
                     'a synthetic force field, atoms without element / name, refused requests, and peptides of 2-4 '
                     'residues through AnnotateMutMod + RepairGraph listed in several atom orders')
chk.trusted.append('harness/c04.py: presentation generator, spy around and inside make_reference (hooks on '
                   '_get_reference_residue, add_element_attr, nx.relabel_nodes, ISMAGS), encoding of node dictionaries '
                   '(atomname/element/PTM_atom split off, values as repr strings, position/graph not sent), oracle')
chk.lean(['VermouthProps.C04', 'VermouthProps.C04_Ref', 'VermouthProps.C04_Patch', 'VermouthProps.C04_Pipeline'], 'driver_c04')

import networkx as nx
import numpy as np
import vermouth
import vermouth.forcefield
from vermouth.molecule import Molecule, Block
from vermouth.graph_utils import add_element_attr
import vermouth.processors.repair_graph as RG

CASE_TIMEOUT = 20.0 if chk.thorough else 4.0
SKIP_ATTRS = ('atomname', 'element', 'PTM_atom', 'position', 'graph')
RES_EXCLUDED = ('match', 'found', 'reference', 'nnodes', 'nedges', 'density', 'graph')


class CaseTimeout(Exception):
    pass


_ARMED = [False]


def _vt(signum, frame):
    if not _ARMED[0]:
        return
    # Never raise inside coverage.py (anchor line coverage of common.py): its collector holds a non-reentrant lock
    # between lock_data() and unlock_data(); an exception thrown in there leaves the lock taken and the next traced
    # call dead-locks the whole check.  The timer repeats, so the time-out comes a quarter of a second later.
    f, depth = frame, 0
    while f is not None and depth < 8:
        if '/coverage/' in f.f_code.co_filename:
            return
        f, depth = f.f_back, depth + 1
    raise CaseTimeout()


def arm(seconds):
    """CPU-time limit for a call into the real code.  The timer REPEATS: an exception raised by the handler while the
    interpreter runs a finaliser (generator close, __del__) or a logging handler is swallowed there, and a one-shot
    timer would then leave the search unbounded."""
    _ARMED[0] = True
    signal.setitimer(signal.ITIMER_VIRTUAL, seconds, 0.25)


def disarm():
    _ARMED[0] = False
    signal.setitimer(signal.ITIMER_VIRTUAL, 0)


signal.signal(signal.SIGVTALRM, _vt)


# ----------------------------------------------------------------------------
# force fields
# ----------------------------------------------------------------------------
def load_ffs():
    ffs = {}
    for name in ('charmm', 'amber', 'gromos'):
        ff = copy.deepcopy(vermouth.forcefield.get_native_force_field(name))
        good = {}
        for bname, block in ff.blocks.items():
            try:
                add_element_attr(block)
            except ValueError:
                chk.count('block_skipped_no_element')
                continue
            names = [block.nodes[n].get('atomname') for n in block]
            if len(block) == 0 or None in names or len(set(names)) != len(names):
                chk.count('block_skipped_names_not_unique')
                continue
            if any(u == v for u, v in block.edges):
                chk.count('block_skipped_self_loop')
                continue
            good[bname] = block
        ffs[name] = (ff, good)
    # hydrogen-free skeletons (small enough for the exhaustive Lean reference)
    for name in ('charmm', 'amber'):
        ff, good = ffs[name]
        sk = vermouth.forcefield.ForceField(name=name + '_heavy')
        for bname, block in good.items():
            heavy = [n for n in block if block.nodes[n]['element'] != 'H']
            if not 3 <= len(heavy) <= 10:
                continue
            b = Block(force_field=sk)
            b.name = bname
            for n in heavy:
                b.add_node(n, **dict(block.nodes[n]))
            for u, v in block.edges:
                if u in b and v in b:
                    b.add_edge(u, v)
            sk.blocks[bname] = b
        ffs[name + '_heavy'] = (sk, dict(sk.blocks))
    return ffs


FFS = load_ffs()


def synth_ff():
    """a small force field of degenerate blocks and modifications (built afresh for every case: the real code
    writes guessed elements into the blocks of the force field)"""
    from vermouth.molecule import Modification
    ff = vermouth.forcefield.ForceField(name='synth')

    def blk(name, atoms, edges):
        b = Block(force_field=ff)
        b.name = name
        for i, (nm, el) in enumerate(atoms):
            d = dict(atomname=nm, resname=name, atype='T' + nm)
            if el is not None:
                d['element'] = el
            b.add_node(i, **d)
        b.add_edges_from(edges)
        ff.blocks[name] = b

    def mod(name, nodes, edges):
        m = Modification(force_field=ff, name=name)
        for k, (nm, ptm, el) in nodes:
            d = dict(atomname=nm, PTM_atom=ptm)
            if el:
                d['element'] = el
            m.add_node(k, **d)
        m.add_edges_from(edges)
        ff.modifications[name] = m

    blk('EMP', [], [])
    blk('XEN', [('XE1', 'Xe'), ('XE2', 'Xe'), ('XE3', 'Xe')], [(0, 1), (1, 2)])
    blk('ETH', [('C1', 'C'), ('C2', 'C'), ('O1', 'O'), ('H1', 'H'), ('H2', 'H')], [(0, 1), (1, 2), (0, 3), (2, 4)])
    blk('PRO3', [('N1', 'N'), ('C1', 'C'), ('C2', 'C'), ('C3', 'C'), ('O1', 'O'), ('O2', 'O'), ('H1', 'H')],
        [(0, 1), (1, 2), (2, 3), (3, 4), (3, 5), (0, 6)])
    blk('DIS', [('C1', 'C'), ('C2', 'C'), ('O3', 'O'), ('N4', 'N'), ('H5', 'H'), ('ZN', 'Zn')], [(0, 1), (1, 2), (3, 4)])
    blk('NOEL', [('CA', None), ('CB', None), ('1HB', None), ('OG', None)], [(0, 1), (1, 2), (1, 3)])
    blk('NOELX', [('CA', 'C'), ('CB', 'C'), ('1HB', 'H'), ('OG', 'O')], [(0, 1), (1, 2), (1, 3)])
    A, N = False, True
    mod('GOOD', [('C1', ('C1', A, None)), ('P1', ('P1', N, 'P')), ('O9', ('O9', N, 'O')), ('O8', ('O8', N, 'O'))],
        [('C1', 'P1'), ('P1', 'O9'), ('P1', 'O8')])
    mod('TWO', [('C1', ('C1', A, None)), ('C2', ('C2', A, None)), ('N9', ('N9', N, 'N'))],
        [('C1', 'C2'), ('C1', 'N9'), ('C2', 'N9')])
    mod('FIRST', [('S9', ('S9', N, 'S')), ('O1', ('O1', A, None)), ('F9', ('F9', N, 'F'))], [('S9', 'O1'), ('S9', 'F9')])
    mod('NOA', [('P1', ('P1', N, 'P')), ('P2', ('P2', N, 'P'))], [('P1', 'P2')])
    mod('BADA', [('C1', ('C1', A, None)), ('O1', ('O1', A, None)), ('P1', ('P1', N, 'P'))], [('C1', 'O1'), ('C1', 'P1')])
    mod('BADB', [('C1', ('C1', A, None)), ('C2', ('C2', A, None)), ('P1', ('P1', N, 'P'))], [('C1', 'P1')])
    mod('NOANCH', [('QQ', ('QQ', A, None)), ('P1', ('P1', N, 'P'))], [('QQ', 'P1')])
    mod('DUP', [('a', ('C1', A, None)), ('b', ('C1', A, None)), ('P1', ('P1', N, 'P'))], [('a', 'P1')])
    return ff, dict(ff.blocks)


def get_ff(name):
    return synth_ff() if name == 'synth' else FFS[name]


def mod_fits(block, mod):
    """independent statement of when a modification can be laid on a block: every anchor has exactly one namesake,
    no two anchors share one, and two anchors are bonded in the modification iff their namesakes are in the block"""
    by = {}
    for n in block.nodes:
        by.setdefault(block.nodes[n].get('atomname'), []).append(n)
    anchors = [n for n in mod.nodes if not mod.nodes[n].get('PTM_atom')]
    img = {}
    for a in anchors:
        c = by.get(mod.nodes[a].get('atomname'), [])
        if len(c) != 1:
            return False
        img[a] = c[0]
    if len(set(img.values())) != len(img):
        return False
    return all(mod.has_edge(a, b) == block.has_edge(img[a], img[b]) for a, b in itertools.combinations(anchors, 2))


# ----------------------------------------------------------------------------
# presentations
# ----------------------------------------------------------------------------
def elcode(el):
    return int.from_bytes(str(el).encode('utf-8'), 'big')


def val(v):
    if v is None or isinstance(v, (str, int, float, bool)):
        return repr(v)
    if isinstance(v, (list, tuple)):
        return ('[%s]' if isinstance(v, list) else '(%s)') % ', '.join(val(x) for x in v)
    return '<%s %s>' % (type(v).__name__, getattr(v, 'name', ''))


def expected_patch(block, mods):
    """What the modification DECLARES, stated independently of _patch_modification: the block plus the
    modification's PTM atoms, each bond of the modification that touches a PTM atom present between the
    namesakes.  Nodes are keyed by atom name.  Returns None when the modification does not apply cleanly
    (anchor name absent / anchor bonds differ / name clash / residue name restriction)."""
    g = nx.Graph()
    for n in block.nodes:
        d = block.nodes[n]
        g.add_node(d['atomname'], atomname=d['atomname'], element=d['element'], ptm=False)
    for u, v in block.edges:
        g.add_edge(block.nodes[u]['atomname'], block.nodes[v]['atomname'])
    for mod in mods:
        nm = {n: mod.nodes[n].get('atomname') for n in mod.nodes}
        new = [n for n in mod.nodes if mod.nodes[n].get('PTM_atom')]
        anchors = [n for n in mod.nodes if not mod.nodes[n].get('PTM_atom')]
        if not new or not anchors or None in nm.values() or len(set(nm.values())) != len(nm):
            return None
        if any(mod.nodes[n].get('resname') not in (None, block.name) for n in mod.nodes):
            return None
        if any(nm[n] not in g for n in anchors) or any(nm[n] in g for n in new):
            return None
        if any(mod.nodes[n].get('element') is None for n in new):
            return None
        for a, b in itertools.combinations(anchors, 2):
            if mod.has_edge(a, b) != g.has_edge(nm[a], nm[b]):
                return None
        for n in new:
            g.add_node(nm[n], atomname=nm[n], element=mod.nodes[n]['element'], ptm=True)
        for u, v in mod.edges:
            if u in new or v in new:
                g.add_edge(nm[u], nm[v])
    g.name = block.name
    return g


def applicable_mods(ffname):
    """[(block name, modification name)] for every shipped single-residue modification and every amino-acid
    block it applies to"""
    ff, good = FFS[ffname]
    out = []
    for mname in sorted(ff.modifications):
        mod = ff.modifications[mname]
        for b in AA:
            if b in good and expected_patch(good[b], [mod]) is not None:
                out.append((b, mname))
    return out


AA = ['GLY', 'ALA', 'SER', 'VAL', 'LEU', 'ILE', 'THR', 'ASP', 'ASN', 'GLU', 'GLN', 'LYS', 'ARG', 'PHE', 'TYR',
      'TRP', 'HSD', 'HSE', 'HSP', 'HIS', 'HID', 'HIE', 'HIP', 'MET', 'CYS', 'PRO', 'LYN', 'ASH', 'GLH']


def present(spec):
    """spec (JSON-able dict) -> Molecule.  Residues: list of dicts
       {ff, block, names: keep|x|shuffle|swap, perm, missing, extra, mutate?, modify?, seed}; keys: dense|sparse|random"""
    ffcache = {}

    def ffof(name):
        if name not in ffcache:
            ffcache[name] = get_ff(name)
        return ffcache[name]

    ff = ffof(spec['residues'][0]['ff'])[0]
    mol = Molecule(force_field=ff)
    rng = random.Random(spec['seed'])
    keymode = spec.get('keys', 'dense')
    used = set()
    nextkey = [rng.choice([0, 1, 7])]

    def fresh():
        if keymode == 'dense':
            k = nextkey[0]
            nextkey[0] += 1
        elif keymode == 'sparse':
            k = nextkey[0]
            nextkey[0] += rng.randint(1, 4)
        else:
            k = rng.randint(0, 400)
            while k in used:
                k = rng.randint(0, 400)
        used.add(k)
        return k

    info = []
    prev_heavy = None
    atomid = 0
    for ridx, rs in enumerate(spec['residues']):
        block = ffof(rs['ff'])[1][rs['block']]
        if rs.get('with_mod'):
            # the residue is presented WITH the atoms of the requested modification(s)
            block = expected_patch(block, [ffof(rs['ff'])[0].modifications[m] for m in rs['modify']])
            if block is None:
                raise KeyError('modification %s does not apply to %s' % (rs['modify'], rs['block']))
        nodes = list(block.nodes)
        order = nodes[:]
        if rs.get('perm') == 'element':
            # atoms grouped by element (stable): two isomers then look alike until the bonds are read
            order.sort(key=lambda n: block.nodes[n]['element'])
        elif rs.get('perm'):
            rng.shuffle(order)
        names = {n: block.nodes[n]['atomname'] for n in nodes}
        mode = rs.get('names', 'keep')
        if mode == 'x':
            names = {n: 'X%d' % (i + 1) for i, n in enumerate(order)}
        elif mode == 'shuffle':
            by_el = {}
            for n in nodes:
                by_el.setdefault(block.nodes[n]['element'], []).append(n)
            for el, ns in sorted(by_el.items()):
                perm = [names[n] for n in ns]
                rng.shuffle(perm)
                for n, nm in zip(ns, perm):
                    names[n] = nm
        elif mode == 'swap' and len(nodes) >= 2:
            a, b = rng.sample(nodes, 2)
            names[a], names[b] = names[b], names[a]
        elif mode == 'swapdeg':
            # the names of two atoms of the same element with the same number of bonds (but not interchangeable in the
            # block) are exchanged: everything about the residue matches the block name by name, except the bonds
            cands = [(a, b) for a, b in itertools.combinations(nodes, 2)
                     if block.nodes[a]['element'] == block.nodes[b]['element'] and block.degree[a] == block.degree[b]
                     and set(block[a]) - {b} != set(block[b]) - {a}]
            if cands:
                a, b = rng.choice(cands)
                names[a], names[b] = names[b], names[a]
        elif mode == 'dup' and len(nodes) >= 2:
            # two atoms carry the same name (ties in the sort of make_reference)
            a, b = rng.sample(nodes, 2)
            names[b] = names[a]
        removed = set(rng.sample(nodes, min(rs.get('missing', 0), max(len(nodes) - 1, 0))))
        if rs.get('missing_h'):
            hs = [n for n in nodes if block.nodes[n]['element'] == 'H' and n not in removed]
            removed |= set(rng.sample(hs, min(rs['missing_h'], len(hs))))
        if rs.get('missing_ptm'):
            ps = [n for n in nodes if block.nodes[n].get('ptm') and n not in removed]
            removed |= set(rng.sample(ps, min(rs['missing_ptm'], len(ps))))
        key = {}
        resid = ridx + 1 + spec.get('resid0', 0)
        common = dict(resname=rs.get('resname', rs['block']), resid=resid, chain='A')
        if rs.get('mutate'):
            common['mutation'] = list(rs['mutate']) if isinstance(rs['mutate'], list) else [rs['mutate']]
        if rs.get('modify'):
            common['modification'] = list(rs['modify'])
        for n in order:
            if n in removed:
                continue
            atomid += 1
            k = fresh()
            key[n] = k
            mol.add_node(k, atomname=names[n], element=block.nodes[n]['element'], atomid=atomid,
                         position=np.array([float(atomid), 0.0, 0.0]), **copy.deepcopy(common))
        for u, v in block.edges:
            if u in key and v in key:
                mol.add_edge(key[u], key[v])
        # atoms without element / atom name (make_reference guesses the element from the first letter of the name and
        # sorts nameless atoms last)
        present_nodes = [n for n in order if n in key]
        guessable = [n for n in present_nodes if isinstance(names[n], str) and
                     next((c for c in names[n] if c in string.ascii_letters), None) == block.nodes[n]['element']]
        for n in rng.sample(guessable, min(rs.get('noelem', 0), len(guessable))):
            del mol.nodes[key[n]]['element']
        for n in rng.sample(present_nodes, min(rs.get('noname', 0), len(present_nodes))):
            del mol.nodes[key[n]]['atomname']
        for n in rng.sample(present_nodes, min(rs.get('nonename', 0), len(present_nodes))):
            if 'element' in mol.nodes[key[n]]:
                mol.nodes[key[n]]['atomname'] = None
        if rs.get('unguessable') and present_nodes:
            n = rng.choice(present_nodes)
            mol.nodes[key[n]].pop('element', None)
            if rs['unguessable'] == 'digit':
                mol.nodes[key[n]]['atomname'] = '123'
            elif rs['unguessable'] == 'absent':
                mol.nodes[key[n]].pop('atomname', None)
            else:
                mol.nodes[key[n]]['atomname'] = None
        heavy = [key[n] for n in order if n in key and block.nodes[n]['element'] != 'H'] or list(key.values())
        extras = []
        for i in range(rs.get('extra', 0)):
            atomid += 1
            k = fresh()
            el = rng.choice(['C', 'N', 'O', 'H', 'P', 'S'])
            mol.add_node(k, atomname='%sX%d' % (el, i), element=el, atomid=atomid,
                         position=np.array([float(atomid), 0.0, 0.0]), **copy.deepcopy(common))
            mol.add_edge(k, rng.choice(heavy + extras))
            extras.append(k)
        if prev_heavy and heavy and rs.get('link', True):
            mol.add_edge(rng.choice(prev_heavy), rng.choice(heavy))
        prev_heavy = heavy or prev_heavy
        info.append(dict(key=key, removed=removed, extras=extras, block=block, resid=resid, spec=rs,
                         ff=ffof(rs['ff'])[0], good=ffof(rs['ff'])[1]))
    return mol, info


# ----------------------------------------------------------------------------
# running the real code
# ----------------------------------------------------------------------------
class LogSpy(logging.Handler):
    def __init__(self):
        super().__init__(level=1)
        self.records = []

    def emit(self, record):
        self.records.append((record.levelno, getattr(record, 'type', None), record.getMessage()))


NONAME = '\uffff'   # what make_reference itself puts for a missing atom name (get_default)


def atom_enc(key, d):
    attrs = [[k, val(v)] for k, v in d.items() if k not in SKIP_ATTRS]
    name = d.get('atomname')
    return [key, NONAME if name is None else name, elcode(d.get('element')), attrs,
            None if 'PTM_atom' not in d else int(bool(d['PTM_atom']))]


def snapshot_reference(mol, rg):
    """state right after make_reference: the input of the model"""
    residues = []
    for residx in rg.nodes:
        node = rg.nodes[residx]
        ref = node['reference']
        idx = {n: i for i, n in enumerate(ref.nodes)}
        bnodes = [atom_enc(idx[n], ref.nodes[n]) for n in ref.nodes]
        bedges = [[idx[u], idx[v]] for u, v in ref.edges]
        found = sorted(node['found'].nodes)
        match = [[idx[r], k] for r, k in node['match'].items()]
        common = [[k, val(v)] for k, v in node.items() if k not in RES_EXCLUDED and k not in SKIP_ATTRS]
        residues.append(dict(bnodes=bnodes, bedges=bedges, found=found, match=match, common=common,
                             idx=idx, ref=ref, node=node, resid=node.get('resid'), residx=residx))
    nodes = [atom_enc(k, mol.nodes[k]) for k in mol.nodes]
    edges = [[u, v] for u, v in mol.edges]
    return dict(nodes=nodes, edges=edges, residues=residues, kept=list(rg.nodes),
                rg_edges=sorted(sorted(e) for e in rg.edges))


def canon_events(records):
    out = []
    for lvl, typ, msg in records:
        if typ != 'missing-atom':
            continue
        if msg.startswith('Missing atom '):
            out.append(['missing', msg.rsplit(':', 1)[1], lvl == 5])
        elif msg.startswith('Adding '):
            out.append(['adding', msg.rsplit(':', 1)[1], lvl == 5])
        elif msg.startswith('Could not reconstruct atom '):
            out.append(['lost', msg.rsplit(':', 1)[1]])
        else:
            out.append(['other', msg])
    return out


def name_state(d):
    """protocol form of the 'atomname' entry: 0 = no such key, None = None, else the string"""
    if 'atomname' not in d:
        return 0
    return d['atomname']


def block_snapshot(blk):
    idx = {n: i for i, n in enumerate(blk.nodes)}
    return dict(nodes=[atom_enc(idx[n], blk.nodes[n]) for n in blk.nodes],
                edges=sorted(sorted((idx[u], idx[v])) for u, v in blk.edges),
                names=[blk.nodes[n].get('atomname') for n in blk.nodes])


class RefSpy:
    """records what make_reference does around the matcher: the reference _get_reference_residue returns, the
    graphs before add_element_attr, the relabelling dictionaries, the graphs / node predicate / cache handed to
    ISMAGS and the answers ISMAGS yields, in order"""

    def __init__(self):
        self.getref, self.addel, self.relabels, self.ismags = [], [], [], []
        self.orig = (RG._get_reference_residue, RG.add_element_attr, RG.nx, RG.ISMAGS)
        spy = self
        o_getref, o_addel, o_nx, o_ismags = self.orig

        def getref(residue, force_field):
            rec = dict(resname=residue.get('resname'),
                       mutation=list(residue['mutation']) if 'mutation' in residue else None,
                       modification=list(residue['modification']) if 'modification' in residue else None)
            spy.getref.append(rec)
            try:
                blk = o_getref(residue, force_field)
            except Exception as err:
                rec['error'] = err
                raise
            rec['block'] = block_snapshot(blk)
            return blk

        def addel(graph):
            spy.addel.append(dict(residx=len(spy.getref) - 1,
                                  nodes=[(n, name_state(graph.nodes[n]), graph.nodes[n].get('element'),
                                          'element' in graph.nodes[n]) for n in graph.nodes],
                                  edges=[(u, v) for u, v in graph.edges]))
            return o_addel(graph)

        class NxProxy:
            def __getattr__(self, name):
                return getattr(o_nx, name)

            def relabel_nodes(self, G, mapping, copy=True):
                spy.relabels.append((list(G.nodes), list(mapping.items()), len(spy.getref) - 1))
                return o_nx.relabel_nodes(G, mapping, copy=copy)

        class SpyISMAGS(o_ismags):
            def __init__(self, graph, subgraph, node_match=None, edge_match=None, cache=None):
                super().__init__(graph, subgraph, node_match=node_match, edge_match=edge_match, cache=cache)
                self._rec = None
                if cache is not None:       # the call of make_reference (the one of _patch_modification has no cache)
                    self._rec = dict(graph=graph, subgraph=subgraph, node_match=node_match, cache=cache, answers=[],
                                     exhausted=False, gen=None, residx=len(spy.getref) - 1)
                    spy.ismags.append(self._rec)

            def largest_common_subgraph(self, symmetry=True):
                inner = super().largest_common_subgraph(symmetry)
                rec = self._rec
                if rec is None:
                    return inner

                def wrapped():
                    for a in inner:
                        rec['answers'].append(list(a.items()))
                        yield a
                    rec['exhausted'] = True
                rec['gen'] = wrapped()
                return rec['gen']

        self.patch = (getref, addel, NxProxy(), SpyISMAGS)

    def of_residue(self, i):
        """(graphs before add_element_attr, relabelling calls, matcher call) recorded while residue i was processed"""
        ad = [a for a in self.addel if a['residx'] == i]
        rl = [r for r in self.relabels if r[2] == i]
        im = [r for r in self.ismags if r['residx'] == i]
        return ad, rl, (im[0] if len(im) == 1 else None), len(im)

    def __enter__(self):
        RG._get_reference_residue, RG.add_element_attr, RG.nx, RG.ISMAGS = self.patch
        return self

    def __exit__(self, *a):
        RG._get_reference_residue, RG.add_element_attr, RG.nx, RG.ISMAGS = self.orig


def run_real(mol, include_graph):
    """-> dict(status, snap, out, events, matches)"""
    captured = {}
    orig = RG.make_reference
    refspy = RefSpy()

    def spy(m):
        rg = orig(m)
        captured['snap'] = snapshot_reference(m, rg)
        captured['rg'] = rg
        return rg

    lg = logging.getLogger('vermouth')
    old_handlers, old_level, old_prop = lg.handlers[:], lg.level, lg.propagate
    spyh = LogSpy()
    lg.handlers[:] = [spyh]
    lg.setLevel(1)
    lg.propagate = False
    RG.make_reference = spy
    res = dict(status='ok')
    t0 = time.time()
    try:
        try:
            arm(CASE_TIMEOUT)
            with refspy:
                out = RG.RepairGraph(include_graph=include_graph).run_molecule(mol)
            disarm()
            res['out'] = out
        finally:
            disarm()
    except CaseTimeout:
        disarm()
        refspy.__exit__()
        res['status'] = 'timeout'
        res.pop('out', None)
    except Exception as err:  # noqa
        disarm()
        res['status'] = 'error:%s:%s' % (type(err).__name__, str(err)[:200])
    finally:
        disarm()
        RG.make_reference = orig
        lg.handlers[:] = old_handlers
        lg.setLevel(old_level)
        lg.propagate = old_prop
    res['dt'] = time.time() - t0
    res['snap'] = captured.get('snap')
    res['rg'] = captured.get('rg')
    res['records'] = spyh.records
    res['spy'] = refspy
    return res


def canon_result(res):
    out = res['out']
    snap = res['snap']
    nodes = [atom_enc(k, out.nodes[k]) for k in out.nodes]
    edges = sorted(set((min(u, v), max(u, v)) for u, v in out.edges))
    matches = []
    for r, residx in zip(snap['residues'], res['rg'].nodes):
        m = res['rg'].nodes[residx]['match']
        matches.append([[r['idx'][a], k] for a, k in m.items()])
    events = canon_events(res['records'])
    return ' '.join([enc(nodes), enc([list(e) for e in edges]), enc(matches), enc(events)])


# ----------------------------------------------------------------------------
# the oracle: the property stated on the result of the real code
# ----------------------------------------------------------------------------
def oracle(mol_in, info, res):
    """mol_in: the presented molecule; info: per residue what the generator did; res: run_real result"""
    errs = []
    out = res['out']
    snap = res['snap']
    records = res['records']
    lost_logged = {msg.rsplit(':', 1)[1] for lvl, typ, msg in records
                   if typ == 'missing-atom' and msg.startswith('Could not reconstruct')}
    by_resid = {r['resid']: r for r in snap['residues']}
    for inf in info:
        if inf['resid'] not in by_resid:
            errs.extend('residue %s (%s): %s' % (inf['resid'], inf['spec']['block'], e)
                        for e in oracle_skipped(mol_in, inf, out, records))
            continue
        rsnap = by_resid[inf['resid']]
        ref = rsnap['ref']          # the reference actually used (mutated / modified block)
        resid = inf['resid']
        bname = {ref.nodes[n]['atomname']: n for n in ref.nodes}
        atoms = [k for k in out.nodes if out.nodes[k].get('resid') == resid]
        recog = [k for k in atoms if not out.nodes[k].get('PTM_atom')]
        flagged = [k for k in atoms if out.nodes[k].get('PTM_atom')]
        names = [out.nodes[k].get('atomname') for k in recog]
        tag = 'residue %s (%s): ' % (resid, inf['spec']['block'])
        sp = inf['spec']
        if sp.get('modify') and not sp.get('mutate'):
            errs.extend(tag + e for e in oracle_modified(mol_in, inf, rsnap, out, atoms))
        # (1) names unique among recognised atoms
        dup = sorted({n for n in names if names.count(n) > 1})
        if dup:
            errs.append(tag + 'canonical names not unique among recognised atoms: %s' % dup)
            continue
        # (2) the name assignment is an element-preserving, induced embedding into the block
        bad = [n for n in names if n not in bname]
        if bad:
            errs.append(tag + 'recognised atoms carry names that are not block atom names: %s' % bad[:5])
            continue
        for k in recog:
            bn = bname[out.nodes[k]['atomname']]
            if out.nodes[k].get('element') != ref.nodes[bn].get('element'):
                errs.append(tag + 'atom %s named %s has element %s, block says %s'
                            % (k, out.nodes[k]['atomname'], out.nodes[k].get('element'), ref.nodes[bn].get('element')))
            if k in mol_in.nodes and (mol_in.nodes[k].get('element') or first_letter(mol_in.nodes[k].get('atomname'))) \
                    != out.nodes[k].get('element'):
                errs.append(tag + 'input atom %s of element %s was recognised as %s (%s)'
                            % (k, mol_in.nodes[k].get('element'), out.nodes[k]['atomname'], out.nodes[k].get('element')))
        for a, b in itertools.combinations(recog, 2):
            ba, bb = bname[out.nodes[a]['atomname']], bname[out.nodes[b]['atomname']]
            if out.has_edge(a, b) != ref.has_edge(ba, bb):
                errs.append(tag + 'atoms %s,%s named %s,%s are %sbonded but the block atoms are %sbonded'
                            % (a, b, out.nodes[a]['atomname'], out.nodes[b]['atomname'],
                               '' if out.has_edge(a, b) else 'not ', '' if ref.has_edge(ba, bb) else 'not '))
                break
        # (3) every block atom is present afterwards (bonded as in the block by (2))
        originally = [k for k in recog if k in mol_in.nodes]
        # (block atoms contributed by a requested modification are marked PTM_atom by the reference itself)
        absent = sorted({nm for nm, n in bname.items() if not ref.nodes[n].get('PTM_atom')} - set(names))
        if absent:
            comp_ok = True
            for comp in nx.connected_components(ref):
                cnames = {ref.nodes[n]['atomname'] for n in comp}
                if cnames & {out.nodes[k]['atomname'] for k in originally}:
                    if cnames & set(absent):
                        comp_ok = False
                else:
                    # a component without any recognised input atom cannot be placed: must be reported
                    if not cnames & set(absent) <= lost_logged:
                        errs.append(tag + 'block atoms %s neither present nor reported' % sorted(cnames & set(absent) - lost_logged)[:5])
            if not comp_ok:
                errs.append(tag + 'block atoms %s missing after the repair although a bonded partner is present' % absent[:6])
        # atoms of the input never vanish silently: present, or flagged+requested (removed on purpose)
        for k in inf['key'].values():
            if k not in out.nodes:
                if not (mol_in.nodes[k].get('mutation') or mol_in.nodes[k].get('modification')):
                    errs.append(tag + 'input atom %s vanished' % k)
        # (4) flagged only beyond a largest match; the maximum where it is known by construction
        n_in = len(inf['key']) + len(inf['extras'])
        n_rec = len(originally)
        gone = [k for k in list(inf['key'].values()) + inf['extras'] if k not in out.nodes]
        n_unrec = len([k for k in flagged if k in mol_in.nodes]) + len(gone)
        if n_rec + n_unrec != n_in:
            errs.append(tag + 'recognised (%d) + unrecognised (%d) != atoms presented (%d)' % (n_rec, n_unrec, n_in))
        sp = inf['spec']
        same_block = not sp.get('mutate') and not sp.get('modify') and sp.get('resname', sp['block']) == sp['block']
        if same_block and not inf['extras']:
            # the residue is (isomorphic to) an induced subgraph of the block: nothing may be flagged
            if n_unrec:
                errs.append(tag + 'presentation is an induced subgraph of the block but %d atoms are unrecognised' % n_unrec)
        if same_block and not inf['extras'] and not inf['removed']:
            added = [k for k in atoms if k not in mol_in.nodes]
            if added:
                errs.append(tag + 'pure renaming/permutation but atoms %s were added' % added)
            if sorted(names) != sorted(bname):
                errs.append(tag + 'pure renaming/permutation does not come back with exactly the block names')
        if same_block and inf['extras'] and n_rec < len(inf['key']):
            # the block part of the presentation is itself a common induced subgraph
            errs.append(tag + 'match recognises %d atoms, the block part of the presentation has %d' % (n_rec, len(inf['key'])))
        # the recorded match itself (what the model was given)
        m = dict((r, k) for r, k in rsnap['match'])
        if len(set(m.values())) != len(m):
            errs.append(tag + 'match of make_reference is not injective')
    return errs


def oracle_skipped(mol_in, inf, out, records):
    """a residue make_reference found no match for (it is not in the reference graph): allowed only when residue and
    reference have no element in common; the residue must come back untouched and the failure must be logged"""
    errs = []
    sp = inf['spec']
    mu = sp.get('mutate')
    target = (mu[0] if isinstance(mu, list) else mu) if mu else sp.get('resname', sp['block'])
    ref = inf['ff'].blocks.get(target)
    keys = list(inf['key'].values()) + list(inf['extras'])
    if ref is not None and not sp.get('modify'):
        rel = {ref.nodes[n].get('element') or first_letter(ref.nodes[n].get('atomname')) for n in ref.nodes}
        mel = {mol_in.nodes[k].get('element') or first_letter(mol_in.nodes[k].get('atomname')) for k in keys}
        if rel & mel:
            errs.append('no match at all was found although residue and reference share the elements %s' % sorted(rel & mel))
    if not any(typ == 'inconsistent-data' and lvl >= 40 for lvl, typ, msg in records):
        errs.append('residue without match: no error of type inconsistent-data was logged')
    for k in keys:
        if k not in out.nodes:
            errs.append('residue without reference match: atom %s vanished' % k)
            continue
        a, b = mol_in.nodes[k], out.nodes[k]
        ka = [x for x in a if x not in ('position', 'graph')]
        kb = [x for x in b if x not in ('position', 'graph')]
        if ka != kb or any(a[x] != b[x] for x in ka):
            errs.append('residue without reference match: atom %s changed from %s to %s'
                        % (k, {x: a[x] for x in ka}, {x: b[x] for x in kb}))
        if set(out[k]) != set(mol_in[k]):
            errs.append('residue without reference match: bonds of atom %s changed' % k)
    added = [k for k in out.nodes if k not in mol_in.nodes and out.nodes[k].get('resid') == inf['resid']]
    if added:
        errs.append('residue without reference match: atoms %s were added' % added)
    return errs


def ref_by_name(ref):
    names = sorted(ref.nodes[n]['atomname'] for n in ref.nodes)
    edges = sorted(tuple(sorted((ref.nodes[u]['atomname'], ref.nodes[v]['atomname']))) for u, v in ref.edges)
    return names, edges


def oracle_modified(mol_in, inf, rsnap, out, atoms):
    """requested modifications: the reference must be the block patched AS THE MODIFICATION DECLARES (every
    added atom bonded to its anchor), and a residue presented with the modification's atoms comes back
    complete, with exactly the modification's atoms marked and bonded as declared"""
    errs = []
    sp = inf['spec']
    ff, good = inf['ff'], inf['good']
    want = expected_patch(good[sp['block']], [ff.modifications[m] for m in sp['modify'] if m != 'none'])
    if want is None:
        return errs
    ref = rsnap['ref']
    rn, re_ = ref_by_name(ref)
    wn = sorted(want.nodes)
    we = sorted(tuple(sorted(e)) for e in want.edges)
    if rn != wn:
        errs.append('reference for modification %s has atoms %s, declared %s'
                    % (sp['modify'], sorted(set(rn) ^ set(wn)), 'differ'))
    if re_ != we:
        errs.append('reference for modification %s: bonds %s are declared by block+modification but %s'
                    % (sp['modify'], sorted(set(we) - set(re_))[:4], 'absent from the patched reference'
                       if set(we) - set(re_) else 'reference has extra bonds %s' % sorted(set(re_) - set(we))[:4]))
    if not sp.get('with_mod') or inf['extras']:
        return errs
    # the presented residue is block + modification (possibly minus some atoms): afterwards it is all there
    names = sorted(out.nodes[k].get('atomname') for k in atoms)
    if names != wn:
        errs.append('modified residue comes back with atoms %s instead of block+modification (differences: %s)'
                    % (names[:40], sorted(set(names) ^ set(wn))))
        return errs
    byname = {out.nodes[k]['atomname']: k for k in atoms}
    oe = sorted(tuple(sorted((out.nodes[u]['atomname'], out.nodes[v]['atomname'])))
                for u, v in out.edges if u in byname.values() and v in byname.values())
    if oe != we:
        errs.append('modified residue: bonds missing %s / unexpected %s w.r.t. block+modification'
                    % (sorted(set(we) - set(oe))[:4], sorted(set(oe) - set(we))[:4]))
    flagged = sorted(n for n, k in byname.items() if out.nodes[k].get('PTM_atom'))
    declared = sorted(n for n in want.nodes if want.nodes[n]['ptm'])
    if flagged != declared:
        errs.append('modified residue: atoms marked PTM_atom %s, the modification adds %s' % (flagged, declared))
    added = [k for k in atoms if k not in mol_in.nodes]
    if len(added) != len(inf['removed']):
        errs.append('modified residue: %d atoms added, %d were missing' % (len(added), len(inf['removed'])))
    for k in inf['key'].values():
        if k not in out.nodes:
            errs.append('modified residue: input atom %s vanished' % k)
    return errs


def patch_line(sp):
    """protocol line for the Lean model of _patch_modification (shared with C19): unpatched block + modifications"""
    ff, good = get_ff(sp['ff'])
    blk = good[sp['block']]
    idx = {n: i for i, n in enumerate(blk.nodes)}
    bn = [atom_enc(idx[n], blk.nodes[n]) for n in blk.nodes]
    be = [[idx[u], idx[v]] for u, v in blk.edges]
    mods = []
    for m in sp['modify']:
        if m == 'none':
            continue
        mod = ff.modifications[m]
        mi = {n: i for i, n in enumerate(mod.nodes)}
        mods.append([[atom_enc(mi[n], dict(mod.nodes[n], element=mod.nodes[n].get('element', 'X'))) for n in mod.nodes],
                     [[mi[u], mi[v]] for u, v in mod.edges]])
    return line('patch', bn, be, mods)


def mcis_line(rsnap, snap):
    """protocol line for the Lean reference: residue graph (target) and block graph (pattern)"""
    found = set(rsnap['found'])
    gn = [[a[0], a[2]] for a in snap['nodes'] if a[0] in found]
    ge = [e for e in snap['edges'] if e[0] in found and e[1] in found]
    sn = [[a[0], a[2]] for a in rsnap['bnodes']]
    # pattern nodes in BFS order (pruning)
    return line('mcis', gn, ge, bfs_order(sn, rsnap['bedges']), rsnap['bedges'])


def bfs_order(nodes, edges):
    adj = {n[0]: [] for n in nodes}
    for u, v in edges:
        adj[u].append(v)
        adj[v].append(u)
    col = dict((n[0], n[1]) for n in nodes)
    seen, order = set(), []
    for s in sorted(adj, key=lambda n: (-len(adj[n]), n)):
        if s in seen:
            continue
        q = [s]
        seen.add(s)
        while q:
            n = q.pop(0)
            order.append([n, col[n]])
            for nb in adj[n]:
                if nb not in seen:
                    seen.add(nb)
                    q.append(nb)
    return order



# ----------------------------------------------------------------------------
# make_reference / _get_reference_residue / the whole pipeline against their Lean models
# ----------------------------------------------------------------------------
from vermouth.graph_utils import make_residue_graph
from vermouth.ismags import ISMAGS as REAL_ISMAGS

NONE_CODE = elcode(None)      # stands for "no element attribute" in the pipeline encoding


def enc_block(blk, order=None):
    nodes = list(blk.nodes) if order is None else order
    idx = {n: i for i, n in enumerate(nodes)}
    return [[atom_enc(idx[n], blk.nodes[n]) for n in nodes], [[idx[u], idx[v]] for u, v in blk.edges]]


def first_letter(name):
    return next((c for c in name if c in string.ascii_letters), None) if isinstance(name, str) else None


def prepare_inputs(mol_in):
    """what make_residue_graph hands to make_reference, and the blocks of the force field BEFORE the run (the real
    code writes guessed elements into them)"""
    residues = make_residue_graph(mol_in)
    ff = mol_in.force_field
    reqs, blocks = [], {}
    for i in residues.nodes:
        node = residues.nodes[i]
        mutation = list(node['mutation']) if 'mutation' in node else None
        modification = list(node['modification']) if 'modification' in node else None
        target = (mutation[0] if mutation else None) if mutation is not None else node.get('resname')
        if target in ff.blocks and target not in blocks:
            blocks[target] = enc_block(ff.blocks[target]) + [len(ff.blocks[target])]
        common = [[k, val(v)] for k, v in node.items() if k not in RES_EXCLUDED and k not in SKIP_ATTRS]
        reqs.append(dict(found=list(node['graph'].nodes), resname=node.get('resname'), mutation=mutation,
                         modification=modification, common=common, target=target, resid=node.get('resid'),
                         atoms=[[n, name_state(mol_in.nodes[n]),
                                 elcode(mol_in.nodes[n]['element']) if 'element' in mol_in.nodes[n] else None]
                                for n in node['graph'].nodes],
                         edges=[[u, v] for u, v in node['graph'].edges]))
    return dict(reqs=reqs, blocks=blocks, redges=sorted(sorted(e) for e in residues.edges),
                nodes=[atom_enc(k, mol_in.nodes[k]) for k in mol_in.nodes], edges=[[u, v] for u, v in mol_in.edges])


def enc_mods(ff, req, observed_names):
    """the requested modifications; the atoms a modification adds are listed in the order in which the real code
    numbered them (iteration order of a Python set of strings), when that was observed"""
    out = []
    rest = list(observed_names or [])
    seen = set()
    for m in req['modification'] or []:
        if m == 'none' or m not in ff.modifications or m in seen:
            if m in ff.modifications and m in seen:
                k = len([n for n in ff.modifications[m].nodes if ff.modifications[m].nodes[n].get('PTM_atom')])
                rest = rest[k:]
            continue
        seen.add(m)
        mod = ff.modifications[m]
        anchors = [n for n in mod.nodes if not mod.nodes[n].get('PTM_atom')]
        new = [n for n in mod.nodes if mod.nodes[n].get('PTM_atom')]
        obs, rest = rest[:len(new)], rest[len(new):]
        if sorted(map(str, obs)) == sorted(str(mod.nodes[n].get('atomname')) for n in new):
            byname = {}
            for n in new:
                byname.setdefault(mod.nodes[n].get('atomname'), []).append(n)
            new = [byname[nm].pop(0) for nm in obs]
        out.append([m] + enc_block(mod, anchors + new))
    return out


def err_kind(status, records, where):
    """small enum for an exception of the real code"""
    kind, msg = status.split(':', 2)[1:3]
    if kind == 'ValueError' and msg.startswith('Can only mutate'):
        return 'error mutate-twice'
    if kind == 'IndexError':
        return 'error empty-mutation'
    if kind == 'ValueError' and msg.startswith('Cannot apply modification'):
        name = ''
        for lvl, typ, m in records:
            if m.startswith('Modification ') and " doesn't fit on Block " in m:
                name = m[len('Modification '):m.index(" doesn't fit on Block ")]
        return 'error does-not-fit ' + enc(name)
    if kind == 'KeyError':
        key = msg.strip("'\"")
        return ('error unknown-block ' if where == 'block' else 'error unknown-modification ') + enc(key)
    if kind == 'ValueError' and 'has no atom name' in msg:
        return 'error no-name'
    if kind == 'ValueError' and 'no alphabetic' in msg:
        return 'error no-alpha'
    if kind == 'TypeError':
        return 'error name-none'
    return 'error other ' + kind


def pull_more_answers(spy, limit=3, seconds=0.5):
    """what ISMAGS would yield after the answer make_reference took (small residues only)"""
    for rec in spy.ismags:
        if rec['gen'] is None or rec['exhausted'] or len(rec['graph']) > 12 or len(rec['subgraph']) > 14:
            continue
        try:
            try:
                arm(seconds)
                for _ in range(limit):
                    if next(rec['gen'], None) is None:
                        break
            finally:
                disarm()
        except CaseTimeout:
            disarm()
            rec['gen'] = None
            chk.count('more_answers_timeout')
        chk.count('answers_recorded=%d' % min(len(rec['answers']), 4))


def cache_transparent(spy):
    """the symmetry cache shared by the residues of a molecule does not exist in the model: the first answer must be
    the one a matcher without cache gives"""
    errs = []
    for i, rec in enumerate(spy.ismags):
        if i == 0 or len(rec['graph']) > 24 or not rec['answers'] or rec['node_match'] is None:
            continue
        try:
            try:
                arm(1.0)
                fresh = next(REAL_ISMAGS(rec['graph'], rec['subgraph'], node_match=rec['node_match']).largest_common_subgraph(), None)
            finally:
                disarm()
            chk.count('cache_transparency_checked')
            if fresh is None or list(fresh.items()) != rec['answers'][0]:
                errs.append('residue #%d: with the symmetry cache shared in the molecule the matcher answered %s, '
                            'without cache %s' % (i, rec['answers'][0], fresh))
        except CaseTimeout:
            disarm()
            chk.count('cache_transparency_timeout')
        if any(r['cache'] is not spy.ismags[0]['cache'] for r in spy.ismags):
            errs.append('the residues of one molecule do not share one symmetry cache')
    return errs


def graph_enc(g):
    return [[[n, elcode(g.nodes[n].get('element'))] for n in g.nodes], sorted(sorted(e) for e in g.edges)]


def ref_lines(mol_in, pre, res):
    """-> [(case kind, protocol line, canonical string of what the real code did)]"""
    out = []
    spy, snap, status = res['spy'], res['snap'], res['status']
    ff = mol_in.force_field
    failed = status.startswith('error')
    by_residx = {r['residx']: r for r in snap['residues']} if snap else {}
    mods_all, seen_mods = [], set()
    for i, req in enumerate(pre['reqs']):
        if i >= len(spy.getref):
            break
        g = spy.getref[i]
        base = pre['blocks'].get(req['target'])
        observed = g['block']['names'][base[2]:] if 'block' in g and base else None
        mods = enc_mods(ff, req, observed)
        for m in mods:
            if m[0] not in seen_mods:
                seen_mods.add(m[0])
                mods_all.append(m)
        ln = line('getref', req['resname'], req['mutation'], req['modification'],
                  [[req['target']] + base[:2]] if base else [], mods)
        if 'error' in g:
            where = 'block' if req['target'] not in ff.blocks else 'modification'
            impl = err_kind(status, res['records'], where)
        else:
            impl = enc(g['block']['nodes']) + ' ' + enc(g['block']['edges'])
        out.append(('getref-%d' % i, ln, impl))
        ad, rl, rec, ncalls = spy.of_residue(i)
        if 'error' in g or not ad:
            break
        refpre = ad[0]
        idx = {n[0]: j for j, n in enumerate(refpre['nodes'])}
        refatoms = [[idx[n], nm, elcode(el) if has else None] for n, nm, el, has in refpre['nodes']]
        refedges = [[idx[u], idx[v]] for u, v in refpre['edges']]
        answers = [[[a, b] for a, b in ans] for ans in rec['answers']] if rec else []
        req['answers'] = answers
        ln = line('mkref', req['atoms'], req['edges'], refatoms, refedges, answers)
        if rec is None or len(rl) != 2:
            if failed and i == len(spy.getref) - 1:
                impl = err_kind(status, res['records'], '')
            else:
                # make_reference went on without asking the matcher exactly once through the relabelled graphs
                impl = 'matcher-calls=%d relabellings=%d match=%s' % (ncalls, len(rl), by_residx[i]['match'] if i in by_residx else None)
        else:
            rl_res, rl_ref = rl
            matrix = [''.join('1' if rec['node_match'](rec['graph'].nodes[a], rec['subgraph'].nodes[b]) else '0'
                              for b in rec['subgraph'].nodes) for a in rec['graph'].nodes]
            sub, gr = graph_enc(rec['subgraph']), graph_enc(rec['graph'])
            if i in by_residx:
                match = by_residx[i]['match']
            else:
                match = None      # no answer: the residue was skipped
            impl = ' '.join([enc([k for k, _ in rl_res[1]]), enc([idx[k] for k, _ in rl_ref[1]]),
                             enc(sub[0]), enc(sub[1]), enc(gr[0]), enc(gr[1]), enc(matrix)]
                            + ([enc(match)] if not failed else ['*']))
        out.append(('mkref-%d' % i, ln, impl))
        if rec is None and failed and i == len(spy.getref) - 1:
            break
    # the whole pipeline
    if status == 'ok' or failed:
        reqs = [[r['found'], r['resname'], r['mutation'], r['modification'], r['common'], r.get('answers', [])]
                for r in pre['reqs']]
        ln = line('pipeline', pre['nodes'], pre['edges'], [[n] + b[:2] for n, b in pre['blocks'].items()], mods_all,
                  reqs, pre['redges'])
        if status == 'ok':
            impl = canon_result(res) + ' ' + enc(snap['kept']) + ' ' + enc(snap['rg_edges'])
        else:
            i = len(spy.getref) - 1
            g = spy.getref[i] if i >= 0 else {}
            where = 'block' if i >= 0 and pre['reqs'][i]['target'] not in ff.blocks else 'modification'
            kind = err_kind(status, res['records'], where)
            if kind in ('error no-name', 'error no-alpha', 'error name-none'):
                kind = 'error no-element'
            impl = 'residue %d %s' % (i, kind)
        out.append(('pipeline', ln, impl))
    return out


def mcis_lines(mol_in, pre, res):
    """-> [(residue index, number of answers, protocol line)]: is every recorded answer (mapped back) a maximum common
    induced subgraph of residue and reference on element colours, according to the Lean reference?"""
    out = []
    spy, snap = res['spy'], res['snap']
    by_residx = {r['residx']: r for r in snap['residues']}
    for i, req in enumerate(pre['reqs']):
        ad, rl, rec, ncalls = spy.of_residue(i)
        if rec is None or len(rl) != 2:
            continue
        if len(rec['graph']) > 10 or len(rec['subgraph']) > 13:
            continue
        old_res = {new: old for old, new in rl[0][1]}
        refnodes = rl[1][0]
        idx = {n: j for j, n in enumerate(refnodes)}
        old_ref = {new: idx[old] for old, new in rl[1][1]}
        gn = [[old_res[n], elcode(rec['subgraph'].nodes[n].get('element'))] for n in rec['subgraph'].nodes]
        ge = [[old_res[u], old_res[v]] for u, v in rec['subgraph'].edges]
        sn = [[old_ref[n], elcode(rec['graph'].nodes[n].get('element'))] for n in rec['graph'].nodes]
        se = [[old_ref[u], old_ref[v]] for u, v in rec['graph'].edges]
        sn = bfs_order(sn, se)
        out.append((i, len(rec['answers']),
                    line('mcismem', gn, ge, sn, se, [[[old_ref[a], old_res[b]] for a, b in ans] for ans in rec['answers']])))
    return out


def expected_status(mol_in, pre):
    """independent statement of which requests the repair must refuse (first refusal in residue order), or 'ok';
    None = no expectation"""
    ff = mol_in.force_field
    for req in pre['reqs']:
        mu, mods = req['mutation'], req['modification']
        if mu is not None:
            if not mu:
                return 'IndexError'
            if any(x != mu[0] for x in mu):
                return 'ValueError:Can only mutate'
        if req['target'] not in ff.blocks:
            return 'KeyError'
        blk = ff.blocks[req['target']]
        real_mods = [m for m in (mods or []) if m != 'none']
        for j, m in enumerate(real_mods):
            if m not in ff.modifications:
                return 'KeyError'
            if j > 0:
                return None
            if not mod_fits(blk, ff.modifications[m]):
                return 'ValueError:Cannot apply modification'
        for n in list(blk.nodes) if not real_mods else []:
            d = blk.nodes[n]
            if 'element' not in d and first_letter(d.get('atomname')) is None:
                return 'ValueError:Cannot guess' if d.get('atomname', 0) is not None else 'TypeError'
        for n, nm, el in req['atoms']:
            if el is None and first_letter(nm) is None:
                return 'TypeError' if nm is None else 'ValueError:Cannot guess'
    return 'ok'


def explain_ref(impl, model):
    try:
        a, b = dec(impl), dec(model)
    except Exception:
        return 'code %s / model %s' % (clip(impl, 300), clip(model, 300))
    if len(a) != len(b):
        return 'code %s / model %s' % (clip(str(a), 400), clip(str(b), 400))
    for i, (x, y) in enumerate(zip(a, b)):
        if x != y:
            if isinstance(x, list) and isinstance(y, list):
                for j, (p_, q_) in enumerate(zip(x, y)):
                    if p_ != q_:
                        return 'field %d[%d]: code %r, model %r' % (i, j, p_, q_)
                return 'field %d: code has %d entries, model %d' % (i, len(x), len(y))
            return 'field %d: code %r model %r' % (i, x, y)
    return 'no difference found after decoding'


def explain(impl, model):
    """first difference between the two canonical strings, decoded"""
    try:
        a, b = dec(impl), dec(model)
    except Exception:
        return 'undecodable: %s' % clip(model, 200)
    for part, x, y in zip(('atoms', 'edges', 'matches', 'log'), a, b):
        if x != y:
            if isinstance(x, list) and isinstance(y, list):
                for i, (p, q) in enumerate(zip(x, y)):
                    if p != q:
                        return '%s[%d]: code %r, model %r' % (part, i, p, q)
                return '%s: code has %d entries, model %d; tail code %r model %r' % (part, len(x), len(y), x[len(y):][:3], y[len(x):][:3])
            return '%s: code %r model %r' % (part, x, y)
    return 'no difference found after decoding'


# ----------------------------------------------------------------------------
# case stream
# ----------------------------------------------------------------------------
def block_pool(ffname, max_atoms, min_atoms=1):
    return sorted(b for b, blk in FFS[ffname][1].items() if min_atoms <= len(blk) <= max_atoms)


def gen_specs(rng):
    specs = []
    max_atoms = 80 if chk.thorough else 30
    n_blocks = {'charmm': 150, 'amber': 31, 'gromos': 35} if chk.thorough else {'charmm': 26, 'amber': 8, 'gromos': 6}
    aa = ['GLY', 'ALA', 'SER', 'VAL', 'LEU', 'ILE', 'THR', 'ASP', 'ASN', 'GLU', 'GLN', 'LYS', 'ARG', 'PHE', 'TYR',
          'TRP', 'HSD', 'HIS', 'MET', 'CYS', 'PRO']
    for ffname, nb in n_blocks.items():
        pool = block_pool(ffname, max_atoms, 2)
        prot = [b for b in aa if b in pool]
        chosen = rng.sample(prot, min(len(prot), max(3, nb // 3)))
        rest = [b for b in pool if b not in chosen]
        chosen += rng.sample(rest, min(len(rest), nb - len(chosen)))
        for b in chosen:
            n = len(FFS[ffname][1][b])
            big = n > 20
            xk = 4 if n <= 15 else 2      # extra atoms with names kept (timing bounds of DESIGN 5.4)
            pres = [
                dict(names='x'), dict(names='shuffle'), dict(perm=True), dict(names='x', perm=True),
                dict(names='shuffle', perm=True), dict(names='swap'), dict(names='swapdeg', perm=rng.random() < 0.5),
                dict(names='keep', perm=True, missing=rng.randint(1, 4)),
                dict(names='keep', extra=rng.randint(1, xk)),
                dict(names='keep', perm=True, missing=rng.randint(1, 4), extra=rng.randint(1, xk)),
                dict(names=rng.choice(['x', 'shuffle']), perm=True, missing=rng.randint(1, 2)),
                dict(names=rng.choice(['x', 'shuffle']), perm=True, extra=rng.randint(1, 2)),
                dict(names=rng.choice(['x', 'shuffle']), perm=True, missing_h=rng.randint(1, 2 if big else 3),
                     extra=rng.randint(1, 2)),
                dict(names='keep', missing_h=rng.randint(2, 6)),
            ]
            if not chk.thorough:
                pres = rng.sample(pres[:7], 3) + rng.sample(pres[7:], 4)
                if big and b not in aa:
                    # name-scrambled symmetric lipids/sugars above 20 atoms run into the ISMAGS time-out: thorough tier only
                    pres = [p for p in pres if p.get('names', 'keep') in ('keep', 'swap')]
            for p in pres:
                r = dict(ff=ffname, block=b, **p)
                spec = dict(residues=[r], seed=rng.randrange(10 ** 9), keys=rng.choice(['dense', 'sparse', 'random']),
                            include_graph=rng.random() < 0.5)
                # multi-residue molecules: key allocation (max over the whole molecule), residues not mixed up
                if rng.random() < 0.3:
                    others = []
                    for _ in range(rng.randint(1, 2)):
                        ob = rng.choice([x for x in prot if len(FFS[ffname][1][x]) <= 20] or prot)
                        others.append(dict(ff=ffname, block=ob, names=rng.choice(['keep', 'x']), perm=rng.random() < 0.5,
                                           missing_h=rng.randint(0, 2), extra=rng.choice([0, 0, 1])))
                    rs = [r] + others
                    rng.shuffle(rs)
                    spec['residues'] = rs
                specs.append(spec)
    # isomer pairs in ONE molecule: same elements, same number of bonds, different connectivity, all atoms renamed
    # and listed by element, so that anything shared between the residues of a molecule (caches) must key on the
    # actual bonds
    for ffname in ('charmm', 'amber', 'gromos'):
        good = FFS[ffname][1]
        groups = {}
        for b in block_pool(ffname, 24, 4):
            blk = good[b]
            sig = (tuple(sorted(blk.nodes[n]['element'] for n in blk.nodes)), blk.number_of_edges())
            groups.setdefault(sig, []).append(b)
        pairs = [(a, b) for g in groups.values() for a in g for b in g if a < b]
        pairs = [pr for pr in pairs if {'LEU', 'ILE'} == set(pr)] + rng.sample(pairs, min(len(pairs), 12 if chk.thorough else 3))
        for a, b in pairs:
            for first, second in ((a, b), (b, a)):
                rs = [dict(ff=ffname, block=first, names='x', perm='element', link=False),
                      dict(ff=ffname, block=second, names='x', perm='element', link=False)]
                specs.append(dict(residues=rs, seed=rng.randrange(10 ** 9), keys='dense', include_graph=False))
    # hydrogen-free skeletons: the maximum is computed by the Lean reference
    for ffname in ('charmm_heavy', 'amber_heavy'):
        pool = block_pool(ffname, 10, 3)
        for b in rng.sample(pool, min(len(pool), 120 if chk.thorough else 25)):
            for _ in range(3 if chk.thorough else 2):
                r = dict(ff=ffname, block=b, names=rng.choice(['x', 'shuffle', 'keep']), perm=True,
                         missing=rng.randint(0, 2), extra=rng.randint(0, 3))
                specs.append(dict(residues=[r], seed=rng.randrange(10 ** 9), keys=rng.choice(['dense', 'sparse', 'random']),
                                  include_graph=False, want_mcis=True))
    # mutation / modification requests (the reference is another / a patched block)
    for ffname in ('charmm', 'amber'):
        ff, good = FFS[ffname]
        prot = [b for b in aa if b in good]
        small = [b for b in prot if len(good[b]) <= 14]
        for _ in range(40 if chk.thorough else 8):
            a, b = rng.sample(prot if chk.thorough else small, 2)
            r = dict(ff=ffname, block=a, mutate=b, names=rng.choice(['keep', 'keep', 'x']), perm=rng.random() < 0.5,
                     missing_h=rng.randint(0, 2))
            if len(good[a]) > 20 and r['names'] != 'keep':
                r['names'] = 'keep'
            specs.append(dict(residues=[r], seed=rng.randrange(10 ** 9), keys='sparse', include_graph=False))
        # every shipped modification that applies to a single residue (termini, protonation states, ...), the
        # residue presented WITH the modification's atoms: complete / scrambled / permuted / one PTM atom missing
        appl = applicable_mods(ffname)
        by_mod = {}
        for b, mname in appl:
            by_mod.setdefault(mname, []).append(b)
        for mname, blocks in sorted(by_mod.items()):
            restricted = len(blocks) <= 3
            chosen = blocks if restricted else rng.sample(blocks, 3 if chk.thorough else 1)
            for b in chosen:
                n = len(good[b])
                variants = [dict(names='keep'), dict(names='x', perm=True), dict(names='shuffle', perm=True),
                            dict(names='keep', perm=True, missing_ptm=1), dict(names='x', perm=True, missing_ptm=1),
                            dict(names='keep', missing_h=2, missing_ptm=1)]
                if n > 18:
                    variants = [v for v in variants if v.get('names') == 'keep'] + [dict(names='x')]
                if not chk.thorough:
                    variants = variants[:2] + rng.sample(variants[2:], 2) if restricted else rng.sample(variants, 2)
                for v in variants:
                    r = dict(ff=ffname, block=b, modify=[mname], with_mod=True, **v)
                    specs.append(dict(residues=[r], seed=rng.randrange(10 ** 9), keys=rng.choice(['dense', 'sparse']),
                                      include_graph=False))
        mods = sorted(m for m in ff.modifications if m in ('N-ter', 'C-ter', 'COOH-ter', 'NH2-ter', 'N-ter-NH2'))
        for _ in range(20 if chk.thorough else 4):
            if not mods:
                break
            a = rng.choice(prot)
            r = dict(ff=ffname, block=a, modify=[rng.choice(mods)], names='keep', perm=rng.random() < 0.5,
                     missing_h=rng.randint(0, 2))
            specs.append(dict(residues=[r], seed=rng.randrange(10 ** 9), keys='dense', include_graph=False))
    rng.shuffle(specs)      # so that a time budget cuts every family alike
    return specs


def corpus_specs():
    path = os.path.join(VERIF, 'corpus', 'c04_hard.json')
    if os.path.exists(path):
        for i, s in enumerate(json.load(open(path))['cases']):
            yield 'corpus-%d' % i, s


def presentation_differs(spec):
    r = spec['residues'][0]
    return bool(r.get('names', 'keep') != 'keep' or r.get('perm') or r.get('missing') or r.get('missing_h')
                or r.get('extra') or r.get('mutate') or r.get('modify'))


# A modification atom that cannot be rebuilt (its component of the patched reference has no atom in the residue): the
# error message of repair_residue reads reference.nodes[idx]['resname'], which modification atoms do not have ->
# KeyError('resname').  Not reachable with the shipped modifications (every added atom is bonded to an anchor).  The
# case is generated only once the finding is registered in known_findings.json.
F_LOST_MOD_ATOM = 'F-C04-1'


def ref_specs(rng):
    """make_reference itself: degenerate references (empty block, nothing in common, disconnected block, block without
    elements), atoms without element / without name, equal names, refused requests (mutated twice, modification that
    does not fit, unknown modification), modifications of the synthetic force field"""
    specs = []

    def add(rs, **kw):
        specs.append(dict(dict(residues=rs, seed=rng.randrange(10 ** 9), keys=rng.choice(['dense', 'sparse', 'random']),
                               include_graph=rng.random() < 0.3), **kw))
    S = 'synth'
    eth = dict(ff=S, block='ETH')
    for resname in ('EMP', 'XEN'):
        # no match at all: alone, and bonded to / between ordinary residues (fix 4abf057)
        add([dict(eth, resname=resname, names=rng.choice(['keep', 'x']))])
        add([dict(ff=S, block='PRO3', names='x', perm=True), dict(eth, resname=resname), dict(ff=S, block='ETH', missing=1)])
        add([dict(eth, resname=resname, perm=True), dict(ff=S, block='PRO3', missing=2, extra=1)])
    add([dict(ff=S, block='XEN', resname='ETH')])
    # disconnected reference: a component without any atom present cannot be rebuilt
    for _ in range(3):
        add([dict(ff=S, block='DIS', names=rng.choice(['keep', 'x']), perm=True, missing=rng.randint(1, 4))])
    add([dict(ff=S, block='ETH', resname='DIS', names='x')])
    # elements guessed from the names (reference and residue)
    add([dict(ff=S, block='NOELX', resname='NOEL', names='keep')])
    add([dict(ff=S, block='NOELX', resname='NOEL', names='keep', noelem=4, perm=True)])
    add([dict(ff=S, block='NOELX', resname='NOEL', names='x', perm=True, extra=1)])
    for ffname in ('charmm', 'amber', S):
        pool = [b for b in (['ETH', 'PRO3'] if ffname == S else ['GLY', 'ALA', 'SER', 'VAL', 'THR', 'ASP', 'ASN', 'CYS'])
                if b in get_ff(ffname)[1]]
        for _ in range(6 if chk.thorough else 2):
            b = rng.choice(pool)
            add([dict(ff=ffname, block=b, names='keep', perm=rng.random() < 0.5, noelem=rng.randint(1, 4),
                      missing_h=rng.randint(0, 1))])
            add([dict(ff=ffname, block=b, names=rng.choice(['keep', 'x']), perm=True, noname=rng.randint(1, 2),
                      nonename=rng.randint(0, 2), missing=rng.randint(0, 1))])
            add([dict(ff=ffname, block=b, names='dup', perm=rng.random() < 0.5, missing=rng.randint(0, 1))])
            add([dict(ff=ffname, block=b, names='swapdeg', perm=rng.random() < 0.5)])
            add([dict(ff=ffname, block=b, names='keep', unguessable=rng.choice(['digit', 'absent', 'none']))])
    # refused requests
    for ffname in ('charmm', 'amber'):
        good = FFS[ffname][1]
        prot = [b for b in AA if b in good and len(good[b]) <= 16]
        for _ in range(4 if chk.thorough else 2):
            a, b, c = rng.sample(prot, 3)
            add([dict(ff=ffname, block=a, mutate=[b, c], names='keep')])
            add([dict(ff=ffname, block=a, mutate=[b, b], names=rng.choice(['keep', 'x']), missing_h=1)], keys='sparse')
            add([dict(ff=ffname, block='GLY', names='x'), dict(ff=ffname, block=a, mutate=[b, c, b])])
        add([dict(ff=ffname, block=rng.choice(prot), mutate=[])])
        mods = sorted(FFS[ffname][0].modifications)
        for _ in range(8 if chk.thorough else 3):
            b, m = rng.choice(prot), rng.choice(mods)
            add([dict(ff=ffname, block=b, modify=[m], names='keep', missing_h=rng.randint(0, 1))])
        add([dict(ff=ffname, block=rng.choice(prot), modify=['NOSUCHMOD'])])
        add([dict(ff=ffname, block=rng.choice(prot), modify=['none'], names='x')])
        add([dict(ff=ffname, block=rng.choice(prot), mutate='ZZZ')])
    bare = ['GOOD', 'TWO', 'FIRST', 'BADA', 'BADB', 'NOANCH', 'DUP']
    if any(k['id'] == F_LOST_MOD_ATOM and k.get('status') == 'known' for k in chk.known):
        bare.append('NOA')
    for m in bare:
        add([dict(eth, modify=[m], names=rng.choice(['keep', 'x']), perm=rng.random() < 0.5)])
    add([dict(eth, modify=['NOA'], with_mod=True, names='x', perm=True)])
    for m in ('GOOD', 'TWO', 'FIRST'):
        add([dict(eth, modify=[m], with_mod=True, names='x', perm=True)])
        add([dict(eth, modify=[m], with_mod=True, names='keep', missing_ptm=1)])
    add([dict(eth, modify=['GOOD', 'FIRST'], names='keep')])
    add([dict(eth, modify=['none', 'TWO'], mutate='ETH', names='x')])
    return specs


all_specs = list(corpus_specs())
all_specs += [('ref-%d' % i, s) for i, s in enumerate(ref_specs(chk.rng('make_reference')))]
rng = chk.rng('presentations')
all_specs += [('gen-%d' % i, s) for i, s in enumerate(gen_specs(rng))]

pending = []   # (cid, spec, mol_in, info, res, qs)
finding_of = {}
timed_out_blocks = set()
patch_cases = []  # (cid, protocol line, reference of the real code by atom names)
lines = []
t_budget = 780 if chk.thorough else 63
for cid, spec in all_specs:
    if chk.elapsed() > t_budget and cid.startswith('gen'):
        chk.count('skipped_for_time')
        continue
    r0 = spec['residues'][0]
    if any((r['ff'], r['block']) in timed_out_blocks and r.get('names', 'keep') in ('x', 'shuffle') for r in spec['residues']):
        # this block already ran into the ISMAGS time-out under scrambled names: do not burn the budget again
        chk.count('skipped_after_timeout_of_same_block')
        continue
    try:
        mol, info = present(spec)
    except KeyError as err:
        chk.count('spec_skipped_%s' % type(err).__name__)
        chk.notes.append('spec skipped (%r): %s' % (err, cid))
        continue
    mol_in = mol.copy()
    pre = prepare_inputs(mol_in)
    expected = expected_status(mol_in, pre)
    res = run_real(mol, spec.get('include_graph', False))
    chk.count('status_' + res['status'].split(':')[0])
    if os.environ.get('VERIF_DEBUG') and res['dt'] > 1.0:
        print('slow %.1fs %s %s' % (res['dt'], cid, json.dumps(spec)[:300]), flush=True)
    r0 = spec['residues'][0]
    chk.count('names_%s%s' % (r0.get('names', 'keep'), '+perm' if r0.get('perm') else ''))
    chk.count('ff_' + r0['ff'])
    for r in spec['residues']:
        for feat in ('noelem', 'noname', 'nonename', 'unguessable'):
            if r.get(feat):
                chk.count('feature_' + feat)
    if res['status'] == 'timeout':
        chk.count('inconclusive_timeout')
        timed_out_blocks.update((r['ff'], r['block']) for r in spec['residues'] if r.get('names', 'keep') in ('x', 'shuffle'))
        chk.notes.append('inconclusive (ISMAGS time-out %.0f s): %s %s' % (CASE_TIMEOUT, cid, json.dumps(spec)[:200]))
        continue
    if res['status'].startswith('error'):
        kind = res['status'].split(':')[1]
        chk.count('error_' + kind)
        errs = []
        if expected is None:
            chk.count('error_without_expectation')
        elif res['status'] == "error:KeyError:'resname'" and any(m == 'NOA' for r in spec['residues'] for m in r.get('modify') or []):
            finding_of[cid] = F_LOST_MOD_ATOM
            errs.append('the repair raised %s while reporting a modification atom it could not rebuild' % res['status'])
        elif expected == 'ok' or not res['status'][len('error:'):].startswith(expected):
            errs.append('the repair raised %s (expected by the request itself: %s)' % (res['status'], expected))
        else:
            chk.count('refused_as_expected_%s' % expected.split(':')[-1].replace(' ', '_'))
        pending.append((cid, spec, mol_in, info, res, dict(repair=None, ref=ref_lines(mol_in, pre, res), mcis=[], errs=errs)))
        continue
    errs = []
    if expected not in (None, 'ok'):
        errs.append('the request must be refused (%s) but the repair went through' % expected)
    snap = res['snap']
    pull_more_answers(res['spy'])
    errs += cache_transparent(res['spy'])
    ln = line('repair', snap['nodes'], snap['edges'],
              [[r['bnodes'], r['bedges'], r['found'], r['match'], r['common']] for r in snap['residues']])
    qs = dict(repair=ln, ref=ref_lines(mol_in, pre, res), mcis=mcis_lines(mol_in, pre, res), errs=errs)
    chk.count('mcis_queries', len(qs['mcis']))
    if len(snap['kept']) < len(pre['reqs']):
        chk.count('residue_without_match_skipped', len(pre['reqs']) - len(snap['kept']))
    if len(spec['residues']) == 1 and r0.get('modify') and not r0.get('mutate') and snap['residues']:
        rn, re_ = ref_by_name(snap['residues'][0]['ref'])
        patch_cases.append((cid, patch_line(r0), enc([rn, [list(e) for e in re_]])))
        chk.count('modification_%s' % '+'.join(r0['modify']))
        chk.count('modified_residue_%s' % ('presented_with_mod_atoms' if r0.get('with_mod') else 'presented_bare'))
    n0 = len(info[0]['key']) + len(info[0]['extras'])
    chk.count('residues=%d' % len(info))
    chk.count('atoms_%s' % ('<=10' if n0 <= 10 else '<=20' if n0 <= 20 else '<=40' if n0 <= 40 else '>40'))
    chk.count('missing=%d' % min(len(info[0]['removed']), 5))
    chk.count('extra=%d' % len(info[0]['extras']))
    pending.append((cid, spec, mol_in, info, res, qs))

flat = []
for p in pending:
    q = p[5]
    flat += ([q['repair']] if q['repair'] else []) + [x[1] for x in q['ref']]
if os.environ.get('VERIF_DEBUG'):
    print('real runs done at %.1f s; %d model lines' % (chk.elapsed(), len(flat)), flush=True)
    open('/tmp/c04_lines.txt', 'w').write('\n'.join(flat) + '\n')
answers = chk.drv.ask(flat) if chk.lean_ok else [None] * len(flat)


def ask_with_timeout(lines, seconds):
    """the exhaustive Lean reference can be slow on an unlucky pair of graphs: bounded, inconclusive when cut off"""
    if not lines or not chk.lean_ok or not os.path.exists(chk.drv.exe):
        return {}
    try:
        p = subprocess.run([chk.drv.exe], cwd=LEAN_DIR, input='\n'.join(lines) + '\n', stdout=subprocess.PIPE,
                           stderr=subprocess.PIPE, text=True, timeout=seconds)
        out = p.stdout.split('\n')
    except subprocess.TimeoutExpired as err:
        chk.count('mcis_reference_timeout')
        chk.notes.append('Lean reference for the matcher cut off after %d s (inconclusive for the unanswered queries)' % seconds)
        out = (err.stdout or b'').decode().split('\n')[:-1] if isinstance(err.stdout, bytes) else (err.stdout or '').split('\n')[:-1]
    return {l: o for l, o in zip(lines, out) if o}


mcis_answers = ask_with_timeout([x[2] for p in pending for x in p[5]['mcis']], 600 if chk.thorough else 60)
if os.environ.get('VERIF_DEBUG'):
    print('model answers at %.1f s' % chk.elapsed(), flush=True)
ans = iter(answers)
for cid, spec, mol_in, info, res, qs in pending:
    sp_json = json.dumps(spec, sort_keys=True)
    nontriv = len(mol_in) >= 4 and presentation_differs(spec)
    errs = list(qs['errs'])
    if qs['repair']:
        model = next(ans)
        impl = canon_result(res)
        errs += oracle(mol_in, info, res)
    else:
        model, impl = None, res['status']
    # the models of make_reference, _get_reference_residue and of the whole pipeline
    for kind, ln, rimpl in qs['ref']:
        rmodel = next(ans)
        if rimpl.endswith(' *') and rmodel is not None and not rmodel.startswith('error'):
            # make_reference raised at a later residue: the match of this one was not observed
            rmodel = ' '.join(enc(x) for x in dec(rmodel)[:7]) + ' *'
        chk.count('model_line_' + kind.split('-')[0])
        chk.case('%s:%s' % (cid, kind), sp_json + ' ' + kind, rimpl, rmodel, [], nontriv)
        if rmodel is not None and rmodel != rimpl:
            chk.notes.append('%s:%s: %s' % (cid, kind, explain_ref(rimpl, rmodel)))
            if os.environ.get('VERIF_DEBUG'):
                print(chk.notes[-1][:1500], flush=True)
    # every recorded answer of the matcher against the Lean reference (specification of the matcher)
    for i, nans, q in qs['mcis']:
        a = mcis_answers.get(q)
        if a is None:
            chk.count('mcis_reference_no_answer')
            continue
        try:
            size, members = dec(a)
            assert len(members) == nans
        except Exception:
            errs.append('residue #%d: the Lean reference could not read the matcher query: %s' % (i, clip(a, 200)))
            continue
        if nans == 0:
            if size != 0:
                errs.append('residue #%d: the matcher gave no answer although a common induced subgraph of %s atoms exists'
                            % (i, size))
            else:
                chk.count('no_answer_confirmed_nothing_in_common')
        elif size == 0:
            errs.append('residue #%d: the matcher answered although residue and reference have nothing in common' % i)
        for j, member in enumerate(members):
            if member != 1:
                errs.append('residue #%d: answer %d of the matcher (taken by make_reference: %s) is not a maximum common '
                            'induced subgraph (maximum size %s)' % (i, j, j == 0, size))
            else:
                chk.count('mcis_size_confirmed' if j == 0 else 'later_answer_confirmed_maximum')
    if qs['repair']:
        added = sum(1 for k in res['out'].nodes if k not in mol_in.nodes)
        flagged = sum(1 for k in res['out'].nodes if res['out'].nodes[k].get('PTM_atom'))
        chk.count('added_atoms=%s' % ('0' if not added else '1-3' if added <= 3 else '>3'))
        chk.count('flagged=%s' % ('0' if not flagged else '>0'))
        if any(ev[0] == 'lost' for ev in canon_events(res['records'])):
            chk.count('could_not_reconstruct')
    chk.case(cid, sp_json, impl, model, errs, nontriv, finding=finding_of.get(cid))
    if errs or (model is not None and model != impl):
        chk.notes.append('%s: %s' % (cid, explain(impl, model) if model is not None and model != impl else errs[0]))
        if os.environ.get('VERIF_DEBUG'):
            print(chk.notes[-1][:1500], flush=True)


# ---- the patched reference against the Lean model of _patch_modification (shared with C19) ----------------
pans = chk.drv.ask([p[1] for p in patch_cases]) if chk.lean_ok and patch_cases else [None] * len(patch_cases)
for (cid, ln, impl), mo in zip(patch_cases, pans):
    model = mo
    if mo is not None and mo not in ('does-not-fit', 'bad-op', 'bad-line', 'driver-died'):
        try:
            nodes, edges = dec(mo)
            nm = {k: n for k, n in nodes}
            model = enc([sorted(nm.values()), sorted([sorted((nm[u], nm[v])) for u, v in edges])])
        except Exception:
            model = 'undecodable ' + clip(mo, 200)
    chk.case('patch-' + cid, ln, impl, model, [], True)
    if model is not None and model != impl:
        chk.notes.append('patch-%s: reference of the code %s / model %s' % (cid, clip(str(dec(impl)), 600), clip(str(try_dec(model)), 600)))

# ---- whole peptides with the terminal modifications the command line requests -----------------------------
# AnnotateMutMod(modifications=[('nter', 'N-ter'), ('cter', 'C-ter')]) (what martinize2 passes by default) followed by
# RepairGraph, on a small peptide listed in several orders: residues N-to-C, C-to-N, permuted, all atoms interleaved,
# random keys, names replaced.  The repaired peptide - atoms as (resid, canonical name, element), bonds between them,
# marked atoms - must be the SAME for every listing, must be the complete patched peptide, and the terminal atoms must
# sit on the residues with the lowest / highest resid.
from vermouth.processors.annotate_mut_mod import AnnotateMutMod
from vermouth.system import System


def peptide_specs(rng):
    specs = []
    for ffname in ('charmm', 'amber'):
        ff, good = FFS[ffname]
        if 'N-ter' not in ff.modifications or 'C-ter' not in ff.modifications:
            continue
        pool = [b for b in ('GLY', 'ALA', 'SER', 'VAL', 'THR', 'ASP', 'ASN', 'CYS', 'LEU', 'ILE', 'GLU', 'MET')
                if b in good and len(good[b]) <= 20
                and expected_patch(good[b], [ff.modifications['N-ter']]) is not None
                and expected_patch(good[b], [ff.modifications['C-ter']]) is not None]
        for t in range(8 if chk.thorough else 3):
            n = rng.randint(2, 4)
            specs.append(dict(ff=ffname, seq=[rng.choice(pool) for _ in range(n)], resid0=rng.choice([1, 1, 7, 120]),
                              missing_h=rng.choice([0, 0, 1, 2]), seed=rng.randrange(10 ** 9),
                              scramble=all(len(good[b]) <= 12 for b in pool[:0]) or t == 0))
    # peptides with explicit per-residue requests written as TEXT the way the command line receives them
    # (-mutate A-SER0:ALA, -modify A-SER0:N-ter) and parsed by the real parse_residue_spec; the residues are numbered
    # so that 0 and negative numbers occur, and a second residue carries the same name as the requested one, so that
    # a specification that loses its number (or chain) would hit more than the residue it names
    rrng = chk.rng('peptide-requests')
    for ffname in ('charmm', 'amber'):
        ff, good = FFS[ffname]
        if 'N-ter' not in ff.modifications or 'C-ter' not in ff.modifications:
            continue
        pool = [b for b in ('GLY', 'ALA', 'SER', 'VAL', 'THR', 'ASP', 'CYS', 'LEU')
                if b in good and len(good[b]) <= 20
                and expected_patch(good[b], [ff.modifications['N-ter']]) is not None
                and expected_patch(good[b], [ff.modifications['C-ter']]) is not None]
        targets = [b for b in ('ALA', 'GLY', 'SER', 'VAL', 'THR', 'CYS') if b in pool]
        for t in range(6 if chk.thorough else 2):
            n = rrng.randint(3, 4)
            resid0 = rrng.choice([0, 0, -1, -2, -(n - 1)])
            seq = [rrng.choice(pool) for _ in range(n)]
            zero = -resid0
            ti = zero if (t == 0 or rrng.random() < 0.6) else rrng.randrange(n)
            tj = rrng.choice([j for j in range(n) if j != ti])
            seq[tj] = seq[ti]
            resid = resid0 + ti
            forms = ['A-%s#%d'] if resid < 0 else ['A-%s%d', 'A-%s%d', 'A-%s#%d', '%s%d']
            where = rrng.choice(forms) % (seq[ti], resid)
            modify, mutate, out_seq = ['nter:N-ter', 'cter:C-ter'], [], list(seq)
            if ti in (0, n - 1) and rrng.random() < 0.4:
                modify[0 if ti == 0 else 1] = '%s:%s' % (where, 'N-ter' if ti == 0 else 'C-ter')
            else:
                new = rrng.choice([b for b in targets if b != seq[ti]])
                mutate.append('%s:%s' % (where, new))
                out_seq[ti] = new
            specs.append(dict(ff=ffname, seq=seq, resid0=resid0, missing_h=rrng.choice([0, 0, 1, 2]),
                              seed=rrng.randrange(10 ** 9), scramble=t == 0, modify=modify, mutate=mutate,
                              out_seq=out_seq, named=resid))
    return specs


def build_peptide(spec, seq=None):
    """-> atoms [(resid, name, element, resname, added by a terminal modification)], bonds [((resid, name), (resid, name))]"""
    ff, good = FFS[spec['ff']]
    atoms, bonds = [], []
    seq = spec['seq'] if seq is None else seq
    last = len(seq) - 1
    for i, resname in enumerate(seq):
        resid = spec['resid0'] + i
        mods = ([ff.modifications['N-ter']] if i == 0 else []) + ([ff.modifications['C-ter']] if i == last else [])
        g = expected_patch(good[resname], mods) if mods else expected_patch(good[resname], [])
        for nm in g.nodes:
            atoms.append((resid, nm, g.nodes[nm]['element'], resname, bool(g.nodes[nm]['ptm'])))
        for u, v in g.edges:
            bonds.append(((resid, u), (resid, v)))
        if i > 0:
            bonds.append(((resid - 1, 'C'), (resid, 'N')))
    return atoms, bonds


def peptide_listings(spec, atoms, rng):
    """the same peptide listed in different orders: [(label, atoms in order, key mode, rename)]"""
    resids = sorted({a[0] for a in atoms})
    out = [('n-to-c', list(atoms), 'dense', False)]
    rev = sorted(atoms, key=lambda a: -a[0])
    out.append(('c-to-n', rev, 'dense', False))
    perm = resids[:]
    rng.shuffle(perm)
    if perm == resids:
        perm = perm[1:] + perm[:1]
    byres = {r: [a for a in atoms if a[0] == r] for r in resids}
    lst = []
    for r in perm:
        block = byres[r][:]
        rng.shuffle(block)
        lst += block
    out.append(('residues-%s' % ','.join(map(str, perm)), lst, 'random', False))
    inter = list(atoms)
    rng.shuffle(inter)
    out.append(('interleaved', inter, 'dense', False))
    if spec.get('scramble'):
        inter2 = list(atoms)
        rng.shuffle(inter2)
        out.append(('interleaved-renamed', inter2, 'random', True))
    return out


def present_peptide(spec, atoms, bonds, order, keymode, rename, rng):
    ff = FFS[spec['ff']][0]
    mol = Molecule(force_field=ff)
    index = {}
    keys = list(range(len(order))) if keymode == 'dense' else rng.sample(range(500), len(order))
    for i, (resid, name, element, resname, _) in enumerate(order):
        index[resid, name] = keys[i]
        mol.add_node(keys[i], atomname=('Q%d' % (i + 1)) if rename else name, element=element, resname=resname, resid=resid,
                     chain='A', atomid=i + 1, position=np.array([float(i), 0.0, 0.0]))
    mol.add_edges_from((index[u], index[v]) for u, v in bonds if u in index and v in index)
    return mol


def canon_peptide(out):
    ident = {n: (out.nodes[n].get('resid'), out.nodes[n].get('atomname')) for n in out.nodes}
    atoms = sorted((out.nodes[n].get('resid'), str(out.nodes[n].get('atomname')), str(out.nodes[n].get('element'))) for n in out.nodes)
    bonds = sorted(tuple(sorted((ident[u], ident[v]), key=str)) for u, v in out.edges)
    marked = sorted(ident[n] for n in out.nodes if out.nodes[n].get('PTM_atom'))
    return atoms, bonds, marked


pep_pending = []
for pi, spec in enumerate(peptide_specs(chk.rng('peptides'))):
    prng = random.Random(spec['seed'])
    atoms, bonds = build_peptide(spec)
    hs = [a for a in atoms if a[2] == 'H']
    removed = set((a[0], a[1]) for a in prng.sample(hs, min(spec['missing_h'], len(hs))))
    # what the repair must deliver: the peptide in which the residues NAMED by a mutation request are the requested
    # block, and every other residue is its OWN block (with the terminal modification where one was requested)
    w_atoms, w_bonds = build_peptide(spec, spec['out_seq']) if 'out_seq' in spec else (atoms, bonds)
    want_atoms = sorted((a[0], a[1], a[2]) for a in w_atoms)
    want_bonds = sorted(tuple(sorted(b, key=str)) for b in w_bonds)
    want_marked = sorted((a[0], a[1]) for a in w_atoms if a[4])
    want_resnames = {a[0]: a[3] for a in w_atoms}
    requests = dict(modifications=[tuple(x.split(':')) for x in spec.get('modify', ['nter:N-ter', 'cter:C-ter'])],
                    mutations=[tuple(x.split(':')) for x in spec.get('mutate', [])])
    want_annot = {}
    for i in range(len(spec['seq'])):
        r = spec['resid0'] + i
        want_annot[r] = ([spec['out_seq'][i]] if 'out_seq' in spec and spec['out_seq'][i] != spec['seq'][i] else None,
                         ['N-ter'] if i == 0 else ['C-ter'] if i == len(spec['seq']) - 1 else None)
    lo, hi = min(a[0] for a in atoms), max(a[0] for a in atoms)
    runs = []
    for label, order, keymode, rename in peptide_listings(spec, atoms, prng):
        order = [a for a in order if (a[0], a[1]) not in removed]
        mol = present_peptide(spec, atoms, bonds, order, keymode, rename, prng)
        sysm = System(force_field=mol.force_field)
        sysm.molecules = [mol]
        quiet_vermouth_logs()
        AnnotateMutMod(**requests).run_system(sysm)
        mol = sysm.molecules[0]
        got_annot = {}
        for k in mol.nodes:
            d = mol.nodes[k]
            got_annot.setdefault(d['resid'], set()).add((repr(d.get('mutation')), repr(d.get('modification'))))
        annot_errs = ['residue %d: the requests %s ask for mutation %s / modification %s, its atoms carry %s'
                      % (r, requests, want_annot[r][0], want_annot[r][1], sorted(got_annot[r]))
                      for r in sorted(got_annot) if got_annot[r] != {(repr(want_annot[r][0]), repr(want_annot[r][1]))}]
        if 'named' in spec:
            chk.count('peptide_request_' + ('mutate' if spec['mutate'] else 'modify'))
            chk.count('peptide_request_resid_' + ('zero' if spec['named'] == 0 else 'negative' if spec['named'] < 0 else 'positive'))
        mol_in = mol.copy()
        pre = prepare_inputs(mol_in)
        res = run_real(mol, False)
        chk.count('peptide_listing_%s' % label.split('-')[0])
        chk.count('peptide_status_' + res['status'].split(':')[0])
        res['annot_errs'] = annot_errs
        runs.append((label, mol_in, pre, res))
    pep_pending.append((pi, spec, runs, want_atoms, want_bonds, (want_marked, want_resnames), lo, hi))

pep_lines = []
for pi, spec, runs, *_ in pep_pending:
    for label, mol_in, pre, res in runs:
        if res['status'] == 'timeout':
            continue
        if res['status'] == 'ok':
            snap = res['snap']
            pep_lines.append(line('repair', snap['nodes'], snap['edges'],
                                  [[r['bnodes'], r['bedges'], r['found'], r['match'], r['common']] for r in snap['residues']]))
        res['ref_lines'] = ref_lines(mol_in, pre, res)
        pep_lines += [x[1] for x in res['ref_lines']]
pep_ans = iter(chk.drv.ask(pep_lines) if chk.lean_ok and pep_lines else [None] * len(pep_lines))
for pi, spec, runs, want_atoms, want_bonds, (want_marked, want_resnames), lo, hi in pep_pending:
    first = None
    sp_json = json.dumps(spec, sort_keys=True)
    for label, mol_in, pre, res in runs:
        cid = 'peptide-%d:%s' % (pi, label)
        errs = []
        if res['status'] == 'timeout':
            chk.count('inconclusive_timeout')
            continue
        if res['status'] != 'ok':
            chk.case(cid, sp_json + ' ' + label, res['status'], None,
                     ['peptide %s listed %s: the repair raised %s' % ('-'.join(spec['seq']), label, res['status'])], True)
            for _ in res.get('ref_lines', []):
                next(pep_ans)
            continue
        model = next(pep_ans)
        impl = canon_result(res)
        for kind, ln, rimpl in res['ref_lines']:
            rmodel = next(pep_ans)
            chk.count('model_line_' + kind.split('-')[0])
            chk.case('%s:%s' % (cid, kind), sp_json + ' ' + label + ' ' + kind, rimpl, rmodel, [], True)
            if rmodel is not None and rmodel != rimpl:
                chk.notes.append('%s:%s: %s' % (cid, kind, explain_ref(rimpl, rmodel)))
        got = canon_peptide(res['out'])
        tag = 'peptide %s (resids %d..%d) listed %s: ' % ('-'.join(spec['seq']), lo, hi, label)
        errs += [tag + e for e in res['annot_errs']]
        if got[0] != want_atoms:
            errs.append(tag + 'atoms after the repair differ from the complete patched peptide: unexpected %s, absent %s'
                        % (sorted(set(got[0]) - set(want_atoms))[:6], sorted(set(want_atoms) - set(got[0]))[:6]))
        if got[1] != want_bonds:
            errs.append(tag + 'bonds differ from the patched peptide: %s' % sorted(set(got[1]) ^ set(want_bonds), key=str)[:6])
        out = res['out']
        for r in sorted(want_resnames):
            names = sorted({str(out.nodes[n].get('resname')) for n in out.nodes if out.nodes[n].get('resid') == r})
            if names != [want_resnames[r]]:
                errs.append(tag + 'residue %d comes back named %s, expected %s (%s)'
                            % (r, names, want_resnames[r], 'the residue named by the request' if r == spec.get('named')
                               and spec.get('mutate') else 'no request names this residue: it must stay its own block'))
        if got[2] != want_marked:
            errs.append(tag + 'atoms marked PTM_atom %s, the terminal modifications add %s' % (got[2], want_marked))
        nter = [a for a in got[2] if a[0] != lo and a[1] in ('HN2', 'HN3')]
        cter = [a for a in got[2] if a[0] != hi and a[1] == 'OXT']
        if nter or cter:
            errs.append(tag + 'terminal atoms on the wrong residue: %s (N terminus is resid %d, C terminus resid %d)'
                        % (nter + cter, lo, hi))
        if first is None:
            first = (label, got)
        elif got != first[1]:
            errs.append(tag + 'the repaired peptide differs from the one obtained when it is listed %s '
                        '(the result depends on the atom order)' % first[0])
        chk.case(cid, sp_json + ' ' + label, impl, model, errs, True)
        if errs or (model is not None and model != impl):
            chk.notes.append('%s: %s' % (cid, explain(impl, model) if model is not None and model != impl else errs[0]))
            if os.environ.get('VERIF_DEBUG'):
                print(chk.notes[-1][:1500], flush=True)

# ---- unknown residue: run_system deletes the molecule with a warning, or raises -------------------------
from vermouth.system import System
for i, (ffname, delete) in enumerate(itertools.product(['charmm', 'amber'], [True, False])):
    ff = FFS[ffname][0]
    sysm = System(force_field=ff)
    good, _ = present(dict(residues=[dict(ff=ffname, block='GLY', names='x', perm=True)], seed=i))
    bad, _ = present(dict(residues=[dict(ff=ffname, block='ALA', resname='ZZZ', names='keep')], seed=i))
    sysm.molecules = [good, bad]
    lg = logging.getLogger('vermouth')
    spyh = LogSpy()
    old = lg.handlers[:], lg.level, lg.propagate
    lg.handlers[:] = [spyh]
    lg.setLevel(1)
    lg.propagate = False
    try:
        RG.RepairGraph(delete_unknown=delete).run_system(sysm)
        outcome = 'kept=%d warned=%d' % (len(sysm.molecules), sum(1 for r in spyh.records if r[1] == 'unknown-residue' and r[0] == 30))
    except KeyError as err:
        outcome = 'KeyError'
    finally:
        lg.handlers[:], lg.level, lg.propagate = old[0], old[1], old[2]
        lg.setLevel(old[1])
    want = 'kept=1 warned=1' if delete else 'KeyError'
    chk.count('unknown_residue_cases')
    chk.case('unknown-%d' % i, 'unknown-residue %s delete_unknown=%s' % (ffname, delete), outcome, None,
             [] if outcome == want else ['unknown residue: %s, expected %s' % (outcome, want)], False)

# ---- the matcher on degenerate inputs (what make_reference relies on) -----------------------------------
# specification used by the composed model: no answer <=> residue and reference have no atom of a common element
# (for a non-empty residue); an empty residue gets the empty mapping; without symmetry reduction every answer is
# still a maximum common induced subgraph.
def _g(atoms, edges):
    g = nx.Graph()
    g.add_nodes_from((i, dict(element=e)) for i, e in enumerate(atoms))
    g.add_edges_from(edges)
    return g


_nm = nx.isomorphism.categorical_node_match('element', None)
_tri = _g(['C', 'C', 'O'], [(0, 1), (1, 2)])
deg = [('empty-residue', _tri, _g([], []), True, [{}]),
       ('empty-reference', _g([], []), _tri, True, []),
       ('both-empty', _g([], []), _g([], []), True, [{}]),
       ('nothing-in-common', _g(['Xe', 'Xe'], [(0, 1)]), _tri, True, [])]
for name, graph, sub, symmetry, want in deg:
    got = list(REAL_ISMAGS(graph, sub, node_match=_nm, cache={}).largest_common_subgraph(symmetry))
    chk.count('matcher_degenerate_cases')
    chk.case('matcher-' + name, 'largest_common_subgraph %s' % name, repr(got), None,
             [] if got == want else ['matcher on %s: answers %r, expected %r' % (name, got, want)], False)
drng = chk.rng('matcher-nosym')
qs, keep = [], []
for t in range(6):
    n = drng.randint(3, 6)
    atoms = [drng.choice('CCON') for _ in range(n)]
    edges = [(i, drng.randrange(i)) for i in range(1, n)]
    graph = _g(atoms, edges)
    drop = drng.randrange(n)
    sub = nx.relabel_nodes(graph.subgraph([i for i in range(n) if i != drop]).copy(),
                           {i: 10 + i for i in range(n)})
    sub.add_node(99, element=drng.choice('CS'))
    sub.add_edge(99, drng.choice([x for x in sub.nodes if x != 99]))
    for symmetry in (False, True):
        got = list(REAL_ISMAGS(graph, sub, node_match=_nm, cache={}).largest_common_subgraph(symmetry))
        gn = [[x, elcode(sub.nodes[x]['element'])] for x in sub.nodes]
        sn = [[x, elcode(graph.nodes[x]['element'])] for x in graph.nodes]
        for a in got:
            qs.append(line('mcismem', gn, [list(e) for e in sub.edges], bfs_order(sn, [list(e) for e in graph.edges]),
                           [list(e) for e in graph.edges], [[[x, y] for x, y in a.items()]]))
            keep.append(('matcher-sym%d-%d' % (symmetry, t), a))
for (cid, a), r in zip(keep, chk.drv.ask(qs) if chk.lean_ok and qs else [None] * len(qs)):
    chk.count('matcher_direct_answers')
    chk.case(cid, 'largest_common_subgraph %s %r' % (cid, a), repr(sorted(a.items())), None,
             [] if r is None or r.endswith(' [ 1 ]') else ['%s: answer %r is not a maximum common induced subgraph (%s)' % (cid, a, r)],
             False)

chk.finish()
