#!/venv/bin/python
"""C01 - resolution transformation conserves atoms, residues and connectivity.
Model: lean/VermouthModel/C01.lean; theorems: lean/VermouthProps/C01.lean.

Every case is a toy pair of force fields (source residues, target blocks, block mappings) built
through the public classes (ForceField, Block, Mapping, Molecule) plus a molecule tiled from the
source residues.  The REAL do_mapping runs on it; the raw matches the real matcher yields are
recorded (in order) and sent with the same input to the Lean model (`map`), the matches themselves
are compared as a set with the Lean reference matcher (`matches`) and with an independent
brute-force matcher in Python; an independent oracle states the property on the real result."""
import copy
import itertools
import logging
from fractions import Fraction
from common import *

chk = Check('C01')
chk.extra['rule'] = ('toy source/target force fields (1-3 residue types; one-to-one, many-to-one, shared atoms, zero '
                     'weights, spawned beads, unmapped atoms, two-residue and duplicate mappings, references) and '
                     'molecules tiled from the source residues (linear, branched, cross-linked; contiguous, sparse and '
                     'permuted keys; shuffled node order; chains); a case is non-trivial if it has >= 2 placements and '
                     '>= 1 bond between placements, or an overlap / unmapped / spawned feature; distinct = distinct '
                     'protocol line')
chk.lean(['VermouthProps.C01', 'VermouthProps.C01_Attr', 'VermouthProps.C01_ModAttr', 'VermouthProps.C01_Events',
          'VermouthProps.C01_AttrLink', 'VermouthProps.C01_Pred'], 'driver_c01')

import networkx as nx
import vermouth
import vermouth.forcefield
import vermouth.map_parser
from vermouth.molecule import Molecule, Block
from vermouth.map_parser import Mapping
from vermouth.molecule import Choice, NotDefinedOrNot
from vermouth.processors.do_mapping import do_mapping

chk.trusted.append('harness/c01.py: toy force-field/molecule builder, recorder of the raw matches (subclass of '
                   'MappingGraphMatcher installed in vermouth.map_parser), canonicaliser, brute-force matcher and '
                   'property oracle; python Fractions for the weights (all generated weights are dyadic, so exact)')
KNOWN_IDS = {k['id'] for k in chk.known if k.get('status') == 'known'}
KEEP, MUST, STASH = ('chain',), ('resname',), ('resid',)

# ----------------------------------------------------------------------------
# recording the raw matches and the warnings
# ----------------------------------------------------------------------------
RECORD = []
_OrigMatcher = vermouth.map_parser.MappingGraphMatcher


class RecMatcher(_OrigMatcher):
    def subgraph_isomorphisms_iter(self):
        for m in super().subgraph_isomorphisms_iter():
            RECORD.append((id(self.G2), list(m.items())))
            yield m


vermouth.map_parser.MappingGraphMatcher = RecMatcher

LOGS = []
LOGARGS = []          # parallel to LOGS: the positional arguments of the message (copied)


class LogHandler(logging.Handler):
    def emit(self, record):
        LOGS.append((record.levelno, getattr(record, 'type', '?'), str(getattr(record.msg, 'fmt', record.msg))))
        args = getattr(record.msg, 'args', ())
        LOGARGS.append(tuple(list(a) if isinstance(a, list) else a for a in args))


_lg = logging.getLogger('vermouth')
_lg.handlers[:] = []
_lg.addHandler(LogHandler())
_lg.setLevel(logging.DEBUG)
_lg.propagate = False


def warn_kinds(logs):
    """[overlap, garbage, disconnected, unmapped, hydrogens] from the captured records"""
    ov = ga = di = un = hy = 0
    other = []
    for lvl, typ, msg in logs:
        if msg.startswith('These atoms are covered by multiple blocks'):
            ov += 1
        elif msg.startswith('The attributes'):
            ga += 1
        elif msg.startswith('The input particle'):
            di += 1
        elif msg.startswith('These atoms are not covered by a mapping'):
            un += 1
        elif msg.startswith('These hydrogen atoms'):
            hy += 1
        else:
            other.append((lvl, typ, msg[:40]))
    return [ov, ga, di, un, hy], other


# ----------------------------------------------------------------------------
# spec -> real objects
# ----------------------------------------------------------------------------
def wval(s):
    f = Fraction(s)
    return int(f) if f.denominator == 1 else float(f)


def unspec(attrs):
    """JSON-able attribute dictionary of a spec -> the real one: {'__choice__': [...]} becomes a Choice,
    {'__notdef__': v} a NotDefinedOrNot (the LinkPredicates map_parser / ffinput produce from `a|b`)"""
    out = {}
    for k, v in attrs.items():
        if isinstance(v, dict) and '__choice__' in v:
            out[k] = Choice(list(v['__choice__']))
        elif isinstance(v, dict) and '__notdef__' in v:
            out[k] = NotDefinedOrNot(v['__notdef__'])
        else:
            out[k] = v
    return out


def build(spec):
    ffa = vermouth.forcefield.ForceField(name='c01src')
    ffb = vermouth.forcefield.ForceField(name='c01tgt')
    mol = Molecule(force_field=ffa)
    for key, attrs in spec['atoms']:
        mol.add_node(key, **attrs)
    for a, b in spec['edges']:
        mol.add_edge(a, b)
    mol.citations.update(spec.get('cites', []))
    maps = {}
    for i, ms in enumerate(spec['mappings']):
        bf = Block(force_field=ffa)
        bf.name = ms['name']
        for k, attrs in ms['from_nodes']:
            bf.add_node(k, **unspec(attrs))
        for a, b in ms['from_edges']:
            bf.add_edge(a, b)
        bt = Block(force_field=ffa if ms.get('foreign_ff') else ffb)
        bt.name = ms['name']
        bt.nrexcl = ms['nrexcl']
        bt.citations.update(ms.get('cites', []))
        for level, entry, fmaps in ms.get('logs', []):
            bt.log_entries[level][entry] = [dict(fm) for fm in fmaps]
        for k, attrs in ms['to_nodes']:
            bt.add_node(k, **attrs)
        for a, b in ms['to_edges']:
            bt.add_edge(a, b)
        for entry in ms['to_inters']:
            typ, atoms, params = entry[:3]
            if len(entry) > 3 and entry[3] is not None:
                bt.add_interaction(typ, atoms, list(params), meta={'version': entry[3]})
            else:
                bt.add_interaction(typ, atoms, list(params))
        mapping = {f: {t: wval(w) for t, w in ws} for f, ws in ms['mapping']}
        maps['%s_%d' % (ms['name'], i)] = Mapping(bf, bt, mapping=mapping, references=dict(ms['refs']),
                                                  ff_from=ffa, ff_to=ffb, names=(ms['name'],))
    return mol, {'c01src': {'c01tgt': maps}}, ffb


def run_real(spec):
    """-> (status, out molecule or None, raw matches [(mapping index, [(atom, from node)])], logs)"""
    mol, mappings, ffb = build(spec)
    mlist = list(mappings['c01src']['c01tgt'].values())
    ids = {id(m.block_from): i for i, m in enumerate(mlist)}
    RECORD.clear()
    LOGS.clear()
    LOGARGS.clear()
    try:
        out = do_mapping(mol, mappings, ffb, attribute_keep=KEEP, attribute_must=MUST, attribute_stash=STASH)
        status = 'ok'
    except ValueError:
        out, status = None, 'valueerror'
    except KeyError:
        out, status = None, 'keyerror'
    except Exception as err:                      # anything else: reported, never fatal for the check
        out, status = None, 'exception-' + type(err).__name__.lower()
    raw = [(ids[i], m) for i, m in RECORD if i in ids]
    return status, out, raw, list(LOGS), mol, mlist


def frac(w):
    f = Fraction(w)
    return '%d/%d' % (f.numerator, f.denominator)


def canon_real(status, out, logs):
    if status != 'ok':
        return 'error ' + status
    beads = []
    for k in out.nodes:
        a = out.nodes[k]
        g = a.get('graph')
        w = a.get('mapping_weights', {})
        beads.append([k, a.get('atomname'), a.get('resid'), a.get('charge_group'), a.get('_old_resid'),
                      sorted(g.nodes) if g is not None else [],
                      [[m, frac(w[m])] for m in sorted(w)]])
    edges = sorted(sorted(e) for e in out.edges)
    inters = []
    for typ in sorted(out.interactions):
        for it in out.interactions[typ]:
            inters.append([typ, list(it.atoms), ' '.join(str(p) for p in it.parameters)])
    kinds, _ = warn_kinds(logs)
    warn = [bool(kinds[0]), kinds[1], kinds[2], bool(kinds[3]), bool(kinds[4])]
    return 'ok ' + ' '.join(enc(x) for x in (beads, edges, inters, warn))


# ----------------------------------------------------------------------------
# spec -> protocol lines
# ----------------------------------------------------------------------------
def enc_atoms(mol):
    return [[k, a['resid'], a['resname'], a['chain'], a.get('element', '') == 'H'] for k, a in mol.nodes(data=True)]


def enc_inters(graph, tidx):
    inters = []
    for typ in sorted(graph.interactions):
        for it in graph.interactions[typ]:
            inters.append([typ, [tidx[x] for x in it.atoms], ' '.join(str(p) for p in it.parameters),
                           it.meta.get('version', 0)])
    return inters


def enc_weights(m, fidx, tidx):
    weights = []
    for f, ws in m.mapping.items():
        if f in fidx:
            weights.append([fidx[f], [[tidx[t], Fraction(w).numerator, Fraction(w).denominator]
                                      for t, w in ws.items()]])
    return weights


def enc_raw(mlist, raw):
    rawl = []
    for i, mt in raw:
        fidx = {k: j for j, k in enumerate(mlist[i].block_from.nodes)}
        rawl.append([i, [[a, fidx[f]] for a, f in mt]])
    return rawl


def enc_block_maps(mlist, raw):
    maps = []
    for m in mlist:
        fidx = {k: i for i, k in enumerate(m.block_from.nodes)}
        tidx = {k: i for i, k in enumerate(m.block_to.nodes)}
        nodes = [[tidx[k], a.get('atomname'), a.get('resid'), a.get('charge_group')]
                 for k, a in m.block_to.nodes(data=True)]
        edges = [[tidx[a], tidx[b]] for a, b in m.block_to.edges]
        refs = [[tidx[t], fidx.get(f, -1)] for t, f in m.references.items()]
        maps.append([nodes, edges, enc_inters(m.block_to, tidx), m.block_to.nrexcl, enc_weights(m, fidx, tidx), refs])
    return maps, enc_raw(mlist, raw)


def enc_mod_maps(mlist, raw):
    mods = []
    for m in mlist:
        fidx = {k: i for i, k in enumerate(m.block_from.nodes)}
        tidx = {k: i for i, k in enumerate(m.block_to.nodes)}
        nodes = [[tidx[k], a.get('atomname'), a.get('resid'), a.get('charge_group'), bool(a.get('PTM_atom', False))]
                 for k, a in m.block_to.nodes(data=True)]
        edges = [[tidx[a], tidx[b]] for a, b in m.block_to.edges]
        refs = [[tidx[t], fidx.get(f, -1)] for t, f in m.references.items()]
        mods.append([nodes, edges, enc_inters(m.block_to, tidx), enc_weights(m, fidx, tidx), refs])
    return mods, enc_raw(mlist, raw)


def proto_map(spec, mlist, raw):
    atoms = [[k, a['resid'], a['resname'], a['chain'], a.get('element', '') == 'H'] for k, a in spec['atoms']]
    maps, rawl = enc_block_maps(mlist, raw)
    return line('map', atoms, spec['edges'], maps, rawl)


def sattrs(attrs):
    return [[k, str(v)] for k, v in attrs.items() if k != 'resid']


def proto_matches(spec, m):
    fidx = {k: i for i, k in enumerate(m.block_from.nodes)}
    mn = [[k, sattrs(a), a.get('resid')] for k, a in spec['atoms']]
    pn = [[fidx[k], [[x, str(v)] for x, v in a.items()], a.get('resid')] for k, a in m.block_from.nodes(data=True)]
    pe = [[fidx[a], fidx[b]] for a, b in m.block_from.edges]
    return line('matches', mn, spec['edges'], pn, pe)


def pv(v):
    """a Python attribute value for the predicate matcher model: None or a type-tagged text"""
    if v is None:
        return None
    if isinstance(v, str):
        return 's' + v
    if isinstance(v, bool):
        return 'b%s' % v
    if isinstance(v, int):
        return 'i%d' % v
    return 'r' + repr(v)


def tval(v):
    if isinstance(v, Choice):
        return ['c', [pv(x) for x in v.value]]
    if isinstance(v, NotDefinedOrNot):
        return ['n', pv(v.value)]
    return ['p', pv(v)]


def has_predicate(bf):
    return any(isinstance(v, vermouth.molecule.LinkPredicate) for _, a in bf.nodes(data=True) for v in a.values())


def proto_matchesp(mol, m, block=True):
    """molecule and block_from for the reference matcher that knows LinkPredicates (driver op `matchesp`);
    `modifications` travel as lists of names"""
    def mods(a):
        return None if 'modifications' not in a else [x.name for x in a['modifications']]
    fidx = {k: i for i, k in enumerate(m.block_from.nodes)}
    mn = [[k, [[str(x), pv(v)] for x, v in a.items() if x != 'modifications'], a.get('resid'), mods(a)]
          for k, a in mol.nodes(data=True)]
    pn = [[fidx[k], [[str(x), tval(v)] for x, v in a.items() if x != 'modifications'], a.get('resid'), mods(a)]
          for k, a in m.block_from.nodes(data=True)]
    pe = [[fidx[a], fidx[b]] for a, b in m.block_from.edges]
    return line('matchesp', bool(block), mn, [list(e) for e in mol.edges], pn, pe)


def canon_matches(m, mts):
    fidx = {k: j for j, k in enumerate(m.block_from.nodes)}
    return sorted([x for a, f in sorted(((fidx[f], a) for a, f in mt)) for x in (a, f)] for mt in mts)


# ----------------------------------------------------------------------------
# independent brute-force matcher (oracle side)
# ----------------------------------------------------------------------------
IGNORE = {'atype', 'charge', 'charge_group', 'mass', 'resid', 'replace', '_old_atomname'}


def value_fits(present, value, want):
    """does an atom whose attribute is `value` (`present`: the key exists) satisfy the template value `want`:
    equal, or - `want` a Choice - one of the listed values, or - a NotDefinedOrNot - absent or different"""
    if isinstance(want, Choice):
        return value in want.value
    if isinstance(want, NotDefinedOrNot):
        return (not present) or value != want.value
    return value == want


def brute_matches(mol, bf, mode='block'):
    """all induced embeddings of block_from `bf` into `mol` with fitting atomname/other attributes (plain values
    equal, LinkPredicates satisfied) and - block mappings - agreeing same-residue-ness on every bond; mode 'mod':
    the rule for modification mappings (no residue condition; empty resname / false PTM_atom of the template do
    not count; every modification the template names is among the atom's): list of {from node: atom}"""
    pnodes = list(bf.nodes)
    # order the pattern so that a node follows a neighbour when possible
    order, seen = [], set()
    while len(order) < len(pnodes):
        nxt = next((p for p in pnodes if p not in seen and any(q in seen for q in bf[p])), None)
        if nxt is None:
            nxt = next(p for p in pnodes if p not in seen)
        order.append(nxt)
        seen.add(nxt)

    def node_ok(p, t):
        pa, ta = bf.nodes[p], mol.nodes[t]
        if bf.has_edge(p, p) != mol.has_edge(t, t):      # induced: a self-loop is matched by a self-loop only
            return False
        for k, v in pa.items():
            if k in IGNORE:
                continue
            if mode == 'mod' and k in ('resname', 'PTM_atom') and not v:
                continue
            if mode == 'mod' and k == 'modifications':
                if 'modifications' not in ta or not all(any(x is y or x == y for y in ta['modifications']) for x in v):
                    return False
                continue
            if k == 'atomname':
                if not value_fits(True, ta.get('_old_atomname', ta.get('atomname')), pa.get('_old_atomname', v)):
                    return False
            elif k == 'order' and 'order' not in ta:
                continue
            elif not value_fits(k in ta, ta.get(k), v):
                return False
        return True

    cands = {p: [t for t in mol.nodes if node_ok(p, t)] for p in pnodes}
    res = []

    def rec(i, asg):
        if i == len(order):
            res.append(dict(asg))
            return
        p = order[i]
        for t in cands[p]:
            if t in asg.values():
                continue
            ok = True
            for q, s in asg.items():
                pe, te = bf.has_edge(p, q), mol.has_edge(t, s)
                if pe != te:
                    ok = False
                    break
                if mode == 'block' and pe and ((bf.nodes[p].get('resid') == bf.nodes[q].get('resid'))
                                               != (mol.nodes[t].get('resid') == mol.nodes[s].get('resid'))):
                    ok = False
                    break
            if ok:
                asg[p] = t
                rec(i + 1, asg)
                del asg[p]
    rec(0, {})
    return res


# ----------------------------------------------------------------------------
# the oracle: the property statement on the real result
# ----------------------------------------------------------------------------
def oracle(spec, mol, mlist, out, logs, raw):
    """-> (errors, info) ; errors = [(clause, message)]"""
    errs = []
    info = {}
    # placements = every place where a mapping fits (brute force, independent of the code's matcher)
    places = []
    for i, m in enumerate(mlist):
        for emb in brute_matches(mol, m.block_from):
            places.append((i, emb))
    real_set = sorted((i, tuple(sorted((f, a) for a, f in mt))) for i, mt in raw)
    brute_set = sorted((i, tuple(sorted(emb.items()))) for i, emb in places)
    if real_set != brute_set:
        errs.append(('matches', 'the matcher found %d placements, brute force %d (first difference %r)'
                     % (len(real_set), len(brute_set),
                        next(iter(set(real_set) ^ set(brute_set))))))
        return errs, info
    info['placements'] = len(places)
    info['first_not_min'] = any(mt and mt[0][0] != min(x for x, _ in mt) for _, mt in raw)
    atomsets = [set(emb.values()) for _, emb in places]
    shared = set()
    for a, b in itertools.combinations(range(len(places)), 2):
        shared |= atomsets[a] & atomsets[b]
    info['overlap'] = bool(shared)
    types = [(lvl, typ) for lvl, typ, _ in logs]
    # ---- block copies, in input order -----------------------------------------------------------
    keyed = sorted(range(len(places)), key=lambda j: min(atomsets[j]))
    groups = [list(g) for _, g in itertools.groupby(keyed, key=lambda j: min(atomsets[j]))]
    outkeys = list(out.nodes)
    order_errs, order = check_copies(spec, mol, mlist, out, outkeys, places, groups)
    errs.extend(order_errs)
    best = (order_errs, order)
    # ---- edges between particles of different placements -------------------------------------------
    bead_of = {}     # out key -> (placement number in order, block node)
    pos = 0
    for n, j in enumerate(order):
        i, emb = places[j]
        for b in mlist[i].block_to.nodes:
            if pos < len(outkeys):
                bead_of[outkeys[pos]] = (n, b)
            pos += 1
    spawned = set()
    for k, (n, b) in bead_of.items():
        i, emb = places[order[n]]
        if not any(b in ws for ws in mlist[i].mapping.values()):
            spawned.add(k)
    info['spawned'] = len(spawned)
    info['bead_of'], info['order'], info['places'] = bead_of, order, places
    cons = {k: set(out.nodes[k].get('mapping_weights', {})) for k in outkeys}
    inter_bonds = 0
    if not shared and not best[0]:
        for u, v in itertools.combinations(outkeys, 2):
            if u not in bead_of or v not in bead_of or bead_of[u][0] == bead_of[v][0]:
                continue
            has = out.has_edge(u, v)
            if u in spawned or v in spawned:
                if has:
                    errs.append(('inter_edge', 'particle %r built from no atom is bonded to %r of another placement'
                                 % (u if u in spawned else v, v if u in spawned else u)))
                continue
            bonded = any(mol.has_edge(a, b) for a in cons[u] for b in cons[v])
            inter_bonds += bonded
            if bonded != has:
                errs.append(('inter_edge', 'particles %r and %r of different placements: bonded constituents=%s, '
                             'edge=%s' % (u, v, bonded, has)))
    info['inter_bonds'] = inter_bonds
    # ---- no silent loss ---------------------------------------------------------------------------
    contributing = set().union(*cons.values()) if cons else set()
    lost = [a for a in mol.nodes if a not in contributing and mol.nodes[a].get('element', '') != 'H']
    info['lost'] = len(lost)
    if lost and (logging.WARNING, 'unmapped-atom') not in types:
        errs.append(('no_silent_loss', 'non-hydrogen atoms %r contribute to no particle and no unmapped-atom '
                     'warning was raised' % lost[:5]))
    # ---- overlap ----------------------------------------------------------------------------------
    # an atom that contributes to nothing in a placement (empty weight table, no spawned particle in the
    # block) leaves no trace there; the warning is required when the shared atom contributes in every
    # placement that contains it (hypothesis of theorem overlap_warned); the other situation is counted
    def contributes(j, atom):
        i, emb = places[j]
        m = mlist[i]
        f = next(f for f, x in emb.items() if x == atom)
        has_spawned = any(not any(b in ws for ws in m.mapping.values()) for b in m.block_to.nodes)
        return bool(m.mapping.get(f)) or has_spawned
    strict = set(shared)       # F-C01-4 is fixed: every shared atom must be reported
    info['both_empty'] = any(sum(1 for j in range(len(places)) if a in atomsets[j] and not contributes(j, a)) >= 2 for a in shared)
    info['overlap_noncontributing'] = any(not contributes(j, a) for a in shared for j in range(len(places)) if a in atomsets[j])
    if strict and (logging.WARNING, 'inconsistent-data') not in types:
        errs.append(('overlap_warned', 'atoms %r are in two placements and no inconsistent-data warning was raised'
                     % sorted(strict)[:5]))
    return errs, info


def check_copies(spec, mol, mlist, out, outkeys, places, groups):
    """clauses about the block copies.  `groups` = the placements sorted by lowest atom key, placements
    with the same lowest key grouped (their mutual order is not fixed by the statement: the copy that
    fits the output at the current position is taken)."""
    exp_n = sum(len(mlist[i].block_to) for i, _ in places)
    if exp_n != len(outkeys):
        return [('assemble_nodes', '%d placements with %d block particles in total, output has %d particles'
                 % (len(places), exp_n, len(outkeys)))], []
    errs, order = [], []
    pos, last_resid = 0, 0
    for g in groups:
        remaining = list(g)
        while remaining:
            best = None
            for j in remaining:
                e, new_last = check_copy(mol, mlist, out, outkeys, places, j, pos, last_resid, len(order))
                if best is None or len(e) < len(best[0]):
                    best = (e, j, new_last)
                if not e:
                    break
            errs.extend(best[0])
            order.append(best[1])
            remaining.remove(best[1])
            pos += len(mlist[places[best[1]][0]].block_to)
            last_resid = best[2]
    # interactions: per type, concatenation of the block interactions in placement order
    want = {}
    pos = 0
    for j in order:
        i, emb = places[j]
        bt = mlist[i].block_to
        local = {b: outkeys[pos + q] for q, b in enumerate(bt.nodes)}
        pos += len(bt)
        for typ, lst in bt.interactions.items():
            for it in lst:
                want.setdefault(typ, []).append((tuple(local[x] for x in it.atoms), tuple(it.parameters)))
    got = {typ: [(tuple(it.atoms), tuple(it.parameters)) for it in lst] for typ, lst in out.interactions.items() if lst}
    # every placement must carry as many interactions per (type, atoms) as its block has
    from collections import Counter
    cw = Counter((typ, at) for typ, lst in want.items() for at, _ in lst)
    cg = Counter((typ, at) for typ, lst in got.items() for at, _ in lst)
    for key in sorted(set(cw) | set(cg)):
        if cw[key] != cg[key]:
            errs.append(('assemble_block_copy', 'interaction %s on particles %r: the block has %d term(s), the '
                         'output has %d' % (key[0], key[1], cw[key], cg[key])))
            break
    if got != want and not any(c == 'assemble_block_copy' for c, _ in errs):
        errs.append(('assemble_block_copy', 'interactions differ from the copies of the block interactions'))
    return errs, order


MOD_OVERLAY = []         # [(modification mapping, {from node: atom})]: the modification matches of the case (xmod stream)
ORACLE_SKIP = set()      # clauses that do not apply under the attribute tuples of the case (attribute stream only)


def check_copy(mol, mlist, out, outkeys, places, j, pos, last_resid, n):
    errs = _check_copy(mol, mlist, out, outkeys, places, j, pos, last_resid, n)
    return [e for e in errs[0] if e[0] not in ORACLE_SKIP], errs[1]


def _check_copy(mol, mlist, out, outkeys, places, j, pos, last_resid, n):
    errs = []
    i, emb = places[j]
    m = mlist[i]
    bt = m.block_to
    local = {}
    for b in bt.nodes:
        local[b] = outkeys[pos]
        pos += 1
    max_resid = last_resid
    for b in bt.nodes:
        k = local[b]
        a = out.nodes[k]
        if a.get('atomname') != bt.nodes[b].get('atomname'):
            errs.append(('assemble_nodes', 'particle %r (placement %d at atoms %r) is %r, the block says %r'
                         % (k, n, sorted(emb.values())[:3], a.get('atomname'), bt.nodes[b].get('atomname'))))
            errs.extend([('assemble_nodes', 'wrong block')] * 3)
            return errs, last_resid
        want_resid = bt.nodes[b].get('resid', 1) + last_resid
        max_resid = max(max_resid, want_resid)
        if a.get('resid') != want_resid:
            errs.append(('resid', 'particle %r of placement %d has resid %r, consecutive renumbering gives %r'
                         % (k, n, a.get('resid'), want_resid)))
        # weights: exactly what the mapping assigns
        want_w = {}
        for f, ws in m.mapping.items():
            if f in emb and b in ws:
                want_w[emb[f]] = Fraction(ws[b])
        if not any(b in ws for ws in m.mapping.values()):
            want_w = {x: Fraction(0) for x in emb.values()}
        # modification mappings laid over this particle: a node of the modification that is not a new particle
        # lands on the particle of that atom name one of its atoms already contributes to; its weights are added,
        # replacing the block mapping's for the same atom
        for mm, memb in MOD_OVERLAY:
            before = set(want_w)
            for b2, a2 in mm.block_to.nodes(data=True):
                if a2.get('PTM_atom') or a2.get('atomname') != bt.nodes[b].get('atomname'):
                    continue
                mine = {memb[f]: Fraction(ws[b2]) for f, ws in mm.mapping.items() if f in memb and b2 in ws}
                if any(x in before for x in mine):
                    want_w.update(mine)
        got_w = {x: Fraction(w) for x, w in a.get('mapping_weights', {}).items()}
        if got_w != want_w:
            errs.append(('weights_exact', 'particle %r records weights %r, the mapping assigns %r'
                         % (k, got_w, want_w)))
        g = a.get('graph')
        if g is None or set(g.nodes) != set(want_w):
            errs.append(('weights_exact', 'particle %r: constituent graph %r, mapping assigns atoms %r'
                         % (k, None if g is None else sorted(g.nodes), sorted(want_w))))
        # stashed resid
        old = a.get('_old_resid')
        if b in m.references and m.references[b] in emb:
            want_old = {mol.nodes[emb[m.references[b]]].get('resid')}
        else:
            want_old = {mol.nodes[x].get('resid') for x in want_w}
        if old not in want_old:
            errs.append(('stash_old_resid', 'particle %r: _old_resid %r, its atoms have %r' % (k, old, want_old)))
    for u, v in bt.edges:
        if u != v and not out.has_edge(local[u], local[v]):
            errs.append(('assemble_block_copy', 'block bond %r-%r missing in placement %d' % (u, v, n)))
    if not any(set(emb.values()) & set(e2.values()) for j2, (i2, e2) in enumerate(places) if j2 != j):
        for u, v in itertools.combinations(bt.nodes, 2):
            if out.has_edge(local[u], local[v]) and not bt.has_edge(u, v):
                errs.append(('assemble_block_copy', 'bond %r-%r in placement %d is not in the block' % (u, v, n)))
    return errs, max_resid


# ----------------------------------------------------------------------------
# generator
# ----------------------------------------------------------------------------
WEIGHTS = ['1', '1', '1', '1', '2', '0', '1/2', '1/4', '3', '3/2']


def gen_ff(rng, feat):
    """residue types and mappings"""
    ntypes = rng.choice([1, 2, 2, 3])
    shared_names = rng.random() < 0.6
    types = []
    for t in range(ntypes):
        resname = 'R' + 'ABC'[t]
        nheavy = rng.choice([1, 2, 2, 3, 3, 4])
        nh = rng.choice([0, 0, 0, 1, 2])
        pre = 'C' if shared_names else 'CNO'[t]
        names = ['%s%d' % (pre, i + 1) for i in range(nheavy)] + ['H%d' % (i + 1) for i in range(nh)]
        edges = []
        for i in range(1, nheavy):
            edges.append((names[rng.randrange(i)], names[i]))
        if nheavy >= 3 and rng.random() < 0.2:
            e = (names[0], names[nheavy - 1])
            if e not in edges and (e[1], e[0]) not in edges:
                edges.append(e)
        for i in range(nh):
            edges.append((names[rng.randrange(nheavy)], names[nheavy + i]))
        if rng.random() < feat.get('p_selfloop', 0.0):
            # a self-loop on an atom (block_from carries it too): semantic_feasibility then has to judge the
            # loop itself with edge_matcher
            n = names[rng.randrange(nheavy)]
            edges.append((n, n))
        types.append({'resname': resname, 'names': names, 'nheavy': nheavy, 'edges': edges})
    nrexcl = rng.choice([None, 1, 1, 3])
    mappings = []

    def target_block(prefix, atoms_by_res, resnames):
        """atoms_by_res: list (per source residue) of from-node keys to map; -> to_nodes/edges/inters/mapping"""
        to_nodes, mapping, beads_all = [], [], []
        local_resid = rng.random() < 0.8
        for r, fatoms in enumerate(atoms_by_res):
            heavy = [f for f in fatoms if not f.split('_')[-1].startswith('H')]
            nb = rng.randint(1, max(1, min(3, len(heavy))))
            beads = ['%sB%d%s' % (prefix, i + 1, '' if len(atoms_by_res) == 1 else 'r%d' % (r + 1)) for i in range(nb)]
            for i, b in enumerate(beads):
                attrs = {'atomname': b, 'resname': rng.choice([resnames[r], 'T' + resnames[r]])}
                if rng.random() < 0.75:
                    attrs['resid'] = (r + 1) if local_resid else 1
                if rng.random() < 0.35:
                    attrs['charge_group'] = rng.randint(1, 3)
                to_nodes.append([b, attrs])
            for q, f in enumerate(fatoms):
                is_h = f.split('_')[-1].startswith('H')
                if is_h and rng.random() < 0.5:
                    continue                        # unmapped hydrogen
                if not is_h and rng.random() < feat['p_unmapped']:
                    continue                        # unmapped heavy atom
                if rng.random() < feat['p_empty']:
                    mapping.append([f, []])
                    continue
                first = beads[q] if q < nb else rng.choice(beads)
                ws = [[first, rng.choice(WEIGHTS)]]
                if nb > 1 and rng.random() < 0.25:
                    second = rng.choice([b for b in beads if b != first])
                    ws.append([second, rng.choice(WEIGHTS)])
                mapping.append([f, ws])
            beads_all.extend(beads)
        if rng.random() < feat['p_spawn']:
            b = prefix + 'D1'
            attrs = {'atomname': b, 'resname': resnames[0]}
            if rng.random() < 0.7:
                attrs['resid'] = 1 if rng.random() < 0.8 else len(atoms_by_res)
            pos = rng.randrange(len(to_nodes) + 1)
            to_nodes.insert(pos, [b, attrs])
            beads_all.insert(pos, b)
        cur = 1                                     # block-local resids never decrease along the node order
        for b, attrs in to_nodes:
            if attrs.get('resid', 1) < cur:
                attrs['resid'] = cur
            cur = attrs.get('resid', 1)
        to_edges, to_inters = [], []
        for i in range(1, len(beads_all)):
            if rng.random() < 0.85:
                u, v = beads_all[rng.randrange(i)], beads_all[i]
                to_edges.append([u, v])
                if rng.random() < 0.7:
                    to_inters.append(['bonds', [u, v], ['1', '0.%d' % rng.randint(1, 9), '1000']])
        if len(beads_all) >= 3 and rng.random() < 0.4:
            to_inters.append(['angles', beads_all[:3], ['2', '120', '25']])
        if len(beads_all) >= 2 and rng.random() < 0.35:
            # several terms on identical atoms (a multi-term dihedral): same version, different versions, or mixed
            datoms = beads_all[:min(4, len(beads_all))]
            nterm = rng.choice([2, 2, 3])
            style = rng.choice(['same', 'same', 'different', 'mixed'])
            for t in range(nterm):
                ver = None if style == 'same' else (t + 1 if style == 'different' else (None if t < 2 else 1))
                to_inters.append(['dihedrals', datoms, ['9', str(60 * t), str(2 + t), str(t + 1)], ver])
        if rng.random() < 0.15:
            to_inters.append(['constraints', beads_all[:2] if len(beads_all) > 1 else beads_all[:1] * 2, ['1', '0.3']])
        refs = []
        if rng.random() < feat['p_ref'] and mapping:
            cand = [(t, f) for f, ws in mapping for t, _ in ws]
            mapped_from = [f for f, ws in mapping if ws]
            spawned = [b for b in beads_all if not any(b == t for f, ws in mapping for t, _ in ws)]
            if spawned and mapped_from and rng.random() < 0.5:
                refs.append([spawned[0], rng.choice(mapped_from)])
            elif cand:
                refs.append(list(rng.choice(cand)))
        return to_nodes, to_edges, to_inters, mapping, refs

    for t, ty in enumerate(types):
        if rng.random() < 0.92:
            copies = 2 if rng.random() < feat['p_dup'] else 1
            for c in range(copies):
                from_nodes = [[n, {'atomname': n, 'resname': ty['resname'], 'resid': 1}] for n in ty['names']]
                if rng.random() < 0.08:
                    for n, a in from_nodes:
                        del a['resname']           # matches any residue with these atom names
                to_nodes, to_edges, to_inters, mapping, refs = target_block(
                    'XYZ'[t] if c == 0 else 'W', [list(ty['names'])], [ty['resname']])
                mappings.append({'name': ty['resname'], 'from_nodes': from_nodes,
                                 'from_edges': [list(e) for e in ty['edges']],
                                 'to_nodes': to_nodes, 'to_edges': to_edges, 'to_inters': to_inters,
                                 'nrexcl': nrexcl, 'mapping': mapping, 'refs': refs})
    # an atom that contributes to nothing in two OVERLAPPING placements (empty weight table in both mappings)
    by_name = {}
    for mp in mappings:
        by_name.setdefault(mp['name'], []).append(mp)
    for group in by_name.values():
        if len(group) >= 2 and rng.random() < feat.get('p_both_empty', 0.35):
            common = [f for f, _ in group[0]['mapping'] if any(f == g for g, _ in group[1]['mapping'])
                      and not f.startswith('H')]
            if common:
                f = rng.choice(common)
                for mp in group[:2]:
                    for entry in mp['mapping']:
                        if entry[0] == f:
                            entry[1] = []
                    mp['refs'] = [r for r in mp['refs'] if r[1] != f]
    link = None
    if rng.random() < feat['p_two']:
        t1, t2 = rng.randrange(ntypes), rng.randrange(ntypes)
        a1 = types[t1]['names'][rng.randrange(types[t1]['nheavy'])]
        a2 = types[t2]['names'][rng.randrange(types[t2]['nheavy'])]
        link = (t1, a1, t2, a2)
        fn = [['r1_' + n, {'atomname': n, 'resname': types[t1]['resname'], 'resid': 1}] for n in types[t1]['names']] + \
             [['r2_' + n, {'atomname': n, 'resname': types[t2]['resname'], 'resid': 2}] for n in types[t2]['names']]
        fe = [['r1_' + a, 'r1_' + b] for a, b in types[t1]['edges']] + \
             [['r2_' + a, 'r2_' + b] for a, b in types[t2]['edges']] + [['r1_' + a1, 'r2_' + a2]]
        to_nodes, to_edges, to_inters, mapping, refs = target_block(
            'P', [['r1_' + n for n in types[t1]['names']], ['r2_' + n for n in types[t2]['names']]],
            [types[t1]['resname'], types[t2]['resname']])
        two = {'name': 'PAIR', 'from_nodes': fn, 'from_edges': fe, 'to_nodes': to_nodes, 'to_edges': to_edges,
               'to_inters': to_inters, 'nrexcl': nrexcl, 'mapping': mapping, 'refs': refs}
        if rng.random() < 0.5:
            # keep the placements disjoint: drop the single-residue mappings of the two types
            names = {types[t1]['resname'], types[t2]['resname']}
            mappings = [m for m in mappings if m['name'] not in names]
        mappings.insert(rng.randrange(len(mappings) + 1), two)
    if mappings and rng.random() < feat['p_nrexcl']:
        rng.choice(mappings)['nrexcl'] = 2
    return types, mappings, link


def gen_molecule(rng, types, link, nres_max):
    nres = rng.choice([1, 2, 2, 3, 3, 4, 5, 6, 8] if nres_max <= 8 else [3, 6, 10, 15, 20, 25])
    seq = []
    for _ in range(nres):
        seq.append(-1 if rng.random() < 0.05 else rng.randrange(len(types)))
    topo = rng.choice(['linear', 'linear', 'branched', 'cross', 'none'])
    unk = {'resname': 'UNK', 'names': ['C1', 'C2'], 'nheavy': 2, 'edges': [('C1', 'C2')]}
    natoms = sum(len((types[t] if t >= 0 else unk)['names']) for t in seq)
    mode = rng.choice(['contig0', 'contig1', 'sparse', 'perm', 'perm'])
    if mode == 'contig0':
        keys = list(range(natoms))
    elif mode == 'contig1':
        keys = list(range(1, natoms + 1))
    elif mode == 'sparse':
        keys = sorted(rng.sample(range(0, 4 * natoms + 5), natoms))
    else:
        keys = rng.sample(range(0, 3 * natoms + 5), natoms)
    two_chains = nres >= 2 and rng.random() < 0.2
    cut = rng.randrange(1, nres) if two_chains else nres
    start = rng.choice([1, 1, 5, 100, -3])
    atoms, edges, res_atoms = [], [], []
    ki = 0
    resid = start
    for r, t in enumerate(seq):
        ty = types[t] if t >= 0 else unk
        if r == cut:
            resid = rng.choice([1, start])
        local = {}
        for n in ty['names']:
            k = keys[ki]
            ki += 1
            local[n] = k
            attrs = {'resid': resid, 'resname': ty['resname'], 'atomname': n, 'chain': 'A' if r < cut else 'B',
                     'element': 'H' if n.startswith('H') else 'C'}
            atoms.append([k, attrs])
        for a, b in ty['edges']:
            if a == b and rng.random() < 0.3:
                continue                                # this residue lacks the self-loop of its type
            edges.append([local[a], local[b]])
        res_atoms.append((t, ty, local))
        resid += rng.choice([1, 1, 1, 2, 7])

    def bond(i, j):
        ti, tyi, li = res_atoms[i]
        tj, tyj, lj = res_atoms[j]
        if link and rng.random() < 0.7:
            if (ti, tj) == (link[0], link[2]):
                return [li[link[1]], lj[link[3]]]
            if (tj, ti) == (link[0], link[2]):
                return [lj[link[1]], li[link[3]]]
        return [li[tyi['names'][rng.randrange(tyi['nheavy'])]], lj[tyj['names'][rng.randrange(tyj['nheavy'])]]]

    inter = []
    if topo in ('linear', 'cross'):
        inter = [bond(i - 1, i) for i in range(1, nres)]
    elif topo == 'branched':
        inter = [bond(rng.randrange(i), i) for i in range(1, nres)]
    if topo == 'cross' and nres >= 3:
        for _ in range(rng.randint(1, 3)):
            i, j = rng.sample(range(nres), 2)
            inter.append(bond(i, j))
    for e in inter:
        if e not in edges and e[::-1] not in edges and e[0] != e[1]:
            edges.append(e)
    if rng.random() < 0.2:
        rng.shuffle(atoms)
    if rng.random() < 0.3:
        rng.shuffle(edges)
    return atoms, edges, {'topo': topo, 'keys': mode, 'nres': nres}


def pattern_components(ms):
    """number of connected components of block_from once the unmapped atoms are removed"""
    g = nx.Graph()
    mapped = {f for f, _ in ms['mapping']}
    g.add_nodes_from(mapped)
    g.add_edges_from((a, b) for a, b in ms['from_edges'] if a in mapped and b in mapped)
    return nx.number_connected_components(g) if len(g) else 1


def gen_case(rng, nres_max, feat):
    """A block_from that falls apart (an unmapped atom in its middle) matches once per COMBINATION of
    residues; with many residues the number of placements explodes (the real code then needs minutes:
    combinations(all_matches, 2)).  Such force fields are only combined with short molecules."""
    while True:
        types, mappings, link = gen_ff(rng, feat)
        atoms, edges, meta = gen_molecule(rng, types, link, nres_max)
        worst = max([pattern_components(ms) for ms in mappings] + [1])
        if meta['nres'] ** worst <= 64:
            return {'atoms': atoms, 'edges': edges, 'mappings': mappings}, meta
        chk.count('excluded_explosive_disconnected_block_from')


# ----------------------------------------------------------------------------
# known-finding signatures
# ----------------------------------------------------------------------------
def finding_of(clauses, spec):
    """a failing case is downgraded only if EVERY failed clause is explained by the signature"""
    # F-C01-1 and F-C01-2 are fixed in /repo: nothing is downgraded
    return None


# ----------------------------------------------------------------------------
# main loop
# ----------------------------------------------------------------------------
FEAT = {'p_selfloop': 0.04, 'p_unmapped': 0.08, 'p_empty': 0.03, 'p_spawn': 0.3, 'p_ref': 0.2, 'p_dup': 0.2, 'p_both_empty': 0.6, 'p_two': 0.35,
        'p_nrexcl': 0.02}
cases = []
corpus_file = os.path.join(VERIF, 'corpus', 'c01_hard.json')
if os.path.exists(corpus_file):
    for i, c in enumerate(json.load(open(corpus_file))['cases']):
        cases.append(('corpus-%d-%s' % (i, c.get('name', '')), c['spec'], {'topo': 'corpus', 'keys': 'corpus', 'nres': 0}))
rng = chk.rng('cases')
N = int(os.environ.get('C01_N', 16000 if chk.thorough else 450))
for i in range(N):
    big = chk.thorough and i % 10 == 0
    spec, meta = gen_case(rng, 25 if big else 8, FEAT)
    cases.append(('gen-%d' % i, spec, meta))

lines, recs = [], []
mlines = []
for cid, spec, meta in cases:
    if os.environ.get('C01_TRACE'):
        print(cid, len(spec['atoms']), len(spec['mappings']), round(chk.elapsed(), 1), flush=True)
    status, out, raw, logs, mol, mlist = run_real(spec)
    ln = proto_map(spec, mlist, raw)
    impl = canon_real(status, out, logs)
    errs, info = ([], {})
    if status == 'ok':
        errs, info = oracle(spec, mol, mlist, out, logs, raw)
    small = len(spec['atoms']) <= 40
    if small:
        for i, m in enumerate(mlist):
            if len(m.block_from) == 0:
                continue
            fidx = {k: j for j, k in enumerate(m.block_from.nodes)}
            real = sorted([x for a, f in sorted(((fidx[f], a) for a, f in mt)) for x in (a, f)]
                          for mi, mt in raw if mi == i)
            mlines.append((cid + '-m%d' % i, proto_matches(spec, m), enc(real), len(real)))
    # the executable model is quadratic-to-cubic in the number of placements (association lists, the
    # connectivity test): cases with very many (overlapping) placements are left to the oracle
    many = len(raw) > 45
    lines.append(None if many else ln)
    recs.append((cid, spec, meta, status, impl, errs, info, logs, ln))

asked = [l for l in lines if l is not None]
answers = iter(chk.drv.ask(asked) if chk.lean_ok else [None] * len(asked))
models = [None if l is None else next(answers) for l in lines]
for (cid, spec, meta, status, impl, errs, info, logs, ln), sent, mo in zip(recs, lines, models):
    if sent is None:
        chk.count('model_skipped_more_than_45_placements')
    kinds, other = warn_kinds(logs)
    npl = info.get('placements', 0)
    nontriv = status == 'ok' and ((npl >= 2 and info.get('inter_bonds', 0) >= 1) or info.get('overlap')
                                  or info.get('lost') or info.get('spawned'))
    chk.count('status=' + status)
    chk.count('topo=' + meta['topo'])
    chk.count('keys=' + meta['keys'])
    chk.count('placements=%s' % (npl if npl < 6 else '6+'))
    for name, flag in (('atom_empty_in_two_overlapping_placements', info.get('both_empty')),
                       ('repeated_interaction_same_atoms', any(len({(e[0], tuple(e[1])) for e in m['to_inters']}) < len(m['to_inters']) for m in spec['mappings'])),
                       ('first_matched_atom_not_lowest_key', info.get('first_not_min')), ('overlap', info.get('overlap')), ('overlap_noncontributing_atom', info.get('overlap_noncontributing')), ('spawned', info.get('spawned')), ('lost_atoms', info.get('lost')),
                       ('inter_bonds', info.get('inter_bonds')), ('warn_garbage', kinds[1]), ('warn_disconnected', kinds[2]),
                       ('warn_hydrogens', kinds[4]), ('two_residue_mapping', any(m['name'] == 'PAIR' for m in spec['mappings'])),
                       ('references', any(m['refs'] for m in spec['mappings'])), ('unexpected_log', other),
                       ('self_loop_in_molecule', any(a == b for a, b in spec['edges'])),
                       ('self_loop_in_block_from', any(a == b for m in spec['mappings'] for a, b in m['from_edges']))):
        if flag:
            chk.count('feature_' + name)
    fid = finding_of(errs, spec) if errs else None
    if fid and fid not in KNOWN_IDS:
        fid = None
    chk.case(cid, ln, impl, mo, ['%s: %s' % e for e in errs], bool(nontriv), finding=fid)

mmodels = chk.drv.ask([l for _, l, _, _ in mlines]) if chk.lean_ok else [None] * len(mlines)
for (cid, ln, real, n), mo in zip(mlines, mmodels):
    chk.count('matches_compared')
    chk.case(cid, ln, real, mo, [], n >= 2)

# ----------------------------------------------------------------------------
# modification mappings: toy modifications built through Link / Mapping(type='modification'),
# real do_mapping vs the Lean model (`mapmod`), selection of the mappings vs `modselect`,
# the real `cover` vs the model's, and an oracle.  Known finding F-C01-3 (do_mapping.py:336,
# upstream issue #154) is tagged by its signature.
# ----------------------------------------------------------------------------
from vermouth.molecule import Link
from vermouth.processors.do_mapping import cover as real_cover
import vermouth.processors.do_mapping as DM

MAPCALLS = []
_orig_map = Mapping.map


def _rec_map(self, graph, node_match=None, edge_match=None):
    MAPCALLS.append((self.type, tuple(self.names)))
    return _orig_map(self, graph, node_match=node_match, edge_match=edge_match)


Mapping.map = _rec_map


def run_with_mods(mol, mappings, to_ff, keep=KEEP, must=MUST, stash=STASH):
    """-> status, out, raw block matches, raw mod matches, logs, block mlist, mod mlist, called mod names"""
    coll = list(mappings[mol.force_field.name][to_ff.name].values())
    blocks = [m for m in coll if m.type == 'block']
    mods = [m for m in coll if m.type == 'modification']
    bid = {id(m.block_from): i for i, m in enumerate(blocks)}
    mid = {id(m.block_from): i for i, m in enumerate(mods)}
    RECORD.clear()
    LOGS.clear()
    LOGARGS.clear()
    MAPCALLS.clear()
    try:
        out = do_mapping(mol, mappings, to_ff, attribute_keep=keep, attribute_must=must, attribute_stash=stash)
        status = 'ok'
    except ValueError:
        out, status = None, 'valueerror'
    except KeyError:
        out, status = None, 'keyerror'
    except Exception as err:                      # anything else: reported, never fatal for the check
        out, status = None, 'exception-' + type(err).__name__.lower()
    rawb = [(bid[i], m) for i, m in RECORD if i in bid]
    rawm = [(mid[i], m) for i, m in RECORD if i in mid]
    called = [n for t, n in MAPCALLS if t == 'modification']
    return status, out, rawb, rawm, list(LOGS), blocks, mods, called


def mod_groups(mol):
    """the groups of modification names `modification_matches` works with (computed independently)"""
    modified = [n for n in mol.nodes if mol.nodes[n].get('modifications')]
    sub = nx.Graph()
    sub.add_nodes_from(modified)
    sub.add_edges_from((a, b) for a, b in mol.edges if a in sub and b in sub)
    groups = []
    for comp in nx.connected_components(sub):
        names = set()
        for n in comp:
            names |= {m.name for m in mol.nodes[n]['modifications']}
        groups.append(sorted(names))
    return groups


def build_mod_case(rng):
    """toy: residues X (C1-C2[-C3]) -> B1 [B2]; modifications PHOS / METH on C2, overlaid or creating Q1 / R1"""
    ffa = vermouth.forcefield.ForceField(name='c01src')
    ffb = vermouth.forcefield.ForceField(name='c01tgt')
    three = rng.random() < 0.4
    names = ['C1', 'C2'] + (['C3'] if three else [])
    ba = Block(force_field=ffa)
    ba.name = 'X'
    for n in names:
        ba.add_node(n, resid=1, resname='X', atomname=n)
    ba.add_edges_from(zip(names, names[1:]))
    bb = Block(force_field=ffb)
    bb.name = 'X'
    bb.add_node('B1', resid=1, resname='X', atomname='B1')
    bmap = {'C1': {'B1': 1}, 'C2': {'B1': wval(rng.choice(WEIGHTS))}}
    if three:
        bb.add_node('B2', resid=1, resname='X', atomname='B2')
        bb.add_edge('B1', 'B2')
        bb.add_interaction('bonds', ['B1', 'B2'], ['1', '0.35', '1250'])
        bmap['C3'] = {'B2': 1}
    mappings = {'X': Mapping(ba, bb, mapping=bmap, references={}, ff_from=ffa, ff_to=ffb, names=('X',))}
    defs = {}
    for mname, ptm, anchor in (('PHOS', ['P1', 'P2'], 'C2'), ('METH', ['M1'], 'C3' if three else 'C1')):
        src = Link(force_field=ffa, name=mname)
        src.add_node(anchor, atomname=anchor, PTM_atom=False, resname='X')
        for q in ptm:
            src.add_node(q, atomname=q, PTM_atom=True, resname='X')
        src.add_edges_from(zip([anchor] + ptm, ptm))
        defs[mname] = (src, ptm, anchor)
        kind = rng.choice(['overlay', 'overlay', 'new', 'new', 'none'])
        if kind == 'none':
            continue                                       # no mapping known for this modification
        host = 'B2' if (three and anchor == 'C3') else 'B1'
        tgt = Link(force_field=ffb, name=mname)
        tgt.add_node(host, atomname=host, PTM_atom=False, resname='X')
        mp = {anchor: {host: wval(rng.choice(WEIGHTS))}}
        if kind == 'overlay':
            for q in ptm:
                mp[q] = {host: wval(rng.choice(WEIGHTS))}
            if three and rng.random() < 0.5 and host == 'B1':
                pass
        else:
            newname = 'Q1' if mname == 'PHOS' else 'R1'
            attrs = {'atomname': newname, 'PTM_atom': True, 'resname': 'X'}
            if rng.random() < 0.15:
                attrs['charge_group'] = 7
            tgt.add_node(newname, **attrs)
            tgt.add_edge(host, newname)
            if rng.random() < 0.6:
                tgt.add_interaction('bonds', [host, newname], ['1', '0.2', '5000'])
            for q in ptm:
                mp[q] = {newname: wval(rng.choice(WEIGHTS))}
            if rng.random() < 0.2:
                mp[ptm[0]][host] = wval('1/2')            # a PTM atom shared between the two particles
        refs = {}
        if rng.random() < 0.15:
            refs = {host: anchor}
        mappings[mname] = Mapping(src, tgt, mapping=mp, references=refs, ff_from=ffa, ff_to=ffb, names=(mname,),
                                  type='modification')
    nres = rng.randint(2, 5)
    interleaved = rng.random() < 0.6
    start = rng.choice([1, 1, 3, 10])
    mol = Molecule(force_field=ffa)
    prev = None
    extra = 10 * nres
    plan = []
    res_locals = []
    for r in range(nres):
        local = {}
        for q, n in enumerate(names):
            k = 10 * r + q
            local[n] = k
            mol.add_node(k, resid=start + r, resname='X', atomname=n, chain='A', element='C')
        for a, b in zip(names, names[1:]):
            mol.add_edge(local[a], local[b])
        if prev is not None:
            mol.add_edge(prev, local['C1'])
        prev = local[names[-1]]
        res_locals.append(local)
    style = rng.choice(['random', 'random', 'same_separated', 'two_separated'])
    if style == 'same_separated' and nres >= 3:
        mname = rng.choice(['PHOS', 'METH'])
        for r in list(range(0, nres, 2))[:3]:
            plan.append((r, mname, res_locals[r]))              # residues 0, 2(, 4): never joined
    elif style == 'two_separated' and nres >= 3:
        plan.append((0, 'PHOS', res_locals[0]))
        plan.append((2, 'METH', res_locals[2]))
        if nres >= 5 and rng.random() < 0.5:
            plan.append((4, 'PHOS', res_locals[4]))
    else:
        for r in range(nres):
            for mname in ('PHOS', 'METH'):
                if rng.random() < 0.35:
                    plan.append((r, mname, res_locals[r]))
    for r, mname, local in plan:
        src, ptm, anchor = defs[mname]
        last = local[anchor]
        mol.nodes[last]['modifications'] = mol.nodes[last].get('modifications', []) + [src]
        for q, n in enumerate(ptm):
            if interleaved:
                k = 10 * r + 4 + q + (3 if mname == 'METH' else 0)
            else:
                k = extra
                extra += 1
            mol.add_node(k, resid=start + r, resname='X', atomname=n, chain='A',
                         element='H' if (n == 'M1' and rng.random() < 0.3) else 'P', PTM_atom=True, modifications=[src])
            mol.add_edge(last, k)
            last = k
    return mol, {'c01src': {'c01tgt': mappings}}, ffb, {'nres': nres, 'interleaved': interleaved, 'mods': len(plan)}


def mod_oracle(mol, out, logs, mods, rawm, nres_expected=None):
    errs = []
    types = [(lvl, typ) for lvl, typ, _ in logs]
    cons = {n: dict(out.nodes[n].get('mapping_weights', {})) for n in out.nodes}
    contributing = set().union(*[set(c) for c in cons.values()]) if cons else set()
    # every PTM atom of a matched modification contributes with the declared weight
    for i, mt in rawm:
        m = mods[i]
        for atom, f in mt:
            for t, w in m.mapping.get(f, {}).items():
                want_name = m.block_to.nodes[t]['atomname']
                hits = [n for n in out.nodes if atom in cons[n] and out.nodes[n].get('atomname') == want_name
                        and Fraction(cons[n][atom]) == Fraction(w)]
                if not hits:
                    errs.append(('mod_weights', 'atom %r of a matched modification %s should contribute %s to a '
                                 'particle %s' % (atom, m.names, w, want_name)))
    places = {}
    for i, mt in rawm:
        places.setdefault((i, tuple(sorted(mt))), 0)
        places[(i, tuple(sorted(mt)))] += 1
    twice = [k for k, c in places.items() if c > 1]
    if twice:
        errs.append(('mod_copies', 'modification mapping %s is applied %d times at the same place (atoms %r)'
                     % (mods[twice[0][0]].names, places[twice[0]], [x for x, _ in twice[0][1]])))
    # exactly one new particle per (modification mapping, place) and PTM node
    want_new = {}
    for (i, mt) in places:
        for _, a in mods[i].block_to.nodes(data=True):
            if a.get('PTM_atom'):
                want_new[a['atomname']] = want_new.get(a['atomname'], 0) + 1
    got_new = {}
    for n in out.nodes:
        nm = out.nodes[n].get('atomname')
        if nm in want_new or any(nm == a.get('atomname') and a.get('PTM_atom') for m in mods
                                 for _, a in m.block_to.nodes(data=True)):
            got_new[nm] = got_new.get(nm, 0) + 1
    if got_new != want_new:
        errs.append(('mod_copies', 'new particles %r, one per modification mapping and place would be %r'
                     % (got_new, want_new)))
    # each atom of a modification place contributes exactly what the mapping declares (PTM atoms: nothing else)
    for (i, mt) in places:
        m = mods[i]
        for atom, f in mt:
            if not mol.nodes[atom].get('PTM_atom'):
                continue
            declared = sorted((m.block_to.nodes[t]['atomname'], Fraction(w)) for t, w in m.mapping.get(f, {}).items())
            actual = sorted((out.nodes[n].get('atomname'), Fraction(cons[n][atom])) for n in out.nodes if atom in cons[n])
            if declared != actual:
                errs.append(('mod_weights', 'PTM atom %r contributes %r, its modification mapping declares %r'
                             % (atom, actual, declared)))
    lost = [a for a in mol.nodes if a not in contributing and mol.nodes[a].get('element', '') != 'H']
    if lost and (logging.WARNING, 'unmapped-atom') not in types:
        errs.append(('no_silent_loss', 'atoms %r contribute to no particle, no unmapped-atom warning' % lost[:5]))
    # residues stay numbered consecutively; new particles sit in the residue of the particle they hang on
    newnames = {a['atomname'] for m in mods for _, a in m.block_to.nodes(data=True) if a.get('PTM_atom')}
    seq = []
    for n in out.nodes:
        a = out.nodes[n]
        if a.get('atomname') in newnames:
            hosts = [x for x in out[n] if out.nodes[x].get('atomname') not in newnames]
            if hosts and a.get('resid') != out.nodes[hosts[0]].get('resid'):
                errs.append(('ptm_resid', 'new particle %r has resid %r, the particle it is attached to has %r'
                             % (n, a.get('resid'), out.nodes[hosts[0]].get('resid'))))
        elif a.get('atomname') == 'B1':
            seq.append(a.get('resid'))
    if nres_expected is not None and seq != list(range(1, nres_expected + 1)):
        errs.append(('resid_after_modification', 'residues are numbered %r, expected 1..%d' % (seq, nres_expected)))
    return errs


def canon_mod(status, out, logs):
    return canon_real(status, out, logs)


mrng = chk.rng('modification')
mod_lines, mod_recs, sel_lines, sel_recs = [], [], [], []
for i in range(1500 if chk.thorough else 150):
    mol, mappings, ffb, meta = build_mod_case(mrng)
    status, out, rawb, rawm, logs, blocks, mods, called = run_with_mods(mol, mappings, ffb)
    maps_enc, rawb_enc = enc_block_maps(blocks, rawb)
    mods_enc, rawm_enc = enc_mod_maps(mods, rawm)
    ln = line('mapmod', enc_atoms(mol), [list(e) for e in mol.edges], maps_enc, rawb_enc, mods_enc, rawm_enc)
    errs = (mod_oracle(mol, out, logs, mods, rawm, meta['nres']) if status == 'ok' else
            [('no_crash', 'do_mapping raised %s on a molecule whose modifications all fit their mappings' % status)])
    has_new = any(a.get('PTM_atom') for m in mods for _, a in m.block_to.nodes(data=True))
    mod_lines.append(ln)
    mod_recs.append(('mod-%d' % i, canon_mod(status, out, logs), errs, has_new, meta, status, len(rawm)))
    known = [list(m.names) for m in mods]
    groups = mod_groups(mol)
    ncant = sum(1 for _, _, msg in logs if msg.startswith("Can't find modification mappings"))
    sel_lines.append(line('modselect', known, groups))
    # every needed modification mapping is matched over the molecule exactly ONCE (list, not set)
    sel_recs.append(('modsel-%d' % i, enc(sorted(sorted(n) for n in called)) + ' %d' % ncant, len(groups)))
mod_models = chk.drv.ask(mod_lines) if chk.lean_ok else [None] * len(mod_lines)
for (cid, impl, errs, has_new, meta, status, nm), ln, mo in zip(mod_recs, mod_lines, mod_models):
    cl = {c for c, _ in errs}
    # signature of F-C01-3: a modification mapping of the case creates a new particle and the only failures are:
    # residue numbers restart after it / the new particle carries the input resid instead of its residue's
    fid = 'F-C01-3' if (cl and has_new and cl <= {'resid_after_modification', 'ptm_resid'}
                        and 'F-C01-3' in KNOWN_IDS) else None
    chk.count('mod_status=' + status)
    chk.count('mod_matches=%s' % (nm if nm < 4 else '4+'))
    chk.count('mod_case_' + ('fails_known' if fid else 'fails' if errs else 'passes'))
    chk.case(cid, ln, impl, mo, ['%s: %s' % e for e in errs], nm >= 1, finding=fid)
sel_models = chk.drv.ask(sel_lines) if chk.lean_ok else [None] * len(sel_lines)
for (cid, impl, ng), ln, mo in zip(sel_recs, sel_lines, sel_models):
    chk.count('modselect_compared')
    chk.case(cid, ln, impl, mo, [], ng >= 1)

# the real `cover` against the model's on random name lists
crng = chk.rng('cover')
cov_lines, cov_impl = [], []
ALPHA = ['a', 'b', 'c', 'd', 'e']
for i in range(3000 if chk.thorough else 400):
    tc = [crng.choice(ALPHA) for _ in range(crng.randint(0, 5))]
    if crng.random() < 0.7:
        tc = sorted(set(tc), key=tc.index)
    opts = []
    for _ in range(crng.randint(0, 5)):
        o = crng.sample(ALPHA, crng.randint(1, 3))
        if o not in opts:
            opts.append(o)
    res = real_cover(list(tc), sorted(opts, key=len, reverse=True))
    # one group, `known` = opts: needed = set of chosen options, uncovered = 1 if None
    impl = (enc(sorted(sorted(set(map(tuple, res))))) + ' 0') if res is not None else '[ ] 1'
    cov_lines.append(line('modselect', opts, [tc]))
    cov_impl.append(enc(sorted([list(o) for o in set(map(tuple, res))])) + ' 0' if res is not None else '[ ] 1')
cov_models = chk.drv.ask(cov_lines) if chk.lean_ok else [None] * len(cov_lines)
for i, (ln, im, mo) in enumerate(zip(cov_lines, cov_impl, cov_models)):
    chk.count('cover_compared')
    chk.case('cover-%d' % i, ln, im, mo, [], True)

# ----------------------------------------------------------------------------
# the attribute side (lean/VermouthModel/C01_Attr.lean, op `mapx`): every attribute of every particle
# for ANY attribute_keep / attribute_must / attribute_stash, `replace` and `modifications` of
# modification mappings, the multiple-modification warning, removal of atomname-None particles,
# log entries and citations carried from blocks and modifications, the force-field test of merge_molecule
# ----------------------------------------------------------------------------
SKIP_ATTRS = {'graph', 'mapping_weights', 'modifications', 'replace'}


def xval(v):
    if v is None or isinstance(v, str):
        return v
    if isinstance(v, bool):
        return 'bool:%s' % v
    if isinstance(v, int):
        return v
    return 'repr:' + repr(v)


def xattrs(d, only=None):
    return [[str(k), xval(v)] for k, v in d.items() if k not in SKIP_ATTRS and (only is None or k in only)]


def enc_atoms_x(mol, cfgall):
    """only the attributes attrs_from_node can read (those of the three tuples) are sent"""
    rows = []
    for k, a in mol.nodes(data=True):
        rep = a.get('replace') if 'replace' in a else None
        rows.append([k, xattrs(a, cfgall), None if rep is None else [[str(x), xval(v)] for x, v in rep.items() if x in cfgall],
                     a.get('element', '') == 'H'])
    return rows


def enc_logs_block(bt, tidx):
    return [[str(level), str(entry), [[[str(n), tidx[x]] for n, x in fm.items()] for fm in fmaps]]
            for level, entries in bt.log_entries.items() for entry, fmaps in entries.items()]


def enc_block_maps_x(mlist, raw, to_ff):
    maps = []
    for m in mlist:
        fidx = {k: i for i, k in enumerate(m.block_from.nodes)}
        tidx = {k: i for i, k in enumerate(m.block_to.nodes)}
        nodes = [[tidx[k], xattrs(a), str(k)] for k, a in m.block_to.nodes(data=True)]
        edges = [[tidx[a], tidx[b]] for a, b in m.block_to.edges]
        refs = [[tidx[t], fidx.get(f, -1)] for t, f in m.references.items()]
        maps.append([nodes, edges, enc_inters(m.block_to, tidx), m.block_to.nrexcl,
                     m.block_to.force_field == to_ff, enc_logs_block(m.block_to, tidx),
                     sorted(str(c) for c in m.block_to.citations), enc_weights(m, fidx, tidx), refs])
    return maps, enc_raw(mlist, raw)


def enc_mod_maps_x(mlist, raw):
    mods = []
    for m in mlist:
        fidx = {k: i for i, k in enumerate(m.block_from.nodes)}
        tidx = {k: i for i, k in enumerate(m.block_to.nodes)}
        nodes = [[tidx[k], xattrs(a), bool(a.get('PTM_atom', False)),
                  [[str(x), xval(v)] for x, v in a.get('replace', {}).items()]]
                 for k, a in m.block_to.nodes(data=True)]
        edges = [[tidx[a], tidx[b]] for a, b in m.block_to.edges]
        refs = [[tidx[t], fidx.get(f, -1)] for t, f in m.references.items()]
        logs = [[str(level), str(entry)] for level, entries in m.block_to.log_entries.items() for entry in entries]
        mods.append([nodes, edges, enc_inters(m.block_to, tidx), enc_weights(m, fidx, tidx), refs, logs,
                     sorted(str(c) for c in m.block_to.citations)])
    return mods, enc_raw(mlist, raw)


def proto_mapx(cfg, mol, blocks, rawb, mods, rawm, to_ff):
    keep, must, stash = cfg
    cfgall = set(keep) | set(must) | set(stash)
    maps_enc, rawb_enc = enc_block_maps_x(blocks, rawb, to_ff)
    mods_enc, rawm_enc = enc_mod_maps_x(mods, rawm)
    return line('mapx', [list(keep), list(must), list(stash)], enc_atoms_x(mol, cfgall), [list(e) for e in mol.edges],
                sorted(str(c) for c in mol.citations), maps_enc, rawb_enc, mods_enc, rawm_enc)


def garbage_lists(logs, logargs):
    return [[str(x) for x in args[0]] for (lvl, typ, msg), args in zip(logs, logargs) if msg.startswith('The attributes')]


def canon_x(status, out, logs, logargs, mods):
    if status != 'ok':
        return 'error ' + status
    mid = {id(m.block_to): i for i, m in enumerate(mods)}
    parts = []
    for k in out.nodes:
        a = out.nodes[k]
        g = a.get('graph')
        w = a.get('mapping_weights', {})
        parts.append([k, sorted(xattrs(a)), sorted(g.nodes) if g is not None else [],
                      [[m, frac(w[m])] for m in sorted(w)],
                      [mid.get(id(x), 999) for x in a.get('modifications', []) or []]])
    edges = sorted(sorted(e) for e in out.edges)
    inters = []
    for typ in sorted(out.interactions):
        for it in out.interactions[typ]:
            inters.append([typ, list(it.atoms), ' '.join(str(p) for p in it.parameters)])
    kinds, _ = warn_kinds(logs)
    nmulti = sum(1 for _, _, msg in logs if msg.startswith('Interaction set by multiple'))
    warn = [bool(kinds[0]), garbage_lists(logs, logargs), kinds[2], bool(kinds[3]), bool(kinds[4]), nmulti]
    return 'ok ' + ' '.join(enc(x) for x in (parts, edges, inters, warn))


def canon_x_tail(out, npre):
    """removed keys (the particles are numbered 1..npre before the removal), log entries, citations"""
    removed = sorted(set(range(1, npre + 1)) - set(out.nodes)) if npre is not None else []
    logs = sorted([str(level), str(entry), [sorted([str(n), o] for n, o in fm.items()) for fm in fmaps]]
                  for level, entries in out.log_entries.items() for entry, fmaps in entries.items())
    return ' ' + ' '.join(enc(x) for x in (removed, logs, sorted(str(c) for c in out.citations)))


def view_atom(a, cfgall):
    """independent reading of attrs_from_node"""
    d = dict(a)
    if 'replace' in d:
        d.update(d['replace'])
    return {k: v for k, v in d.items() if k in cfgall}


def attr_oracle(cfg, mol, mlist, out, logs, logargs, info):
    """the attribute clauses of the property on the real result: for every particle with a weight table the
    kept attributes come from its reference atom / one of its constituents (the common value when they agree),
    must-attributes are present when some source has them and never overwrite the block's, stashed values are
    exact, and the 'garbage' warning is raised exactly for the particles whose constituents disagree"""
    keep, must, stash = cfg
    cfgall = set(keep) | set(must) | set(stash)
    errs = []
    bead_of, order, places = info.get('bead_of'), info.get('order'), info.get('places')
    if bead_of is None or 'atomname' in keep or any(('_old_' + s) in cfgall for s in stash):
        return errs, {}
    want_garbage = []
    for k in out.nodes:
        a = out.nodes[k]
        if 'mapping_weights' not in a or k not in bead_of:
            continue
        n, b = bead_of[k]
        i, emb = places[order[n]]
        m = mlist[i]
        blk = dict(m.block_to.nodes[b])
        blk.setdefault('resid', 1)                     # merge_molecule always writes both
        blk.setdefault('charge_group', 1)
        cons = list(a['mapping_weights'])
        ref = emb.get(m.references[b]) if b in m.references else None
        srcs = [view_atom(mol.nodes[ref], cfgall)] if ref is not None else [view_atom(mol.nodes[x], cfgall) for x in cons]
        bad = []
        for attr in list(dict.fromkeys(keep + must + stash)):
            vals = [s_[attr] for s_ in srcs if attr in s_]
            if ref is None and any(v != vals[0] for v in vals[1:]):
                bad.append(attr)
            if attr in keep or attr not in blk:
                if vals:
                    if attr not in a or not any(a[attr] == v and type(a[attr]) == type(v) for v in vals):
                        errs.append(('keep_attr_from_constituents' if attr in keep else 'must_attr_present',
                                     'particle %r: %s = %r, its %s carry %r'
                                     % (k, attr, a.get(attr, '<absent>'), 'reference atom' if ref is not None else 'constituents', vals)))
                    elif a[attr] != vals[0]:
                        errs.append(('keep_attr_from_constituents', 'particle %r: %s = %r, the first source has %r'
                                     % (k, attr, a[attr], vals[0])))
                elif attr in blk and attr not in ('resid', 'charge_group') and a.get(attr, '<absent>') != blk[attr]:
                    errs.append(('keep_attr_from_constituents', 'particle %r: %s = %r, no source carries it and the block '
                                 'says %r' % (k, attr, a.get(attr, '<absent>'), blk[attr])))
            elif attr not in ('resid', 'charge_group') and a.get(attr, '<absent>') != blk[attr]:
                errs.append(('must_attr_present', 'particle %r: %s = %r overwrote the value %r of the block'
                             % (k, attr, a.get(attr, '<absent>'), blk[attr])))
            if attr in stash:
                old = a.get('_old_' + attr, '<absent>')
                if vals and old != vals[0]:
                    errs.append(('stash_value_exact', 'particle %r: _old_%s = %r, expected %r' % (k, attr, old, vals[0])))
                if not vals and ('_old_' + attr) in a and ('_old_' + attr) not in blk:
                    errs.append(('stash_value_exact', 'particle %r: _old_%s = %r although no source has %s'
                                 % (k, attr, old, attr)))
        if bad:
            want_garbage.append(sorted(bad))
    got = sorted(sorted(x) for x in garbage_lists(logs, logargs))
    if sorted(want_garbage) != got:
        errs.append(('garbage_warning_iff', 'garbage warnings for %r, constituents disagree for %r' % (got, sorted(want_garbage))))
    return errs, {'garbage': len(want_garbage)}


ATTR_POOL = ['chain', 'resname', 'resid', 'secstruct', 'mark']


def gen_cfg(rng):
    r = rng.random()
    if r < 0.3:
        return (('chain',), ('resname',), ('resid',))
    if r < 0.4:
        return (('cgsecstruct', 'chain', 'secstruct'), ('resname',), ('resid',))
    keep = tuple(a for a in ATTR_POOL + ['atomname'] if rng.random() < 0.3)
    must = tuple(a for a in ATTR_POOL if rng.random() < 0.3)
    stash = tuple(a for a in ATTR_POOL if rng.random() < 0.3)
    if rng.random() < 0.5:
        keep, must, stash = tuple(rng.sample(keep, len(keep))), tuple(rng.sample(must, len(must))), tuple(rng.sample(stash, len(stash)))
    return keep, must, stash


def gen_attr_case(rng):
    feat = dict(FEAT, p_ref=0.45, p_unmapped=0.04, p_dup=0.1)
    spec, meta = gen_case(rng, 6, feat)
    cfg = gen_cfg(rng)
    tags = set()
    free_resname = rng.random() < 0.6          # block_from without resname: atoms may then differ in resname
    for ms in spec['mappings']:
        if free_resname:
            for n, a in ms['from_nodes']:
                a.pop('resname', None)
        for b, a in ms['to_nodes']:
            if rng.random() < 0.4:
                a.pop('resname', None)
            elif rng.random() < 0.1:
                a['resname'] = None
            if rng.random() < 0.15:
                a['chain'] = rng.choice(['Q', None])
            if rng.random() < 0.15:
                a['secstruct'] = 'T'
            if rng.random() < 0.1:
                a['mark'] = rng.randint(0, 2)
            if rng.random() < 0.05:
                a['_old_resid'] = 77
        if rng.random() < 0.04:
            ms['foreign_ff'] = True
            tags.add('foreign_force_field_block')
        if rng.random() < 0.25:
            tn = [b for b, _ in ms['to_nodes']]
            ms['logs'] = [[rng.choice(['warning', 'info']), 'entry %d for {%s}' % (rng.randint(1, 2), tn[0]),
                           [{tn[0]: tn[0]}] if rng.random() < 0.5 else []]
                          for _ in range(rng.randint(1, 2))]
            tags.add('block_log_entries')
        if rng.random() < 0.3:
            ms['cites'] = rng.sample(['paperA', 'paperB', 'paperC'], rng.randint(1, 2))
    if rng.random() < 0.3:
        spec['cites'] = rng.sample(['paperA', 'molpaper'], rng.randint(1, 2))
    sec = rng.random() < 0.5
    for k, a in spec['atoms']:
        r = rng.random()
        if r < 0.08:
            del a['chain']
            tags.add('atom_without_chain')
        elif r < 0.14:
            a['chain'] = None
            tags.add('chain_None')
        elif r < 0.22:
            a['chain'] = rng.choice('AXY')
            tags.add('chain_perturbed')
        if free_resname and rng.random() < 0.08:
            a['resname'] = rng.choice(['RA', 'ZZ', None])
            tags.add('resname_perturbed')
        if rng.random() < 0.03:
            del a['resid']
            tags.add('atom_without_resid')
        if sec and rng.random() < 0.7:
            a['secstruct'] = rng.choice(['H', 'H', 'C', None])
        if rng.random() < 0.3:
            a['mark'] = rng.randint(0, 2)
        if rng.random() < 0.07:
            a['replace'] = rng.choice([{'chain': 'Z'}, {'resname': 'QQ'}, {'mark': 9}, {'atomname': None},
                                       {'secstruct': 'E', 'newkey': 1}, {}])
            tags.add('atom_with_replace')
    if 'atomname' in cfg[0] and rng.random() < 0.6:
        # a kept atomname that is None after the atom's own `replace`: the particle is removed at the end
        for k, a in rng.sample(spec['atoms'], min(len(spec['atoms']), rng.randint(1, 2))):
            a['replace'] = {'atomname': None}
        tags.add('atom_with_replace')
    return spec, cfg, meta, tags


def run_real_x(spec, cfg):
    mol, mappings, ffb = build(spec)
    status, out, rawb, rawm, logs, blocks, mods, called = run_with_mods(mol, mappings, ffb, keep=cfg[0], must=cfg[1], stash=cfg[2])
    return status, out, rawb, rawm, logs, list(LOGARGS), blocks, mods, mol, ffb


arng = chk.rng('attributes')
ax_lines, ax_recs = [], []
acorpus = []
acorpus_file = os.path.join(VERIF, 'corpus', 'c01_attr.json')
if os.path.exists(acorpus_file):
    for i, c in enumerate(json.load(open(acorpus_file))['cases']):
        acorpus.append(('acorpus-%d-%s' % (i, c.get('name', '')), c['spec'], tuple(tuple(x) for x in c['cfg']), set()))
for i in range(6000 if chk.thorough else 350):
    spec, cfg, meta, tags = gen_attr_case(arng)
    acorpus.append(('attr-%d' % i, spec, cfg, tags))
for cid, spec, cfg, tags in acorpus:
    status, out, rawb, rawm, logs, logargs, blocks, mods, mol, ffb = run_real_x(spec, cfg)
    ln = proto_mapx(cfg, mol, blocks, rawb, mods, rawm, ffb)
    errs, info, ainfo = [], {}, {}
    impl = canon_x(status, out, logs, logargs, mods)
    if status == 'ok':
        npre = sum(len(blocks[i].block_to) for i, _ in rawb)
        impl += canon_x_tail(out, npre)
        removed = npre - len(out)
        if removed:
            tags.add('particles_removed_atomname_None')
            # what can be said without the particle/placement correspondence
            if any(out.nodes[k].get('atomname', '') is None and 'mapping_weights' in out.nodes[k] for k in out.nodes):
                errs.append(('remove_none', 'a particle whose atomname is None survived'))
            if any(x not in out for t, l in out.interactions.items() for it in l for x in it.atoms):
                errs.append(('remove_none', 'an interaction mentions a removed particle'))
        else:
            # the clauses of the block oracle that assume martinize2's tuples are replaced by attr_oracle
            ORACLE_SKIP.clear()
            ORACLE_SKIP.add('stash_old_resid')
            if 'resid' in cfg[0]:
                ORACLE_SKIP.add('resid')
            if 'atomname' not in cfg[0]:
                errs, info = oracle(spec, mol, blocks, out, logs, rawb)
                if not errs:
                    aerrs, ainfo = attr_oracle(cfg, mol, blocks, out, logs, logargs, info)
                    errs = errs + aerrs
            else:
                chk.count('attr_block_oracle_skipped_atomname_kept')
            ORACLE_SKIP.clear()
    for t in tags:
        chk.count('attr_feature_' + t)
    chk.count('attr_status=' + status)
    chk.count('attr_cfg_' + ('martinize2' if cfg == (KEEP, MUST, STASH) else 'other'))
    ng = len(garbage_lists(logs, logargs))
    if ng:
        chk.count('attr_feature_garbage_warning')
    if any(m['refs'] for m in spec['mappings']):
        chk.count('attr_feature_references')
    many = len(rawb) > 45
    ax_lines.append(None if many else ln)
    ax_recs.append((cid, ln, impl, errs, status == 'ok' and (ng > 0 or bool(tags))))
asked = [l for l in ax_lines if l is not None]
answers = iter(chk.drv.ask(asked) if chk.lean_ok else [None] * len(asked))
for (cid, ln, impl, errs, nontriv), sent in zip(ax_recs, ax_lines):
    mo = None if sent is None else next(answers)
    chk.case(cid, ln, impl, mo, ['%s: %s' % e for e in errs], nontriv)

# ----------------------------------------------------------------------------
# modification mappings with `replace` dictionaries (non-core attributes, renamed / None atomname, resid,
# charge_group), repeated interactions inside one modification and the same interaction set by two
# modifications, log entries and citations of the modification, any attribute tuples: real do_mapping vs `mapx`
# ----------------------------------------------------------------------------
REPLACES = [{'atype': 'Q5'}, {'atype': 'Q5', 'mark': 3}, {'atomname': 'B9'}, {'atomname': None}, {'charge_group': 5},
            {'resid': 9}, {'mark': 1, 'atomname': 'B1'}, {}]


def build_rich_mod_case(rng):
    mol, mappings, ffb, meta = build_mod_case(rng)
    tags = set()
    coll = mappings['c01src']['c01tgt']
    mods = [m for m in coll.values() if m.type == 'modification']
    for m in mods:
        bt = m.block_to
        hosts = [n for n, a in bt.nodes(data=True) if not a.get('PTM_atom')]
        news = [n for n, a in bt.nodes(data=True) if a.get('PTM_atom')]
        for h in hosts:
            if rng.random() < 0.55:
                rep = dict(rng.choice(REPLACES))
                bt.nodes[h]['replace'] = rep
                tags.add('replace_' + ('atomname_None' if rep.get('atomname', 0) is None else
                                       'atomname' if 'atomname' in rep else
                                       'resid_or_cg' if ('resid' in rep or 'charge_group' in rep) else 'other'))
        if hosts and rng.random() < 0.15:
            # a second node of the modification with the atom name of the first host: both are laid over the
            # same particle, which must list the modification once
            h = hosts[0]
            anchors = [f for f, ws in m.mapping.items() if h in ws]
            if anchors:
                bt.add_node(h + 'x', atomname=bt.nodes[h]['atomname'], PTM_atom=False, resname='X')
                m.mapping[anchors[0]][h + 'x'] = 1
                tags.add('two_nodes_of_a_modification_on_one_particle')
        for q in news:
            if rng.random() < 0.2:
                bt.nodes[q]['replace'] = {'atype': 'P9'}
            if rng.random() < 0.2:
                bt.nodes[q]['resid'] = rng.choice([1, 4])
        r = rng.random()
        if r < 0.45 and hosts:
            atoms = [hosts[0]] + news[:1]
            typ = 'bonds' if len(atoms) == 2 else 'position_restraints'
            style = rng.choice(['two_versions', 'same_version', 'single'])
            if style == 'two_versions':
                bt.add_interaction(typ, atoms, ['1', '0.1'], meta={'version': 1})
                bt.add_interaction(typ, atoms, ['1', '0.2'], meta={'version': 2})
                tags.add('interaction_twice_in_one_modification')
            elif style == 'same_version':
                bt.add_interaction(typ, atoms, ['1', '0.3'])
                bt.add_interaction(typ, atoms, ['1', '0.4'])
                tags.add('interaction_twice_in_one_modification')
            else:
                bt.add_interaction('position_restraints', [hosts[0]], ['1', '%d' % rng.randint(100, 102)])
                tags.add('host_interaction')
        if rng.random() < 0.3:
            bt.log_entries[rng.choice(['warning', 'info'])]['modification %s applied' % '+'.join(m.names)] = []
            tags.add('modification_log_entry')
        if rng.random() < 0.3:
            bt.citations.update(rng.sample(['modpaper', 'paperA'], rng.randint(1, 2)))
    for blk in (m for m in coll.values() if m.type == 'block'):
        if rng.random() < 0.3:
            blk.block_to.log_entries['info']['block entry'] = []
        if rng.random() < 0.3:
            blk.block_to.add_interaction('position_restraints', ['B1'], ['1', '1000'])
        if rng.random() < 0.5:
            blk.block_to.nodes['B1']['mark'] = 0      # an attribute a `replace` dictionary has to OVERWRITE
    for n in mol.nodes:
        a = mol.nodes[n]
        r = rng.random()
        if r < 0.08:
            a['chain'] = rng.choice(['B', None])
            tags.add('chain_perturbed')
        elif r < 0.12:
            del a['chain']
        if rng.random() < 0.05:
            a['replace'] = rng.choice([{'chain': 'Z'}, {'resname': 'QQ'}])
    cfg = gen_cfg(rng) if rng.random() < 0.5 else (KEEP, MUST, STASH)
    return mol, mappings, ffb, meta, cfg, tags


def rich_oracle(mol, out, logs, mods, rawm, cfg=((), (), ())):
    """what holds whatever the `replace` dictionaries do"""
    errs = []
    types = [(lvl, typ) for lvl, typ, _ in logs]
    if any(out.nodes[k].get('atomname', '') is None and 'mapping_weights' in out.nodes[k] for k in out.nodes):
        errs.append(('remove_none', 'a particle whose atomname is None survived'))
    if any(x not in out for t, l in out.interactions.items() for it in l for x in it.atoms):
        errs.append(('remove_none', 'an interaction mentions a removed particle'))
    cons = {n: dict(out.nodes[n].get('mapping_weights', {})) for n in out.nodes}
    contributing = set().union(*[set(c) for c in cons.values()]) if cons else set()
    removed_any = any(a.get('replace', {}).get('atomname', 0) is None for m in mods for _, a in m.block_to.nodes(data=True))
    lost = [a for a in mol.nodes if a not in contributing and mol.nodes[a].get('element', '') != 'H']
    if lost and not removed_any and (logging.WARNING, 'unmapped-atom') not in types:
        errs.append(('no_silent_loss', 'atoms %r contribute to no particle, no unmapped-atom warning' % lost[:5]))
    for n in out.nodes:
        ml = out.nodes[n].get('modifications')
        if ml is not None and len({id(x) for x in ml}) != len(ml):
            errs.append(('modifications_recorded', 'particle %r lists a modification twice' % (n,)))
        # a `replace` value for an attribute nothing else writes: when exactly one node of the particle's
        # modifications (same atom name, not a new particle) declares it, the particle carries it
        for attr in [x for x in ('atype', 'mark') if x not in cfg[0] + cfg[1] + cfg[2]]:
            cands = [a['replace'][attr] for x in (ml or []) for _, a in x.nodes(data=True)
                     if not a.get('PTM_atom') and attr in a.get('replace', {})
                     and a.get('atomname') == out.nodes[n].get('atomname')]
            renamed = any('atomname' in a.get('replace', {}) for x in (ml or []) for _, a in x.nodes(data=True))
            if len(cands) == 1 and not renamed and out.nodes[n].get(attr, '<absent>') != cands[0]:
                errs.append(('replace_applied', 'particle %r: %s = %r, its modification declares replace %r'
                             % (n, attr, out.nodes[n].get(attr, '<absent>'), cands[0])))
    return errs


xrng = chk.rng('rich-modification')
mx_lines, mx_recs = [], []
for i in range(3000 if chk.thorough else 250):
    mol, mappings, ffb, meta, cfg, tags = build_rich_mod_case(xrng)
    status, out, rawb, rawm, logs, blocks, mods, called = run_with_mods(mol, mappings, ffb, keep=cfg[0], must=cfg[1], stash=cfg[2])
    logargs = list(LOGARGS)
    ln = proto_mapx(cfg, mol, blocks, rawb, mods, rawm, ffb)
    impl = canon_x(status, out, logs, logargs, mods)
    errs = []
    if status == 'ok':
        npre = sum(len(blocks[j].block_to) for j, _ in rawb) + sum(
            sum(1 for _, a in mods[j].block_to.nodes(data=True) if a.get('PTM_atom')) for j, _ in rawm)
        impl += canon_x_tail(out, npre)
        if npre != len(out):
            tags.add('particles_removed')
        errs = rich_oracle(mol, out, logs, mods, rawm, cfg)
        if any(msg.startswith('Interaction set by multiple') for _, _, msg in logs):
            tags.add('warning_multiple_modification_mappings')
        if any(len(out.nodes[k].get('modifications', []) or []) >= 2 for k in out.nodes):
            tags.add('particle_with_two_modifications')
    for t in tags:
        chk.count('modx_feature_' + t)
    chk.count('modx_status=' + status)
    mx_lines.append(ln)
    mx_recs.append(('modx-%d' % i, impl, errs, len(rawm)))
mx_models = chk.drv.ask(mx_lines) if chk.lean_ok else [None] * len(mx_lines)
for (cid, impl, errs, nm), ln, mo in zip(mx_recs, mx_lines, mx_models):
    chk.case(cid, ln, impl, mo, ['%s: %s' % e for e in errs], nm >= 1)

# ----------------------------------------------------------------------------
# FOLLOW-UP streams
#  (1) predicate-valued attributes (Choice, NotDefinedOrNot - what map_parser / ffinput build from `a|b`) in the
#      block_from nodes of block mappings: real matcher vs the Lean reference matcher that knows predicates
#      (`matchesp`, VermouthModel/C01_Pred.lean) and vs the brute-force matcher; full oracle; plus mappings read
#      from `.mapping` TEXT with `|` choices by the real parser
#  (2) modification mappings whose anchors lie in two different block placements (cross-links), with predicates
#      in the modification's block_from; (3) blocks with 2-3 particles nothing maps to plus a modification mapping
#      that puts atoms on ONE of them.  Oracle: block copies with the weights of the DEFINITIONS (block mapping,
#      then the modification mappings laid over it), particles of different block placements bonded iff some
#      constituents are bonded - whatever modification matches cover them -, no two particles share a weight table
# ----------------------------------------------------------------------------
def choice(*vals):
    return {'__choice__': list(vals)}


def notdef(val):
    return {'__notdef__': val}


def gen_pred_case(rng):
    feat = dict(FEAT, p_dup=0.05, p_two=0.25, p_selfloop=0.0, p_both_empty=0.0)
    spec, meta = gen_case(rng, 6, feat)
    tags = set()
    pool = ['RA', 'RB', 'RC', 'UNK']
    # residues of the molecule, in atom order
    residues = {}
    for k, a in spec['atoms']:
        residues.setdefault((a['chain'], a['resid']), []).append(a)
    for k, a in spec['atoms']:
        if rng.random() < 0.25:
            a['mark'] = rng.choice(['x', 'y'])
        if a.get('element') != 'H' and rng.random() < 0.1:
            del a['element']
            tags.add('atom_without_element')
    renames = []
    for ms in spec['mappings']:
        by_res = {}
        for n, a in ms['from_nodes']:
            by_res.setdefault(a.get('resid'), []).append(a)
        for rid, nodes in by_res.items():
            own = nodes[0].get('resname')
            if own is None:
                continue
            r = rng.random()
            if r < 0.5:
                others = rng.sample([x for x in pool if x != own], rng.randint(1, 2))
                vals = [own] + others
                rng.shuffle(vals)
                if rng.random() < 0.15:
                    vals = others                            # the own residue name is NOT among the choices
                    tags.add('resname_choice_without_own')
                for a in nodes:
                    a['resname'] = choice(*vals)
                tags.add('resname_choice')
                renames.append((own, vals))
            elif r < 0.65:
                val = rng.choice([x for x in pool if x != own] + [own])
                for a in nodes:
                    a['resname'] = notdef(val)
                tags.add('resname_notdef')
                renames.append((own, [x for x in pool if x != val]))
        r = rng.random()
        if r < 0.2 and len(ms['from_nodes']) >= 2:
            # one node accepts two atom names
            (n1, a1), (n2, a2) = rng.sample(ms['from_nodes'], 2)
            if isinstance(a1['atomname'], str) and isinstance(a2['atomname'], str):
                a1['atomname'] = choice(a1['atomname'], a2['atomname']) if rng.random() < 0.7 else notdef(a2['atomname'])
                tags.add('atomname_predicate')
        for n, a in ms['from_nodes']:
            r = rng.random()
            if r < 0.08:
                a['chain'] = rng.choice([choice('A'), choice('A', 'B'), choice('B', 'C'), notdef('B'), notdef('Z')])
                tags.add('chain_predicate')
            elif r < 0.16:
                a['element'] = rng.choice([choice('C', 'N'), notdef('H'), choice('C', 'H'), notdef('C')])
                tags.add('element_predicate')
            elif r < 0.24:
                a['mark'] = rng.choice([notdef('x'), choice('x', 'y'), choice('x'), notdef('q')])
                tags.add('mark_predicate')
    # residues take another of the residue names their mapping accepts ("ASP|GLU": one mapping, two residue types)
    for key, atoms_ in residues.items():
        cands = [vals for own, vals in renames if own == atoms_[0]['resname']]
        if cands and rng.random() < 0.5:
            new = rng.choice(rng.choice(cands) + ['ZZ'] * (rng.random() < 0.1))
            for a in atoms_:
                a['resname'] = new
            tags.add('residue_renamed_within_choice')
    return spec, meta, tags


# -- `.mapping` text --------------------------------------------------------------------------------------------
TEXT_TYPES = {'ASP': ['CA', 'CB', 'OD'], 'GLU': ['CA', 'CB', 'OD'], 'ASN': ['CA', 'CB', 'ND'], 'GLY': ['CA'],
              'SER': ['CA', 'OG'], 'THR': ['CA', 'OG']}


def gen_text_case(rng):
    """mapping text with `|` choices for the real parser + a molecule; -> (text, mol, mappings, ffb, tags)"""
    from vermouth.map_input import read_mapping_file
    ffa = vermouth.forcefield.ForceField(name='c01src')
    ffb = vermouth.forcefield.ForceField(name='c01tgt')
    tags = set()
    groups = [g for g in (['ASP', 'GLU'], ['SER', 'THR'], ['ASN'], ['GLY']) if rng.random() < 0.75] or [['ASP', 'GLU']]
    text = []
    fetch = True      # a to-block built from [ to nodes ] has no force field: merge_molecule refuses it (ValueError)
    for gi, group in enumerate(groups):
        names = TEXT_TYPES[group[0]]
        ident = 'G%d' % gi
        tname = 'T%d' % gi
        beads = ['BB'] + (['SC1'] if len(names) > 1 else [])
        if fetch:
            blk = Block(force_field=ffb, name=tname, nrexcl=1)
            for b in beads:
                blk.add_node(b, atomname=b, resname=tname, resid=1)
            if len(beads) == 2:
                blk.add_edge('BB', 'SC1')
                blk.add_interaction('bonds', ['BB', 'SC1'], ['1', '0.3', '5000'])
            ffb.blocks[tname] = blk
        resn = '|'.join(group)
        extra = rng.random() < 0.3 and len(group) == 1
        if extra:
            resn = resn + '|' + rng.choice(['ASP', 'XXX'])
        if '|' in resn:
            tags.add('resname_choice_in_text')
        text += ['[ block ]', '[ from ]', 'c01src', '[ to ]', 'c01tgt', '[ from blocks ]',
                 '!%s {"resname": "%s", "resid": 1}' % (ident, resn), '[ to blocks ]']
        if fetch:
            text.append(tname)
        else:
            text += ['!%s {"resname": "%s", "resid": 1}' % (tname, tname), '[ to nodes ]'] + ['%s:%s' % (tname, b) for b in beads]
            if len(beads) == 2:
                text += ['[ to edges ]', 'BB SC1']
        text.append('[ from nodes ]')
        for i, n in enumerate(names):
            attr = ''
            if rng.random() < 0.2:
                attr = ' {"element": "%s"}' % rng.choice(['C|N|O', 'C|O', 'N|O'])
                tags.add('element_choice_in_text')
            text.append(('%s:%s' % (ident, n) if i == 0 else n) + attr)
        if len(names) > 1:
            text.append('[ from edges ]')
            text += ['%s %s' % (a, b) for a, b in zip(names, names[1:])]
        text.append('[ mapping ]')
        for i, n in enumerate(names):
            b = 'BB' if i == 0 else 'SC1'
            w = rng.choice(['', '', ' 2', ' 0', ' 3'])
            text.append('%s %s%s' % (n, b, w))
            if i == 1 and rng.random() < 0.4:
                text.append('%s BB' % n)
        text.append('')
    mappings = read_mapping_file(text, {'c01src': ffa, 'c01tgt': ffb})
    mol = Molecule(force_field=ffa)
    nres = rng.randint(1, 6)
    seq = [rng.choice(list(TEXT_TYPES)) for _ in range(nres)]
    key, prev = rng.choice([0, 1, 10]), None
    start = rng.choice([1, 4, 20])
    for r, rn in enumerate(seq):
        names = TEXT_TYPES[rn]
        local = {}
        for n in names:
            mol.add_node(key, resid=start + r, resname=rn, atomname=n, chain='A', element=n[0])
            local[n] = key
            key += rng.choice([1, 1, 2])
        for a, b in zip(names, names[1:]):
            mol.add_edge(local[a], local[b])
        if prev is not None:
            mol.add_edge(prev, local['CA'])
        prev = local['CA']
    return '\n'.join(text), mol, mappings, ffb, tags, seq


# -- cross-link modifications and modifications on spawned particles ----------------------------------------------
XTYPES = {'CYS': ['CA', 'SG'], 'LYS': ['CA', 'CB', 'NZ'], 'GLY': ['CA'], 'ASP': ['CA', 'CB', 'OD'], 'MET': ['CA', 'SD']}
XWEIGHTS = ['1', '1', '1', '2', '1/2', '3', '0']


def build_xmod_case(rng):
    """residues CA[-side chain] -> BB [SC1] [D1..D3: particles nothing maps to]; modifications: XL = a cross-link
    between the side-chain ends of two residues (direct bond, or through a bridging PTM atom), its mapping lays a
    node over the SC1 of either residue; DUM = an extra atom on CA whose mapping puts it on ONE of the D particles.
    -> mol, mappings, to_ff, meta (as build_mod_case)"""
    ffa = vermouth.forcefield.ForceField(name='c01src')
    ffb = vermouth.forcefield.ForceField(name='c01tgt')
    tnames = rng.sample(sorted(XTYPES), rng.randint(2, 4))
    if not any(len(XTYPES[t]) > 1 for t in tnames):
        tnames[0] = 'LYS'
    want_dum = rng.random() < 0.6
    mappings = {}
    ndum = {}
    for t in tnames:
        names = XTYPES[t]
        ba = Block(force_field=ffa)
        ba.name = t
        rn, more = t, {}
        if rng.random() < 0.3:
            if rng.random() < 0.7:
                rn = Choice([t, 'X' + t])
            else:
                more = {'chain': NotDefinedOrNot('Q')}
        for n in names:
            ba.add_node(n, resid=1, resname=rn, atomname=n, **more)
        ba.add_edges_from(zip(names, names[1:]))
        bb = Block(force_field=ffb)
        bb.name = t
        beads = ['BB'] + (['SC1'] if len(names) > 1 else [])
        nd = rng.choice([2, 2, 3, 1, 0]) if want_dum else rng.choice([0, 0, 0, 1, 2])
        ndum[t] = nd
        order = list(beads)
        for d in range(nd):
            order.insert(rng.randrange(len(order) + 1), 'D%d' % (d + 1))
        for b in order:
            bb.add_node(b, resid=1, resname=t, atomname=b, atype='P1')
        if len(beads) == 2:
            bb.add_edge('BB', 'SC1')
            bb.add_interaction('bonds', ['BB', 'SC1'], ['1', '0.3', '5000'])
        for d in range(nd):
            if rng.random() < 0.8:
                bb.add_edge(rng.choice(beads), 'D%d' % (d + 1))
        bmap = {'CA': {'BB': wval(rng.choice(XWEIGHTS))}}
        for n in names[1:]:
            bmap[n] = {'SC1': wval(rng.choice(XWEIGHTS))}
        if len(names) == 3 and rng.random() < 0.4:
            bmap['CB']['BB'] = wval(rng.choice(XWEIGHTS))          # shared atom
        mappings[t] = Mapping(ba, bb, mapping=bmap, references={}, ff_from=ffa, ff_to=ffb, names=(t,))
    nres = rng.randint(2, 6)
    seq = [rng.choice(tnames) for _ in range(nres)]
    mol = Molecule(force_field=ffa)
    stride = rng.choice([10, 10, 6])
    start = rng.choice([1, 1, 5])
    res_locals, prev = [], None
    for r, t in enumerate(seq):
        local = {}
        for q, n in enumerate(XTYPES[t]):
            k = stride * r + q
            local[n] = k
            mol.add_node(k, resid=start + r, resname=t, atomname=n, chain='A', element=n[0])
        for a, b in zip(XTYPES[t], XTYPES[t][1:]):
            mol.add_edge(local[a], local[b])
        if prev is not None:
            mol.add_edge(prev, local['CA'])
        prev = local['CA']
        res_locals.append(local)
    extra = [stride * nres]
    interleaved = rng.random() < 0.6

    def ptm_key(r, slot):
        if interleaved:
            return stride * r + 3 + slot
        extra[0] += 1
        return extra[0] - 1
    meta = {'nres': nres, 'xl': 0, 'dum': 0, 'bridge': False, 'tgt_edge': False, 'ndum': 0}
    # ---- the cross-link -------------------------------------------------------------------------------------
    sided = [r for r, t in enumerate(seq) if len(XTYPES[t]) > 1]
    pairs = [(i, j) for i in sided for j in sided if i < j and XTYPES[seq[i]][-1] != XTYPES[seq[j]][-1]]
    if pairs and rng.random() < 0.75:
        i, j = rng.choice(pairs)
        if rng.random() < 0.3:
            i, j = j, i                                    # the template's first anchor sits in the LATER residue
        n1, n2 = XTYPES[seq[i]][-1], XTYPES[seq[j]][-1]
        bridge = rng.random() < 0.4
        dangling = (not bridge) and rng.random() < 0.3
        src = Link(force_field=ffa, name='XL')
        rn = rng.choice([None, None, Choice([seq[i], seq[j], 'ZZ']), NotDefinedOrNot('ZZ')])
        an1 = Choice([n1, 'Q' + n1]) if rng.random() < 0.25 else n1
        for key_, nm in (('S', an1), ('N', n2)):
            attrs = {'atomname': nm, 'PTM_atom': False, 'modifications': [src]}
            if rn is not None:
                attrs['resname'] = rn
            src.add_node(key_, **attrs)
        if bridge:
            src.add_node('X', atomname='XB', PTM_atom=True, modifications=[src])
            src.add_edges_from([('S', 'X'), ('X', 'N')])
        else:
            src.add_edge('S', 'N')
            if dangling:
                src.add_node('X', atomname='XH', PTM_atom=True, modifications=[src])
                src.add_edge('S', 'X')
        tgt = Link(force_field=ffb, name='XL')
        tgt.add_node('A', atomname='SC1', PTM_atom=False, replace={'atype': 'C5'})
        tgt.add_node('B', atomname='SC1', PTM_atom=False, replace={'atype': 'N3'})
        if rng.random() < 0.25:
            tgt.add_edge('A', 'B')
            meta['tgt_edge'] = True
        mp = {'S': {'A': wval(rng.choice(XWEIGHTS))}, 'N': {'B': wval(rng.choice(XWEIGHTS))}}
        if bridge or dangling:
            side = rng.choice(['A', 'A', 'B', 'AB']) if bridge else 'A'
            mp['X'] = {x: wval(rng.choice(XWEIGHTS[:-1])) for x in side}
        mappings[('XL',)] = Mapping(src, tgt, mapping=mp, references={}, ff_from=ffa, ff_to=ffb, names=('XL',),
                                    type='modification')
        a1, a2 = res_locals[i][n1], res_locals[j][n2]
        for a in (a1, a2):
            mol.nodes[a]['modifications'] = mol.nodes[a].get('modifications', []) + [src]
        if bridge or dangling:
            k = ptm_key(i, 0)
            mol.add_node(k, resid=start + i, resname=seq[i], atomname='XB' if bridge else 'XH', chain='A',
                         element='H' if (dangling and rng.random() < 0.5) else 'S', PTM_atom=True, modifications=[src])
            mol.add_edge(a1, k)
            if bridge:
                mol.add_edge(k, a2)
        if not bridge:
            mol.add_edge(a1, a2)
        meta.update(xl=1, bridge=bridge)
        # a decoy: the same two kinds of side-chain ends bonded elsewhere WITHOUT the modification - the
        # modification mapping must not fit there (its nodes name the modification)
        decoys = [(p, q) for p, q in pairs + [(q, p) for p, q in pairs]
                  if not {p, q} & {i, j} and (XTYPES[seq[p]][-1], XTYPES[seq[q]][-1]) == (n1, n2)]
        if decoys and not bridge and rng.random() < 0.6:
            p, q = rng.choice(decoys)
            mol.add_edge(res_locals[p][n1], res_locals[q][n2])
            for a in (res_locals[p][n1], res_locals[q][n2]):
                if rng.random() < 0.7:
                    mol.nodes[a]['modifications'] = []       # the attribute is there, the modification is not
            meta['decoy'] = True
    # ---- an atom put on ONE of the particles nothing maps to ----------------------------------------------------
    hosts = [r for r, t in enumerate(seq) if ndum[t] >= 1]
    if hosts and rng.random() < 0.8:
        kd = rng.randint(1, min(ndum[seq[r]] for r in hosts)) if rng.random() < 0.7 else 1
        hosts = [r for r in hosts if ndum[seq[r]] >= kd]
        src = Link(force_field=ffa, name='DUM')
        src.add_node('CA', atomname='CA', PTM_atom=False)
        src.add_node('HX', atomname='HX', PTM_atom=True, modifications=[src])
        src.add_edge('CA', 'HX')
        tgt = Link(force_field=ffb, name='DUM')
        tgt.add_node('D', atomname='D%d' % kd, PTM_atom=False, replace={'atype': 'D9'})
        mp = {'CA': {'D': wval(rng.choice(['0', '0', '1', '1/2']))}, 'HX': {'D': wval(rng.choice(['1', '1', '2', '1/2']))}}
        if rng.random() < 0.25:
            tgt.add_node('H', atomname='BB', PTM_atom=False)
            mp['HX']['H'] = wval(rng.choice(['1', '1/4']))
            mp['CA']['H'] = wval(rng.choice(['1', '2']))          # the particle is found through an atom it already has
        mappings[('DUM',)] = Mapping(src, tgt, mapping=mp, references={}, ff_from=ffa, ff_to=ffb, names=('DUM',),
                                     type='modification')
        for r in rng.sample(hosts, min(len(hosts), rng.choice([1, 1, 2]))):
            ca = res_locals[r]['CA']
            mol.nodes[ca]['modifications'] = mol.nodes[ca].get('modifications', []) + [src]
            k = ptm_key(r, 1)
            mol.add_node(k, resid=start + r, resname=seq[r], atomname='HX', chain='A',
                         element=rng.choice(['P', 'P', 'H']), PTM_atom=True, modifications=[src])
            mol.add_edge(ca, k)
            meta['dum'] += 1
            meta['ndum'] = max(meta['ndum'], ndum[seq[r]])
    meta['mods'] = meta['xl'] + meta['dum']
    return mol, {'c01src': {'c01tgt': mappings}}, ffb, meta


def xmod_oracle(mol, blocks, mods, out, logs, rawb, rawm, called):
    errs = []
    # the modification matches are every place where the needed modification mappings fit, each once
    for i, m in enumerate(mods):
        real = sorted(tuple(sorted((f, a) for a, f in mt)) for j, mt in rawm if j == i)
        if tuple(m.names) in [tuple(c) for c in called]:
            want = sorted(tuple(sorted(emb.items())) for emb in brute_matches(mol, m.block_from, mode='mod'))
            if real != want:
                errs.append(('mod_matches', 'modification mapping %s: the matcher found %r, it fits at %r'
                             % (m.names, real, want)))
    if errs:
        return errs, {}
    MOD_OVERLAY[:] = [(mods[i], {f: a for a, f in mt}) for i, mt in rawm]
    try:
        errs, info = oracle({}, mol, blocks, out, logs, rawb)
    finally:
        MOD_OVERLAY[:] = []
    tables = [out.nodes[k]['mapping_weights'] for k in out.nodes if 'mapping_weights' in out.nodes[k]]
    if len({id(t) for t in tables}) != len(tables):
        shared = [k for k in out.nodes if sum(1 for q in out.nodes
                                              if out.nodes[q].get('mapping_weights') is out.nodes[k].get('mapping_weights')) > 1]
        errs.append(('weights_exact', 'particles %r share ONE weight table object: what a mapping assigns to one of '
                     'them shows up in the others' % shared[:4]))
    # `replace` of a laid-over node, and the modification recorded on the particle
    bead_of, order, places = info.get('bead_of', {}), info.get('order', []), info.get('places', [])
    for i, mt in rawm:
        m = mods[i]
        memb = {f: a for a, f in mt}
        for b2, a2 in m.block_to.nodes(data=True):
            atoms = {memb[f] for f, ws in m.mapping.items() if f in memb and b2 in ws}
            hit = [k for k in out.nodes if out.nodes[k].get('atomname') == a2.get('atomname')
                   and any(m.block_to is x for x in out.nodes[k].get('modifications', []) or [])
                   and atoms <= set(out.nodes[k].get('mapping_weights', {}))]
            if len(hit) != 1:
                errs.append(('modifications_recorded', 'node %r of modification mapping %s: %d particles %s carry '
                             'the modification and its atoms %r' % (b2, m.names, len(hit), a2.get('atomname'), sorted(atoms))))
            elif any(out.nodes[hit[0]].get(x) != v for x, v in a2.get('replace', {}).items()):
                errs.append(('replace_applied', 'particle %r: replace %r of the modification not applied'
                             % (hit[0], a2.get('replace'))))
    return errs, info


def matcher_lines(cid, mol, mlist, raw, block=True):
    """the real matches of every mapping against the Lean reference matcher with predicates (and, for templates
    without predicate in a block mapping, also against the plain one)"""
    res = []
    for i, m in enumerate(mlist):
        if len(m.block_from) == 0:
            continue
        real = canon_matches(m, [mt for mi, mt in raw if mi == i])
        res.append((cid + '-p%d' % i, proto_matchesp(mol, m, block), enc(real), len(real), has_predicate(m.block_from)))
    return res


prng = chk.rng('predicates')
px_lines, px_recs, pm_lines = [], [], []
for i in range(2500 if chk.thorough else 170):
    spec, meta, tags = gen_pred_case(prng)
    status, out, raw, logs, mol, mlist = run_real(spec)
    ln = proto_map(spec, mlist, raw)
    impl = canon_real(status, out, logs)
    errs, info = ([], {})
    if status == 'ok':
        errs, info = oracle(spec, mol, mlist, out, logs, raw)
    elif status.startswith('exception'):
        errs = [('no_crash', 'do_mapping raised ' + status)]
    if len(spec['atoms']) <= 40:
        pm_lines += matcher_lines('pred-%d' % i, mol, mlist, raw)
        for j, m in enumerate(mlist):
            if len(m.block_from) and not has_predicate(m.block_from) and all('mark' not in a and 'element' in a for _, a in spec['atoms']):
                pm_lines.append(('pred-%d-plain%d' % (i, j), proto_matches(spec, m),
                                 enc(canon_matches(m, [mt for mi, mt in raw if mi == j])), 1, False))
    for t in tags:
        chk.count('pred_feature_' + t)
    chk.count('pred_status=' + status)
    npl = info.get('placements', 0)
    chk.count('pred_placements', npl)
    px_lines.append(None if len(raw) > 45 else ln)
    px_recs.append(('pred-%d' % i, ln, impl, errs, status == 'ok' and bool(tags) and npl >= 1))

trng = chk.rng('mapping-text')
for i in range(400 if chk.thorough else 45):
    text, mol, mappings, ffb, tags, seq = gen_text_case(trng)
    status, out, rawb, rawm, logs, blocks, mods, called = run_with_mods(mol, mappings, ffb)
    maps_enc, raw_enc = enc_block_maps(blocks, rawb)
    ln = line('map', enc_atoms(mol), [list(e) for e in mol.edges], maps_enc, raw_enc)
    impl = canon_real(status, out, logs)
    errs, info = ([], {})
    if status == 'ok':
        errs, info = oracle({}, mol, blocks, out, logs, rawb)
        # what the text says, independently of the parsed objects: a residue whose name is among the `|` choices
        # of a from-block gets that block's particles
        tl = text.split('\n')
        # (element choices may exclude an atom: those cases are left to the general oracle)
        if not any('"element"' in l for l in tl):
            # a residue fits a from-block when its name is among the `|` choices and it has the block's atoms
            # (the blocks are chains CA[-x[-y]]: the atoms of the block then induce the same bonds in the residue)
            want_n = 0
            for rn in seq:
                for l in tl:
                    if l.startswith('!G') and '"resname"' in l:
                        names = l.split('"resname": "')[1].split('"')[0].split('|')
                        if rn in names and set(TEXT_TYPES[names[0]]) <= set(TEXT_TYPES[rn]):
                            want_n += 2 if len(TEXT_TYPES[names[0]]) > 1 else 1
            if want_n != len(out):
                errs.append(('assemble_nodes', 'the mapping text accepts the residues %r with %d particles in total, the '
                             'output has %d' % (seq, want_n, len(out))))
    elif status.startswith('exception'):
        errs = [('no_crash', 'do_mapping raised ' + status)]
    pm_lines += matcher_lines('text-%d' % i, mol, blocks, rawb)
    for t in tags:
        chk.count('text_feature_' + t)
    chk.count('text_status=' + status)
    chk.count('text_placements', info.get('placements', 0))
    px_lines.append(ln)
    px_recs.append(('text-%d' % i, ln, impl, errs, status == 'ok' and info.get('placements', 0) >= 2))

asked = [l for l in px_lines if l is not None]
answers = iter(chk.drv.ask(asked) if chk.lean_ok else [None] * len(asked))
for (cid, ln, impl, errs, nontriv), sent in zip(px_recs, px_lines):
    mo = None if sent is None else next(answers)
    chk.case(cid, ln, impl, mo, ['%s: %s' % e for e in errs], nontriv)

xmrng = chk.rng('xmod')
xm_lines, xm_recs = [], []
for i in range(3000 if chk.thorough else 260):
    mol, mappings, ffb, meta = build_xmod_case(xmrng)
    status, out, rawb, rawm, logs, blocks, mods, called = run_with_mods(mol, mappings, ffb)
    logargs = list(LOGARGS)
    cfg = (KEEP, MUST, STASH)
    ln = proto_mapx(cfg, mol, blocks, rawb, mods, rawm, ffb)
    impl = canon_x(status, out, logs, logargs, mods)
    errs, info = [], {}
    if status == 'ok':
        impl += canon_x_tail(out, sum(len(blocks[j].block_to) for j, _ in rawb))
        errs, info = xmod_oracle(mol, blocks, mods, out, logs, rawb, rawm, called)
    else:
        errs = [('no_crash', 'do_mapping raised %s on a molecule whose modifications all fit their mappings' % status)]
    pm_lines += matcher_lines('xmod-%d-b' % i, mol, blocks, rawb)
    pm_lines += [x for x in matcher_lines('xmod-%d-m' % i, mol, mods, rawm, block=False)
                 if tuple(mods[int(x[0].rsplit('-p', 1)[1])].names) in [tuple(c) for c in called]]
    chk.count('xmod_status=' + status)
    chk.count('xmod_crosslink_matches', sum(1 for j, _ in rawm if mods[j].names == ('XL',)))
    chk.count('xmod_dummy_matches', sum(1 for j, _ in rawm if mods[j].names == ('DUM',)))
    if meta['xl']:
        chk.count('xmod_crosslink_' + ('bridged' if meta['bridge'] else 'direct')
                  + ('_edge_in_modification' if meta['tgt_edge'] else ''))
    if meta.get('decoy'):
        chk.count('xmod_crosslink_without_modification_elsewhere')
    if meta['dum'] and meta['ndum'] >= 2:
        chk.count('xmod_modification_on_one_of_several_spawned_particles')
    if any(has_predicate(m.block_from) for m in mods):
        chk.count('xmod_predicate_in_modification_block_from')
    if any(has_predicate(m.block_from) for m in blocks):
        chk.count('xmod_predicate_in_block_from')
    chk.count('xmod_inter_bonds', info.get('inter_bonds', 0))
    xm_lines.append(ln)
    xm_recs.append(('xmod-%d' % i, impl, errs, len(rawm)))
xm_models = chk.drv.ask(xm_lines) if chk.lean_ok else [None] * len(xm_lines)
for (cid, impl, errs, nm), ln, mo in zip(xm_recs, xm_lines, xm_models):
    chk.case(cid, ln, impl, mo, ['%s: %s' % e for e in errs], nm >= 1)

pmodels = chk.drv.ask([l for _, l, _, _, _ in pm_lines]) if chk.lean_ok else [None] * len(pm_lines)
for (cid, ln, real, n, pred), mo in zip(pm_lines, pmodels):
    chk.count('matches_compared_predicate_matcher' + ('_with_predicates' if pred else ''))
    chk.case(cid, ln, real, mo, [], n >= 1 and pred)

# ----------------------------------------------------------------------------
# thorough: charmm -> martini3001 on the tier-0 / tier-1 test structures (oracle only)
# ----------------------------------------------------------------------------
def real_ff_cases():
    from pathlib import Path
    from vermouth import DATA_PATH
    from vermouth.map_input import read_mapping_directory, generate_all_self_mappings, combine_mappings
    ffs = vermouth.forcefield.find_force_fields(Path(DATA_PATH) / 'force_fields')
    maps = read_mapping_directory(Path(DATA_PATH) / 'mappings', ffs)
    combine_mappings(maps, generate_all_self_mappings(ffs.values()))
    base = Path(REPO) / 'vermouth' / 'tests' / 'data' / 'integration_tests'
    structures = sorted(base.glob('tier-0/*/aa.pdb')) + [base / 'tier-1' / n / 'aa.pdb'
                                                           for n in ('bpti', '3i40', '1UBQ', 'villin', 'hst5')]
    for path in structures:
        if not path.exists():
            continue
        system = vermouth.System()
        vermouth.PDBInput(str(path), exclude=('HOH', 'SOL'), ignh=False, modelidx=1).run_system(system)
        system.force_field = ffs['charmm']
        vermouth.MakeBonds(allow_name=True, allow_dist=True, fudge=1.2).run_system(system)
        vermouth.AnnotateMutMod([['cter', 'C-ter'], ['nter', 'N-ter']], []).run_system(system)
        vermouth.RepairGraph(delete_unknown=True, include_graph=False).run_system(system)
        vermouth.CanonicalizeModifications().run_system(system)
        for mi, mol in enumerate(system.molecules):
            status, out, rawb, rawm, logs, blocks, mods, called = run_with_mods(
                mol, maps, ffs['martini3001'], keep=('cgsecstruct', 'chain', 'secstruct'))
            logargs = list(LOGARGS)
            ln = None
            lnx = implx = None
            if len(rawb) <= 45:
                used_b = sorted({i for i, _ in rawb})
                used_m = sorted({i for i, _ in rawm})
                bsel = [blocks[i] for i in used_b]
                msel = [mods[i] for i in used_m]
                maps_enc, rawb_enc = enc_block_maps(bsel, [(used_b.index(i), mt) for i, mt in rawb])
                mods_enc, rawm_enc = enc_mod_maps(msel, [(used_m.index(i), mt) for i, mt in rawm])
                ln = line('mapmod', enc_atoms(mol), [list(e) for e in mol.edges], maps_enc, rawb_enc, mods_enc, rawm_enc)
                # the same run through the attribute model: every attribute of every particle
                cfgx = (('cgsecstruct', 'chain', 'secstruct'), MUST, STASH)
                rb = [(used_b.index(i), mt) for i, mt in rawb]
                rm = [(used_m.index(i), mt) for i, mt in rawm]
                lnx = proto_mapx(cfgx, mol, bsel, rb, msel, rm, ffs['martini3001'])
                implx = canon_x(status, out, logs, logargs, msel)
                if status == 'ok':
                    npre = sum(len(bsel[i].block_to) for i, _ in rb) + sum(
                        sum(1 for _, a in msel[i].block_to.nodes(data=True) if a.get('PTM_atom')) for i, _ in rm)
                    implx += canon_x_tail(out, npre)
            yield ('%s-%s-mol%d' % (path.parent.parent.name, path.parent.name, mi), mol, out, rawb, logs, ln,
                   canon_real(status, out, logs), sorted(set(called)), mods, rawm, lnx, implx)


def real_ff_oracle(mol, out, raw, logs):
    errs = []
    types = [(lvl, typ) for lvl, typ, _ in logs]
    resids = [out.nodes[n].get('resid') for n in out.nodes]
    uniq = sorted(set(resids))
    if uniq != list(range(1, len(uniq) + 1)):
        errs.append('resid: residue numbers are not 1..n: %r' % uniq[:10])
    if any(b < a for a, b in zip(resids, resids[1:])):
        errs.append('resid: residue numbers decrease along the particle order')
    cons = {}
    for n in out.nodes:
        a = out.nodes[n]
        w = a.get('mapping_weights', {})
        g = a.get('graph')
        cons[n] = set(w)
        if g is None or set(g.nodes) != set(w):
            errs.append('weights_exact: particle %r: graph and weight table name different atoms' % (n,))
        if a.get('_old_resid') not in {mol.nodes[x].get('resid') for x in w}:
            errs.append('stash_old_resid: particle %r has _old_resid %r, atoms %r' % (n, a.get('_old_resid'), sorted(w)[:4]))
    placed = [set(a for a, f in mt) for _, mt in raw]
    shared = set()
    for a, b in itertools.combinations(range(len(placed)), 2):
        shared |= placed[a] & placed[b]
    nodes = list(out.nodes)
    inter = 0
    for u, v in itertools.combinations(nodes, 2):
        if out.nodes[u]['resid'] == out.nodes[v]['resid']:
            continue
        bonded = any(mol.has_edge(a, b) for a in cons[u] for b in cons[v])
        inter += bonded
        if bonded != out.has_edge(u, v):
            errs.append('inter_edge: particles %r, %r of different residues: bonded constituents=%s edge=%s'
                        % (u, v, bonded, out.has_edge(u, v)))
    contributing = set().union(*cons.values()) if cons else set()
    lost = [a for a in mol.nodes if a not in contributing and mol.nodes[a].get('element', '') != 'H']
    if lost and (logging.WARNING, 'unmapped-atom') not in types:
        errs.append('no_silent_loss: atoms %r in no particle, no warning' % lost[:5])
    if shared and (logging.WARNING, 'inconsistent-data') not in types:
        errs.append('overlap_warned: atoms %r in two placements, no warning' % sorted(shared)[:5])
    dangling = [i for t, l in out.interactions.items() for i in l if any(a not in out for a in i.atoms)]
    if dangling:
        errs.append('assemble_block_copy: %d interactions mention absent particles' % len(dangling))
    return errs, inter


if chk.thorough or os.environ.get('C01_REALFF'):
    rl, rr = [], []
    rlx, rrx = [], []
    for cid, mol, out, raw, logs, ln, impl, called, mods, rawm, lnx, implx in real_ff_cases():
        if lnx is not None:
            rlx.append(lnx)
            rrx.append((cid, implx, len(rawm)))
        errs, inter = real_ff_oracle(mol, out, raw, logs)
        errs += ['%s: %s' % e for e in mod_oracle(mol, out, logs, mods, rawm)]
        chk.count('real_ff_molecules')
        chk.count('real_ff_particles', len(out))
        for n in called:
            chk.count('real_ff_modification_%s' % '+'.join(n))
        chk.case('realff-' + cid, 'realff ' + cid + ' atoms=%d' % len(mol), 'particles=%d residues=%d inter_bonds=%d'
                 % (len(out), len({out.nodes[n]['resid'] for n in out.nodes}), inter), None, errs, inter >= 1)
        if ln is not None:
            rl.append(ln)
            rr.append((cid, impl, len(rawm)))
    rmodels = chk.drv.ask(rl) if chk.lean_ok else [None] * len(rl)
    for (cid, impl, nm), ln, mo in zip(rr, rl, rmodels):
        chk.count('real_ff_model_compared')
        chk.case('realff-model-' + cid, ln, impl, mo, [], nm >= 1)
    rxmodels = chk.drv.ask(rlx) if chk.lean_ok else [None] * len(rlx)
    for (cid, impl, nm), ln, mo in zip(rrx, rlx, rxmodels):
        chk.count('real_ff_attribute_model_compared')
        chk.case('realff-attr-model-' + cid, ln, impl, mo, [], True)

chk.finish()
