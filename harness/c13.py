#!/venv/bin/python
"""C13 - force-field, topology and mapping files load to exactly what they declare.
Model: lean/VermouthModel/C13.lean, C13_Reader.lean; theorems: lean/VermouthProps/C13.lean, C13Tables.lean."""
import collections
import glob
import json
from fractions import Fraction
from common import *
import c13_extract

chk = Check('C13')
chk.extra['rule'] = ('grammar-directed generator of whole .ff/.itp/.map/.mapping files whose AST is the expected '
                     'content; three-way comparison AST / canonical dump of what the real reader loaded / Lean reader; '
                     'a file case is non-trivial if it has >= 2 top-level declarations of >= 2 kinds, or a fault was '
                     'injected (the real reader must raise); component cases (tokenizer, prefix/order, arity, weights, '
                     'macros) are non-trivial when they contain a brace, a prefix or explicit order, a "--" delimiter, '
                     'a "!" marker or repeated target, a "$" respectively; .itp files carry #ifdef pragmas, .map and .mapping files '
                     'are generated against toy force fields and compared through the driver; directories: 2-4 generated .ff files '
                     '(colliding names) plus distractor entries in a real temporary directory loaded with ForceField(directory) under '
                     'the natural and under permuted enumeration orders, mapping directory trees with .map / .mapping files at '
                     'several depths, find_force_fields libraries; int() spellings (+n, 0n, n_m, n\\f) in index / resid / count '
                     'columns; distinct = distinct protocol line')
quiet_vermouth_logs()
TABLES = c13_extract.extract()
chk.lean(['VermouthProps.C13', 'VermouthProps.C13Tables', 'VermouthProps.C13Maps', 'VermouthProps.C13Dir', 'VermouthProps.C13Maps2'], 'driver_c13',
         generated={'C13Tables.lean': c13_extract.render(TABLES)})

import vermouth
from vermouth import ffinput, parser_utils, map_input, map_parser
from vermouth.ffinput import read_ff, FFDirector
from vermouth.gmx.itp_read import read_itp, ITPDirector
from vermouth.forcefield import ForceField
from vermouth.molecule import Link, Choice, NotDefinedOrNot, LinkParameterEffector
import c13_mapping
import c13_dir
quiet_vermouth_logs()

KNOWN_IDS = {k['id'] for k in chk.known if k.get('status') == 'known'}
PENDING = {}


def pending(fid, cid, what):
    """A genuine defect that is reported but not (yet) in known_findings.json: the model transcribes the
    code, so model and code agree; the deviation from the property is recorded here."""
    chk.count('pending_' + fid)
    PENDING.setdefault(fid, {'example_case': cid, 'what': what})


def ask(lines):
    return chk.drv.ask(lines) if chk.lean_ok else [None] * len(lines)


# ----------------------------------------------------------------------------------------------
# canonical forms
# ----------------------------------------------------------------------------------------------
def repr_j(v):
    if isinstance(v, bool):
        return 'b1' if v else 'b0'
    if isinstance(v, int):
        return 'i%d' % v
    if isinstance(v, str):
        return 's' + v
    if v is None:
        return 'n'
    if isinstance(v, Choice):
        return 'c' + '|'.join(v.value)
    if isinstance(v, NotDefinedOrNot):
        return 'p' + json.dumps(v.value, separators=(',', ':'), sort_keys=True)
    return 'o' + json.dumps(v, separators=(',', ':'), sort_keys=True, default=repr)


_EFFECTOR_NAMES = {cls: name for name, cls in ffinput.PARAMETER_EFFECTORS.items()}


def canon_param(p):
    """parameters are kept as written: strings verbatim, effectors re-rendered from the loaded object"""
    if isinstance(p, str):
        return p
    if isinstance(p, LinkParameterEffector):
        return '%s(%s%s)' % (_EFFECTOR_NAMES[type(p)], ','.join(p.keys), '' if p.format is None else '|' + p.format)
    return repr(p)


def canon_attrs(d):
    return [[k, repr_j(v)] for k, v in sorted(d.items())]


def canon_inters(idict):
    out = []
    for sect in sorted(idict):
        for it in idict[sect]:
            out.append([sect, [str(a) for a in it.atoms], [canon_param(p) for p in it.parameters],
                        canon_attrs(it.meta)])
    return out


def canon_nodes(g):
    return [[str(k), canon_attrs(g.nodes[k])] for k in g.nodes]


ATOM_COLS = ('atype', 'resname', 'resid', 'charge_group')


def atom_cols(b):
    """the declared columns of the atoms of a block as loaded"""
    return [[repr_j(b.nodes[n][k]) if k in b.nodes[n] else '-' for k in ATOM_COLS] for n in b.nodes]


def spell_int(rng, n):
    """one of the spellings int() accepts for n >= 0"""
    k = rng.random()
    if k < 0.75:
        return str(n)
    if k < 0.82:
        return '+%d' % n
    if k < 0.89:
        return '0%d' % n
    if k < 0.94:
        return '0_%d' % n if n < 10 else '%d_%d' % (n // 10, n % 10)
    if k < 0.97:
        return '%d\x0c' % n           # a form feed is not a separator for _tokenize; int() skips it
    return '-0' if n == 0 else '00%d' % n


def dump_ff(ff):
    blocks = [[k, [str(n) for n in b.nodes], canon_inters(b.interactions), atom_cols(b), b.nrexcl]
              for k, b in ff.blocks.items()]
    links = [[canon_nodes(l), canon_inters(l.interactions), canon_inters(l.removed_interactions),
              [[str(k), canon_attrs(a)] for k, a in l.non_edges],
              [[[str(ref), canon_attrs(a)] for ref, a in pat] for pat in l.patterns],
              sorted(l.features)] for l in ff.links]
    mods = [[k, canon_nodes(m), canon_inters(m.interactions)] for k, m in ff.modifications.items()]
    return [blocks, links, mods]


def load_ff(lines):
    ff = ForceField(name='verif')
    try:
        read_ff(lines, ff)
    except Exception as e:   # every exception is a rejection
        return None, type(e).__name__
    return ff, None


# ----------------------------------------------------------------------------------------------
# 1. tokenizer
# ----------------------------------------------------------------------------------------------
def run_tokenizer():
    rng = chk.rng('tok')
    corpus = ['BB {"a": 1}+CC  --  1', 'a {b', 'a} {b', '}', '{', '{}', 'A{"x": {"y": 2}}B', ' \t ', 'a}b c', 'a}{b} c',
              'ATOM1{attributes}ATOM2', 'A {"resname": "ALA", "order": 1} B -- 1 0.2', '{{}', '{}}', 'x {a b} y', '{a b',
              'a\tb  c', '--', 'a{', 'a{}{}b', 'a }{ b']
    alpha = ['A', 'B', '1', '{', '}', ' ', ' ', '\t', '"', ':', '-', '+']
    cases = list(corpus)
    for _ in range(20000 if chk.thorough else 2500):
        k = rng.random()
        if k < 0.5:
            cases.append(''.join(rng.choice(alpha) for _ in range(rng.randint(0, 14))))
        else:   # structured: words and balanced dictionaries, sometimes damaged
            parts = []
            for _ in range(rng.randint(1, 6)):
                w = rng.choice(['BB', '+SC1', 'A', '1', '0.25', '--', '#meta', '>>X'])
                if rng.random() < 0.4:
                    w += rng.choice(['', ' ']) + json.dumps({rng.choice('ab'): rng.choice([1, 'x y', {'c': 2}])})
                parts.append(w)
            s = rng.choice([' ', '  ', '\t', '']).join(parts)
            if rng.random() < 0.3 and s:
                i = rng.randrange(len(s))
                s = s[:i] + rng.choice(['{', '}', '']) + s[i + 1:]
            cases.append(s)
    lines = [line('tok', s) for s in cases]
    impls = []
    for s in cases:
        try:
            impls.append('ok ' + enc(parser_utils._tokenize(s)))
        except IOError:
            impls.append('error')
    for i, (s, ln, im, mo) in enumerate(zip(cases, lines, impls, ask(lines))):
        errs = []
        if im == 'error':
            chk.count('tok_error')
        else:
            toks = dec(im)[1]
            chk.count('tok_ok')
            if any(t.count('{') != t.count('}') for t in toks):
                errs.append('token with unbalanced braces accepted: %r -> %r' % (s, toks))
            if ''.join(''.join(toks).split()) != ''.join(s.split()):
                errs.append('characters lost or invented: %r -> %r' % (s, toks))
            if any(not t for t in toks):
                errs.append('empty token')
        if s.count('{') != s.count('}') and im != 'error':
            errs.append('unbalanced braces accepted: %r -> %s' % (s, im))
        chk.case('tok-%d' % i, ln, im, mo, errs, '{' in s or '}' in s)


# ----------------------------------------------------------------------------------------------
# 2. prefix / order
# ----------------------------------------------------------------------------------------------
def enc_jv(v):
    if isinstance(v, bool):
        return [2, int(v)]
    if isinstance(v, int):
        return [0, v]
    if isinstance(v, str):
        return [1, v]
    if v is None:
        return [3]
    if isinstance(v, Choice):
        return [5, list(v.value)]
    return [4, json.dumps(v, separators=(',', ':'))]


def treat_impl(ref, attrs):
    try:
        k, a = ffinput._treat_atom_prefix(ref, dict(attrs))
        return 'ok %s %s' % (enc(k), enc(canon_attrs(a)))
    except IOError:
        return 'error'
    except Exception as e:      # TypeError etc. on non-scalar orders: still a rejection
        return 'error'


def run_prefix():
    rng = chk.rng('prefix')
    cases = [('+BB', {}), ('BB', {'order': 1}), ('--XX', {'atomname': 'BB'}), ('>>BB', {}), ('BB', {'order': '>>'}),
             ('+BB', {'order': 2}), ('-BB', {'order': 1}), ('+-BB', {}), ('+++', {}), ('', {}), ('BB', {'order': True}),
             ('BB', {'order': None}), ('+BB', {'order': None}), ('BB', {'order': 0}), ('BB', {'order': ''}),
             ('BB', {'order': '><'}), ('>BB', {'order': 1}), ('*BB', {'order': '*'}), ('BB', {'order': '++'}),
             ('BB', {'order': 1.0}), ('B+B', {}), ('BB', {'order': -3, 'resname': 'ALA'}), ('<<BB', {'order': '<<'})]
    bases = ['BB', 'SC1', 'A', 'C+', 'N-x', 'CA']
    for _ in range(20000 if chk.thorough else 2500):
        c = rng.choice('+-><*')
        n = rng.choice([0, 0, 1, 1, 2, 3])
        pre = c * n
        if rng.random() < 0.08:
            pre += rng.choice('+-><*')
        base = rng.choice(bases) if rng.random() < 0.95 else ''
        attrs = {}
        k = rng.random()
        if k < 0.25:
            attrs['order'] = rng.choice([-3, -2, -1, 0, 1, 2, 3])
        elif k < 0.45:
            attrs['order'] = rng.choice('><*+') * rng.randint(1, 3)
        elif k < 0.5:
            attrs['order'] = rng.choice([None, True, False, 1.5, '', '>*', 'x'])
        if rng.random() < 0.3:
            attrs['atomname'] = rng.choice(bases)
        if rng.random() < 0.3:
            attrs['resname'] = rng.choice(['ALA', 'GLY'])
        cases.append((pre + base, attrs))
    lines = [line('prefix', r, [[k, enc_jv(v)] for k, v in a.items()]) for r, a in cases]
    impls = [treat_impl(r, a) for r, a in cases]
    for i, ((r, a), ln, im, mo) in enumerate(zip(cases, lines, impls, ask(lines))):
        errs = []
        pre = r[:len(r) - len(r.lstrip('+-><*'))]
        base = r[len(pre):]
        pure = base and len(set(pre)) <= 1
        if pure and 'order' not in a:
            # prefix and explicit order mean the same thing
            if pre and pre[0] in '+-':
                order = len(pre) if pre[0] == '+' else -len(pre)
            elif pre:
                order = pre
            else:
                order = 0
            other = treat_impl(base, dict(a, order=order))
            if other != im:
                errs.append('prefix %r and explicit order %r disagree: %s vs %s' % (pre, order, im, other))
            chk.count('prefix_equiv_checked')
        if pure and pre and a.get('order') is not None and not isinstance(a['order'], bool):
            o = a['order']
            want = (len(pre) if pre[0] == '+' else -len(pre)) if pre[0] in '+-' else pre
            if o != want and im != 'error':
                errs.append('prefix %r contradicts order %r but was accepted: %s' % (pre, o, im))
            chk.count('prefix_conflict' if o != want else 'prefix_consistent_double')
        chk.count('prefix_' + im.split()[0])
        chk.case('prefix-%d' % i, ln, im, mo, errs, bool(pre) or 'order' in a)


# ----------------------------------------------------------------------------------------------
# 3. atoms of an interaction line, arity
# ----------------------------------------------------------------------------------------------
class _Recorder:
    def __init__(self):
        self.atoms = None

    def __call__(self, atoms, context, section):
        self.atoms = [[a[0], dict(a[1])] for a in atoms]
        return [a[0] for a in atoms]


def base_parser_impl(section, tokens):
    rec = _Recorder()
    saved = ffinput._treat_link_interaction_atoms
    ffinput._treat_link_interaction_atoms = rec
    try:
        ctx = Link()
        ffinput._base_parser(collections.deque(tokens), ctx, context_type='link', section=section,
                             natoms=FFDirector.interactions_natoms.get(section))
        it = ctx.interactions[section][-1]
        rest = list(it.parameters) + ([json.dumps(it.meta)] if it.meta else [])
        atoms = [[r, json.dumps(a) if a else None] for r, a in rec.atoms]
        return 'ok %s %s' % (enc(atoms), enc(rest))
    except IOError:
        return 'error'
    except (ValueError, json.JSONDecodeError):
        return 'error'
    finally:
        ffinput._treat_link_interaction_atoms = saved


def run_atoms():
    rng = chk.rng('atoms')
    natoms = dict(TABLES['natoms'])
    sections = sorted(natoms) + ['exclusions', 'virtual_sitesn', 'made_up']
    cases = [('bonds', ['A', 'B', '--', '1']), ('bonds', ['A', 'B', 'C', '--', '1']), ('bonds', ['A', '--', '1']),
             ('bonds', ['A']), ('angles', ['A', 'B', '1', '2']), ('bonds', ['A', 'B', '--', '--']),
             ('exclusions', ['A', 'B', 'C']), ('exclusions', ['A', 'B', '--', 'C']), ('bonds', ['{"a": 1}', 'A', 'B']),
             ('bonds', ['A', '{"a": 1}', 'B', '{"b": 2}', '1', '{"m": 1}']), ('bonds', []), ('bonds', ['--', 'A', 'B'])]
    for _ in range(20000 if chk.thorough else 2500):
        sect = rng.choice(sections)
        n = natoms.get(sect)
        want = n if n is not None else rng.randint(1, 4)
        k = rng.random()
        na = want if k < 0.6 else max(0, want + rng.choice([-2, -1, 1]))
        toks = []
        for _ in range(na):
            toks.append(rng.choice(['A', 'B', 'BB', 'SC1', 'C1']))
            if rng.random() < 0.25:
                toks.append(json.dumps({rng.choice(['resname', 'x']): rng.choice(['ALA', 1])}))
        if rng.random() < (0.5 if n is not None else 0.9):
            toks.append('--')
        toks += [rng.choice(['1', '0.2', '1000', '2']) for _ in range(rng.randint(0, 3))]
        if rng.random() < 0.1:
            toks.append(json.dumps({'v': 1}))
        if rng.random() < 0.05:
            toks.insert(rng.randint(0, len(toks)), '--')
        if rng.random() < 0.04:
            toks.insert(0, json.dumps({'x': 1}))
        cases.append((sect, toks))
    lines = [line('atoms', s, t) for s, t in cases]
    impls = [base_parser_impl(s, t) for s, t in cases]
    for i, ((s, t), ln, im, mo) in enumerate(zip(cases, lines, impls, ask(lines))):
        errs = []
        n = natoms.get(s)
        plain = [x for x in t if not x.startswith('{')]
        if im != 'error' and n is not None:
            atoms = dec(im)[1]
            if len(atoms) != n:
                errs.append('%s line loaded with %d atoms instead of %d' % (s, len(atoms), n))
        if n is not None and '--' in plain and t.count('--') == 1 and not t[0].startswith('{'):
            before = plain.index('--')
            if before < n and im != 'error':
                errs.append('%d atoms before "--" for %s (needs %d) accepted' % (before, s, n))
            if before > n and im != 'error':
                errs.append('%d atoms before "--" for %s (needs %d) accepted: %s' % (before, s, n, clip(dec(im), 200)))
            chk.count('arity_delim_%s' % ('exact' if before == n else 'short' if before < n else 'excess'))
        chk.count('atoms_' + im.split()[0])
        chk.case('atoms-%d' % i, ln, im, mo, errs, '--' in t)


# ----------------------------------------------------------------------------------------------
# 4. .map weights
# ----------------------------------------------------------------------------------------------
def weights_impl(mapping):
    try:
        w = map_input._compute_weights(collections.OrderedDict(mapping), 'name')
    except IOError:
        return 'error'
    rows = []
    for to, d in w.items():
        for fr, x in d.items():
            f = Fraction(x).limit_denominator(10 ** 6)
            rows.append([to, fr, f.numerator, f.denominator])
    return 'ok ' + enc(sorted(enc(r) for r in rows)).replace('x', 'x')  # sorted by encoded row


def run_weights():
    rng = chk.rng('weights')
    cases = [[('A', ['X', 'X', 'Y', '!Z'])], [('A', ['X', '!X'])], [('A', ['!X']), ('B', ['X'])], [('A', [])],
             [('A', ['X', 'Y']), ('B', ['X', 'X', 'X', '!Y'])], [('A', ['!X', '!X'])], [('A', ['!'])],
             [('A', ['X']), ('B', ['!X']), ('C', ['X', 'X'])], [('A', ['!!X', '!X'])]]
    beads = ['BB', 'SC1', 'SC2', 'SC3']
    for _ in range(20000 if chk.thorough else 2500):
        m = []
        for j in range(rng.randint(1, 6)):
            tos = []
            for _ in range(rng.choice([0, 1, 1, 2, 3, 4, 5])):
                b = rng.choice(beads)
                tos.append(('!' if rng.random() < 0.2 else '') + b)
            m.append(('A%d' % j, tos))
        cases.append(m)
    lines = [line('weights', [[f, t] for f, t in m]) for m in cases]
    impls = [weights_impl(m) for m in cases]
    models = ask(lines)
    for i, (m, ln, im, mo) in enumerate(zip(cases, lines, impls, models)):
        errs = []
        conflict = any(('!' + t) in tos for f, tos in m for t in tos if not t.startswith('!'))
        if conflict and im != 'error':
            errs.append('target with and without "!" on one line accepted')
        if im != 'error':
            got = {(r[0], r[1]): Fraction(r[2], r[3]) for r in (dec(x) [0] for x in dec(im)[1])}
            want = {}
            for f, tos in m:
                nn = [t for t in tos if not t.startswith('!')]
                for t in set(nn):
                    want[(t, f)] = Fraction(nn.count(t), len(nn))
                for t in tos:
                    if t.startswith('!'):
                        want[(t[1:], f)] = Fraction(0)
            if not conflict and got != want:
                errs.append('weights %r differ from multiplicity / number of non-"!" entries %r' % (got, want))
        # the model returns rows sorted by its own encoding: re-sort both the same way
        if mo is not None and mo.startswith('ok'):
            mo = 'ok ' + enc(sorted(enc(r) for r in dec(mo)[1]))
        chk.count('weights_' + im.split()[0])
        chk.case('weights-%d' % i, ln, im, mo, errs,
                 any(t.startswith('!') or tos.count(t) > 1 for f, tos in m for t in tos))


# ----------------------------------------------------------------------------------------------
# 5. macro substitution
# ----------------------------------------------------------------------------------------------
def run_subst():
    rng = chk.rng('subst')
    cases = [({'a': 'b'}, 'x $a{1} $a'), ({}, 'x $a'), ({'a': 'b'}, '$'), ({'a': 'b'}, 'foo $'), ({'a': 'b'}, '$a$a'),
             ({'a': 'b', 'ab': 'c'}, '$ab $a"x'), ({'a': ''}, '$a'), ({'a': 'b'}, '$ a'), ({'a': 'x y'}, 'q $a\t$a}'),
             # a name ends at one of ' ${}\n\t"' ONLY: every other character belongs to the name
             ({'bb': 'P5', 'bb-helix': 'N0'}, '1 $bb-helix 1 $bb'), ({'fc': '500', 'fc.stiff': '1250'}, 'BB SC1 1 0.3 $fc.stiff'),
             ({'bb': 'P5'}, '$bb-helix'), ({'bb-helix': 'N0'}, '{"atype": $bb-helix}'), ({'9a': 'x', '9': 'y'}, '$9a$9'),
             ({'a:b': 'x', 'a': 'y'}, '"$a:b"$a')]
    names = ['a', 'ab', 'prot', 'X1', 'a-b', 'a.b', 'a:b', 'a/b', 'a+', 'a@b', '1a', '-a', 'prot-2', 'prot.x', 'X1=', 'a,b', 'a|b',
             "a'", 'a*', 'a(b)', 'a;b', 'a#', 'a[0]', 'a~', 'a%', 'ab&', 'a!', 'a?', 'a<b>', 'a^', 'a\\b', 'a_b']
    for _ in range(10000 if chk.thorough else 1500):
        ms = {n: rng.choice(['b', 'ALA', '0.25 1000', '{"x": 1}', '']) for n in rng.sample(names, rng.randint(0, 6))}
        parts = []
        for _ in range(rng.randint(1, 6)):
            k = rng.random()
            if k < 0.45:
                # mostly defined names (with their prefixes / extensions among `names`), sometimes any name
                parts.append('$' + rng.choice(sorted(ms) if ms and rng.random() < 0.7 else names + ['zz']))
            else:
                parts.append(rng.choice(['BB', '1', '{', '}', '"', 'x']))
        s = ''.join(p + rng.choice([' ', '', '\t', ' ']) for p in parts).strip()
        cases.append((ms, s))
    lines = [line('subst', [[k, v] for k, v in ms.items()], s) for ms, s in cases]
    impls = []
    for ms, s in cases:
        try:
            impls.append('ok ' + enc(parser_utils._substitute_macros(s, ms)))
        except (KeyError, UnboundLocalError):
            impls.append('error')
    for i, ((ms, s), ln, im, mo) in enumerate(zip(cases, lines, impls, ask(lines))):
        errs = []
        if im != 'error':
            out = dec(im)[1]
            if '$' in out:
                errs.append('"$" left after substitution: %r -> %r' % (s, out))
            # independent statement: every $name delimited by one of ' ${}\n\t"' or the end is replaced
            try:
                want = re.sub(r'\$([^ \t\n{}$"]*)', lambda mt: ms[mt.group(1)], s)
            except KeyError as exc:
                want = None
                errs.append('substitution %r -> %r although the macro %s is not defined (%r)' % (s, out, exc, ms))
            if want is not None and out != want:
                errs.append('substitution %r -> %r, expected %r' % (s, out, want))
        else:
            used = re.findall(r'\$([^ \t\n{}$"]*)', s)
            if all(u in ms for u in used) and not s.endswith('$'):
                errs.append('all macros defined but substitution failed: %r %r' % (s, ms))
        chk.count('subst_' + im.split()[0])
        if im != 'error' and re.search(r'\$\w*[^\w \t\n{}$"]', s):
            chk.count('subst_name_with_punctuation_ok')
        chk.case('subst-%d' % i, ln, im, mo, errs, '$' in s)


# ----------------------------------------------------------------------------------------------
# 5b. int(): the spellings of atom indices, resids, charge groups, nrexcl, weights
# ----------------------------------------------------------------------------------------------
_INT_RE = re.compile(r'^[ \t\n\r\x0b\x0c]*[+-]?[0-9]+(_[0-9]+)*[ \t\n\r\x0b\x0c]*\Z')


def run_pyint():
    """the model's `pyInt?` against CPython's int(str) (what the readers call on index / resid / count
    tokens); the oracle states the grammar as a regular expression; non-ASCII input (which int() also
    accepts: any Unicode decimal digit, Unicode blanks) is outside the model and only recorded"""
    rng = chk.rng('pyint')
    cases = ['1', '+1', '-1', '007', '1_0', '1_000_000', '_1', '1_', '1__0', '+_1', '-', '+', '', ' ', ' 7 ', '\t7\n', '7\x0b',
             '\x1f7\x1c', '+ 7', '7 7', '0x10', '1e3', '1.0', '--1', '+-1', '-+1', '1-', '0', '-0', '+0', '00', '0_0', '1_2_3',
             '١', '٣', '1٣', '²', '７', '1\u2009', '\xa07', '1\x85']
    alpha = ['0', '1', '9', '_', '+', '-', ' ', '\t', '\x1f', 'x', '.']
    for _ in range(20000 if chk.thorough else 2500):
        k = rng.random()
        if k < 0.5:
            cases.append(''.join(rng.choice(alpha) for _ in range(rng.randint(0, 6))))
        else:
            body = '_'.join(''.join(rng.choice('0123456789') for _ in range(rng.randint(1, 3))) for _ in range(rng.randint(1, 3)))
            t = rng.choice(['', ' ', '\t']) + rng.choice(['', '', '+', '-']) + body + rng.choice(['', ' ', '\x0c'])
            if rng.random() < 0.25 and t:
                j = rng.randrange(len(t))
                t = t[:j] + rng.choice(['_', '+', ' ', '']) + t[j + (rng.random() < 0.5):]
            cases.append(t)
    ascii_cases = [c for c in cases if c.isascii()]
    models = dict(zip(ascii_cases, ask([line('pyint', c) for c in ascii_cases])))
    for i, c in enumerate(cases):
        try:
            im = 'ok %d' % int(c)
        except ValueError:
            im = 'error'
        if not c.isascii():
            chk.count('pyint_nonascii_excluded_' + im.split()[0])
            chk.case('pyint-%d' % i, line('pyint', c), im, None, [], False)
            continue
        errs = []
        ok = bool(_INT_RE.match(c))
        if ok != (im != 'error'):
            errs.append('int(%r) -> %s, the grammar [ws][+-]digits(_digits)*[ws] says %s' % (c, im, 'accept' if ok else 'reject'))
        elif ok and int(c) != int(c.strip(' \t\n\r\x0b\x0c').replace('_', '').lstrip('+-') or '0') * (-1 if '-' in c else 1):
            errs.append('int(%r) has the wrong value' % c)
        chk.count('pyint_' + im.split()[0])
        chk.case('pyint-%d' % i, line('pyint', c), im, models[c], errs, '_' in c or '+' in c or c != c.strip())


# ----------------------------------------------------------------------------------------------
# 6. whole .ff files: generator with AST
# ----------------------------------------------------------------------------------------------
NATOMS = dict(TABLES['natoms'])
BLOCK_SECTIONS = ['bonds', 'angles', 'dihedrals', 'constraints', 'pairs', 'impropers', 'exclusions',
                  'virtual_sitesn', 'position_restraints', 'virtual_sites2']
LINK_SECTIONS = ['bonds', 'angles', 'dihedrals', 'constraints', 'impropers', 'exclusions', 'pairs', 'pairs_nb']


def prefix_of(order):
    if isinstance(order, int):
        return ('+' if order > 0 else '-') * abs(order)
    return order


def as_loaded(attrs):
    """what an attribute dictionary written in the file is declared to mean: 'a|b' is a choice"""
    return {k: (Choice(v.split('|')) if isinstance(v, str) and '|' in v else v) for k, v in attrs.items()}


class Gen:
    """Builds the text of a .ff file together with what it declares (the expectation)."""

    def __init__(self, rng, rich=False):
        self.rng = rng
        self.rich = rich            # rich files use features the Lean reader does not interpret
        self.lines = []             # (text, tag) tag = hints for fault injection
        self.blocks = collections.OrderedDict()
        self.links = []
        self.mods = collections.OrderedDict()
        self.variables = {}
        self.kinds = []
        self.macros = {}
        self.serial = 0
        self.has_ctx = False

    def emit(self, text, **tag):
        self.lines.append((text, tag))

    def header(self, name):
        r = self.rng
        style = r.choice(['[ %s ]', '[%s]', '[  %s ]', '[ %s ] ; comment'])
        self.emit(style % name, header=name)

    def num(self):
        return self.rng.choice(['1', '0.25', '1000', '2', '0.47', '3', '120', '25.5'])

    def params(self, section):
        r = self.rng
        ps = [self.num() for _ in range(r.randint(1, 3))]
        if section == 'dihedrals' and r.random() < 0.35:
            ps[0] = '2'
        if section in ('dihedrals', 'impropers') and ps[0] == '2' and section == 'impropers':
            pass
        if self.macros and r.random() < 0.2:
            name = r.choice(sorted(self.macros))
            j = r.randint(1, len(ps))       # mostly the end of the line, also between two columns (blank / tab after it)
            return ps[:j] + ['$' + name] + ps[j:], ps[:j] + self.macros[name].split() + ps[j:]
        return ps, list(ps)

    META_VALUES = {'version': [1, 2, 3], 'group': ['g', 'h', 'bb'], 'comment': ['c0', 'c1', 'c2'], 'ifdef': ['FLEX', 'X']}

    def meta_line(self, store, sect):
        """a `#meta {...}` line: attributes for every later interaction line of this section of the context"""
        r = self.rng
        d = {k: r.choice(self.META_VALUES[k]) for k in r.sample(sorted(self.META_VALUES), r.randint(1, 2))}
        self.emit('#meta ' + json.dumps(d))
        store.setdefault(sect, {}).update(d)

    def own_meta(self, store, sect):
        """the trailing dictionary of one interaction line; it often repeats a key of the section-wide
        `#meta` with a DIFFERENT value: the line's own value is what the line declares"""
        r = self.rng
        if r.random() > 0.4:
            return [], dict(store.get(sect, {}))
        own = {}
        cur = store.get(sect, {})
        if cur and r.random() < 0.75:
            k = r.choice(sorted(cur))
            own[k] = r.choice([v for v in self.META_VALUES[k] if v != cur[k]])
        if not own or r.random() < 0.4:
            k = r.choice(sorted(self.META_VALUES))
            own.setdefault(k, r.choice(self.META_VALUES[k]))
        return [json.dumps(own)], {**cur, **own}

    # ---- sections -------------------------------------------------------------------------
    MACRO_PUNCT = ['-', '.', ':', '/', '+', '@', '=', ',', '|', "'", '*', '(', ')', '<', '>', '~', '%', '&', '!', '?', '^', '_', '-', '.']

    def macros_section(self):
        self.header('macros')
        r = self.rng
        todo = []
        for _ in range(r.randint(1, 2)):
            name = 'm%d' % r.randint(0, 3)
            k = r.random()
            if k < 0.5:
                # a name ends at one of ' ${}\n\t"' only: any other punctuation, a leading digit, belong to the name;
                # often BOTH the name and its prefix up to that character are macros (`m1` and `m1-helix`)
                ext = name + r.choice(self.MACRO_PUNCT) + r.choice(['', 'helix', 'stiff', '2', name])
                if r.random() < 0.3:
                    ext = r.choice(['9', '0', '-', '.', '+']) + ext
                pair = [ext, name] if r.random() < 0.5 else [name, ext]
                todo += pair if r.random() < 0.7 else [ext]
                chk.count('ff_macro_name_with_punctuation')
            else:
                todo.append(name)
        for name in todo:
            value = r.choice([v for v in ['0.33', '1250', 'P5', '7500', '17', '0.5'] if v not in self.macros.values()] or ['0.33'])
            if self.macros and self.rng.random() < 0.3:
                other = self.rng.choice(sorted(self.macros))
                self.emit('%s $%s' % (name, other))
                value = self.macros[other]
            else:
                self.emit('%s %s' % (name, value))
            self.macros[name] = value

    def macro_twins(self):
        """the same macros defined, used, REDEFINED and used again in lines that are textually identical to the
        first ones: every line must be loaded with the value in force where it is written"""
        r = self.rng
        self.serial += 1
        tag = 'T%d' % self.serial
        for rnd in range(r.randint(2, 3)):
            kb = r.choice(['1250', '7500', '0.33', '17'])
            res = r.choice(['ALA', 'GLY', 'SER', 'ALA|GLY'])
            self.header('macros')
            self.emit('tk %s' % kb)
            self.emit('tr %s' % json.dumps(res))
            self.macros['tk'], self.macros['tr'] = kb, json.dumps(res)
            if r.random() < 0.7:
                name = '%sB%d' % (tag, rnd)
                self.header('moleculetype')
                self.emit('%s 1' % name, blockname=name)
                self.header('atoms')
                self.emit('1 P5 1 TW TA 1')
                self.emit('2 P5 1 TW TB 2')
                self.header('bonds')
                self.emit('TA TB 1 0.31 $tk')
                cols = [[repr_j('P5'), repr_j('TW'), repr_j(1), repr_j(q)] for q in (1, 2)]
                self.blocks[name] = [name, ['TA', 'TB'], [['bonds', ['TA', 'TB'], ['1', '0.31', kb], []]], cols, 1]
                self.kinds.append('block')
            self.header('link')
            self.emit('resname $tr')
            self.header('bonds')
            self.emit('TA +TB 1 0.35 $tk')
            self.header('non-edges')
            self.emit('TA TC')
            wide = as_loaded({'resname': res})
            nodes = [['TA', canon_attrs(dict(wide, order=0, atomname='TA'))], ['+TB', canon_attrs(dict(wide, order=1, atomname='TB'))]]
            self.links.append([nodes, [['bonds', ['TA', '+TB'], ['1', '0.35', kb], []]], [],
                               [['TA', canon_attrs(dict(wide, order=0, atomname='TC'))]], [], []])
            self.kinds.append('link')
        self.has_ctx = True
        chk.count('ff_macro_redefined_with_identical_lines')

    def variables_section(self):
        self.header('variables')
        for _ in range(self.rng.randint(1, 2)):
            k = 'v%d' % self.rng.randint(0, 3)
            v = self.rng.choice([1, 0.5, 'text', True])
            self.emit('%s %s' % (k, json.dumps(v) if not isinstance(v, str) or self.rng.random() < 0.5 else v))
            self.variables[k] = v

    def citations_section(self):
        self.header('citations')
        self.emit('cite%d cite%d' % (self.rng.randint(0, 3), self.rng.randint(4, 6)))

    def block(self):
        r = self.rng
        self.serial += 1
        name = r.choice(['ALA', 'GLY', 'LYS', 'B%d' % self.serial, 'B%d' % self.serial])
        self.header('moleculetype')
        nrexcl = r.randint(0, 3)
        # `name, nrexcl = line.split()`: no form feed here (str.split would cut there)
        self.emit('%s %s' % (name, spell_int(r, nrexcl).replace('\x0c', '')), blockname=name)
        atoms = r.sample(['BB', 'SC1', 'SC2', 'SC3', 'C1', 'N', 'CA', 'O1'], r.randint(2, 5))
        self.header('atoms')
        acols = []
        for i, a in enumerate(atoms):
            atype, resid, cg = r.choice(['P5', 'C1', 'Qd']), r.randint(1, 3), r.choice([i + 1, i + 1, 10 + i])
            acols.append([repr_j(atype), repr_j(name), repr_j(resid), repr_j(cg)])
            cols = [str(i + 1), atype, spell_int(r, resid), name, a, spell_int(r, cg)]
            chk.count('ff_int_spelled_' + ('plain' if cols[2] == str(resid) and cols[5] == str(cg) else 'fancy'))
            if r.random() < 0.7:
                cols.append(r.choice(['0', '1.0', '-1', '0.5']))
                if r.random() < 0.4:
                    cols.append(r.choice(['72', '36.5']))
            if r.random() < 0.15:
                cols.append(json.dumps({'element': 'C'}))
            self.emit(' '.join(cols), blockatom=a, block=name)
        inters = []
        secmeta = {}
        for _ in range(r.randint(0, 4)):
            sect = r.choice(BLOCK_SECTIONS)
            n = NATOMS.get(sect)
            self.header(sect)
            if r.random() < 0.4:
                self.meta_line(secmeta, sect)
            for _ in range(r.randint(1, 3)):
                if r.random() < 0.1:
                    self.meta_line(secmeta, sect)
                k = n if n is not None else r.randint(1, 3)
                chosen = [r.choice(atoms) for _ in range(k)]
                refs = [(r.choice(['%d', '%d', '%d', '0%d', '00%d']) % (atoms.index(a) + 1)) if r.random() < 0.4 else a
                        for a in chosen]
                written, expected = self.params(sect)
                delim = ['--'] if (n is None or r.random() < 0.3) else []
                mtoks, mexp = self.own_meta(secmeta, sect)
                self.emit(' '.join(refs + delim + written + mtoks),
                          blockinter=sect, natoms=n, nref=k, block=name, natoms_block=len(atoms), delim=bool(delim))
                out_sect = 'impropers' if (sect == 'dihedrals' and expected and expected[0] == '2') else sect
                inters.append([out_sect, chosen, expected, canon_attrs(mexp)])
        if self.rich and r.random() < 0.3:
            self.header('citation')
            self.emit('ref%d' % r.randint(0, 5))
        if self.rich and r.random() < 0.3:
            self.header('edges')
            a, b = r.sample(atoms, 2)
            self.emit('%s %s' % (a, b))
        self.blocks[name] = [name, atoms, inters, acols, nrexcl]
        self.kinds.append('block')
        self.has_ctx = True

    def render_atom(self, base, order, extra, allow_attrs=True):
        """one mention of an abstract link atom: prefix form, explicit-order form or both"""
        r = self.rng
        pre = prefix_of(order)
        attrs = {}
        if extra and allow_attrs and r.random() < 0.5:
            attrs.update(extra)
        style = r.random()
        if order == 0 or style < 0.5:
            text = pre + base
        elif style < 0.8 and allow_attrs:
            text = base
            attrs['order'] = order
        elif allow_attrs:
            text = pre + base
            attrs['order'] = order
        else:
            text = pre + base
        used = dict(attrs)
        if attrs:
            text += r.choice([' ', '']) + json.dumps(attrs)
        used.pop('order', None)
        return text, as_loaded(used)

    def link_like(self, kind):
        r = self.rng
        self.serial += 1
        nodes = collections.OrderedDict()    # key -> attrs expected
        inters, removed = [], []
        non_edges, patterns, features = [], [], set()
        secmeta = {}
        all_nodes = {}
        name = None
        if kind == 'link':
            self.header('link')
            k = r.random()
            if k < 0.3:
                all_nodes['resname'] = r.choice(['ALA', 'GLY', 'L%d' % self.serial])
                self.emit('resname %s' % json.dumps(all_nodes['resname']))
            elif k < 0.45:
                names = r.sample(['ALA', 'GLY', 'LYS', 'SER'], r.randint(2, 3))
                all_nodes['resname'] = Choice(names)
                self.emit('resname %s' % json.dumps('|'.join(names)))
            elif k < 0.55:
                v = r.choice(['PRO', 1, None])
                all_nodes['resname'] = NotDefinedOrNot(v)
                self.emit('resname not(%s)' % json.dumps(v))
            orders = [0, 0, 1, 1, -1, 2, '>', '>>', '<', '*']
        else:
            self.header('modification')
            name = r.choice(['M%d' % self.serial, 'M%d' % self.serial, 'C-ter', 'N-ter'])
            self.emit(name, modname=name)
            orders = [0]
        bases = r.sample(['BB', 'SC1', 'SC2', 'CA', 'N', 'C', 'O'], r.randint(2, 4))
        abstract = []
        for b in bases:
            o = r.choice(orders)
            extra = {'atype': r.choice(['P5', 'Qd'])} if r.random() < 0.3 else {}
            if r.random() < 0.15:
                extra['secstruc'] = r.choice(['H|1', 'E|B|S'])
            abstract.append((b, o, extra))
        # the same base may appear with two different orders
        if kind == 'link' and r.random() < 0.5:
            b = bases[0]
            o = r.choice([x for x in orders if x != abstract[0][1]] or [1])
            abstract.append((b, o, {}))

        def mention(atom, allow_attrs=True, defaults=None):
            b, o, extra = atom
            text, used = self.render_atom(b, o, extra, allow_attrs)
            key = prefix_of(o) + b
            cur = nodes.get(key)
            if cur is None:
                cur = nodes[key] = {}
            return text, key, used

        def touch(key, atom, used, defaults=None):
            b, o, extra = atom
            cur = nodes[key]
            if defaults:
                for k, v in defaults.items():
                    cur.setdefault(k, v)
            cur.update(all_nodes)
            cur.update(used)
            cur['order'] = o
            cur.setdefault('atomname', b)

        sections = r.randint(1, 4)
        did_atoms = False
        for _ in range(sections):
            k = r.random()
            if k < 0.3 and not did_atoms and not nodes:
                did_atoms = True
                self.header('atoms')
                for atom in r.sample(abstract, r.randint(1, len(abstract))):
                    b, o, extra = atom
                    attrs = dict(extra)
                    pre = prefix_of(o)
                    if o != 0 and r.random() < 0.5:
                        text = b
                        attrs['order'] = o
                    else:
                        text = pre + b
                    if kind == 'modification' and r.random() < 0.5:
                        attrs['PTM_atom'] = True
                    key = pre + b
                    nodes.setdefault(key, {})
                    self.emit('%s %s' % (text, json.dumps(attrs)), linkatom=True)
                    used = as_loaded(attrs)
                    used.pop('order', None)
                    touch(key, atom, used, defaults={'PTM_atom': False} if kind == 'modification' else None)
            elif k < 0.3 and kind == 'link':
                # what a link declares besides atoms and interactions; the link-wide attributes written under
                # [ link ] apply to the partner atom of a non-edge (attributes of the line itself win)
                self.header(r.choice(['features', 'patterns', 'non-edges', 'non-edges'] + (['molmeta', 'citation'] if self.rich else [])))
                sect = self.lines[-1][1]['header']
                for _ in range(r.randint(1, 3) if sect in ('features', 'patterns', 'non-edges') else 1):
                    if sect == 'features':
                        fs = ['feat%d' % r.randint(0, 3) for _ in range(r.randint(1, 2))]
                        self.emit(' '.join(fs))
                        features.update(fs)
                    elif sect == 'patterns':
                        pat, texts = [], []
                        for _ in range(r.randint(1, 3)):
                            b, o, _extra = r.choice(abstract)
                            ref = prefix_of(o) + b
                            attrs = r.choice([None, None, {'resname': 'GLY'}, {'resname': 'ALA|GLY', 'x': 1}, {'atomname': 'Q'}])
                            texts.append(ref + ((' ' + json.dumps(attrs)) if attrs else ''))
                            pat.append([ref, canon_attrs(as_loaded(attrs or {}))])
                        self.emit(' '.join(texts))
                        patterns.append(pat)
                    elif sect == 'non-edges':
                        (b1, o1, e1), (b2, o2, e2) = r.choice(abstract), r.choice(abstract)
                        t1, _used1 = self.render_atom(b1, o1, e1)
                        if r.random() < 0.3:
                            e2 = dict(e2, resname=r.choice(['GLY', 'SER|THR']))      # overrides the link-wide resname
                        t2, used2 = self.render_atom(b2, o2, e2)
                        want = dict(all_nodes)
                        want.update(used2)
                        want['order'] = o2
                        want.setdefault('atomname', b2)
                        self.emit('%s %s' % (t1, t2))
                        non_edges.append([prefix_of(o1) + b1, canon_attrs(want)])
                        chk.count('ff_non_edge_' + ('with_linkwide_attrs' if all_nodes else 'plain'))
                    elif sect == 'molmeta':
                        self.emit('flag true')
                    else:
                        self.emit('ref%d' % r.randint(0, 5))
            else:
                delete = kind == 'link' and r.random() < 0.2
                sect = r.choice(LINK_SECTIONS)
                n = NATOMS.get(sect)
                self.header(('!' if delete else '') + sect)
                if r.random() < 0.4:
                    self.meta_line(secmeta, sect)
                for _ in range(r.randint(1, 3)):
                    if r.random() < 0.1:
                        self.meta_line(secmeta, sect)
                    kk = n if n is not None else r.randint(1, 3)
                    chosen = [r.choice(abstract) for _ in range(kk)]
                    texts, keys = [], []
                    for atom in chosen:
                        text, key, used = mention(atom)
                        touch(key, atom, used)
                        texts.append(text)
                        keys.append(key)
                    written, expected = self.params(sect)
                    if r.random() < 0.15:
                        eff = r.choice(['dist(BB,+BB)', 'angle(BB,+BB,++BB)', 'dihedral(A,B,C,D|.1f)',
                                        'dihphase(A,B,C,D)', 'dist(BB,SC1|.3f)'])
                        written, expected = written + [eff], expected + [eff]
                    delim = ['--'] if (n is None or r.random() < 0.4) else []
                    mtoks, mexp = self.own_meta(secmeta, sect)
                    self.emit(' '.join(texts + delim + written + mtoks),
                              linkinter=sect, natoms=n, nref=kk, delim=bool(delim),
                              first_key=None if delete else keys[0], first_base=chosen[0][0])
                    out_sect = 'impropers' if (sect == 'dihedrals' and not delete and expected
                                               and expected[0] == '2') else sect
                    (removed if delete else inters).append([out_sect, keys, expected, canon_attrs(mexp)])
        exp_nodes = [[k, canon_attrs(v)] for k, v in nodes.items()]
        if kind == 'link':
            self.links.append([exp_nodes, inters, removed, non_edges, patterns, sorted(features)])
        else:
            self.mods[name] = [name, exp_nodes, inters]
        self.kinds.append(kind)
        self.has_ctx = True

    def build(self):
        r = self.rng
        n = r.choice([1, 2, 3, 3, 4, 5, 6, 7])
        if r.random() < 0.25:
            self.variables_section()
        for _ in range(n):
            k = r.random()
            if k < 0.3:
                self.block()
            elif k < 0.65:
                self.link_like('link')
            elif k < 0.8:
                self.link_like('modification')
            elif k < 0.9:
                self.macros_section()
            elif k < 0.95:
                self.macro_twins()
            else:
                self.citations_section()
            if r.random() < 0.2:
                self.emit('; a comment line')
            if r.random() < 0.1:
                self.emit('')
        return self

    def text(self):
        return [t for t, _ in self.lines]

    def expected(self):
        def srt(inters):
            return sorted(inters, key=lambda x: x[0])     # stable: file order kept inside a section
        blocks = [[b[0], b[1], srt(b[2]), b[3], b[4]] for b in self.blocks.values()]
        links = [[l[0], srt(l[1]), srt(l[2])] + l[3:] for l in self.links]
        mods = [[m[0], m[1], srt(m[2])] for m in self.mods.values()]
        return [blocks, links, mods]


FAULTS = ['unknown_section', 'undefined_atom', 'duplicate_atom', 'unbalanced_braces', 'order_conflict', 'arity',
          'index_zero', 'effector', 'bad_int', 'attr_conflict']
BAD_INTS = ['1_', '_1', '1__0', '+', '-', '1.0', 'x', '0x1', '+-1', '1e2', '1_x', '--1']


def inject(gen, fault, rng):
    """Return the lines of gen with `fault` injected at a random applicable position, or None."""
    L = list(gen.lines)
    idx = lambda pred: [i for i, (t, tag) in enumerate(L) if pred(t, tag)]
    if fault == 'unknown_section':
        i = rng.randint(0, len(L))
        new = [('[ %s ]' % rng.choice(['foo', 'bond', 'atom', 'moleculetypes', 'links']), {}), ('A B 1', {})]
        return [t for t, _ in L[:i] + new + L[i:]]
    if fault == 'undefined_atom':
        c = idx(lambda t, tag: 'blockinter' in tag and tag['nref'] >= 1)
        ends = [i for i in idx(lambda t, tag: 'blockatom' in tag)
                if i + 1 == len(L) or 'blockatom' not in L[i + 1][1]]
        if ends and (not c or rng.random() < 0.25):
            # an [ edges ] line of a block naming an atom that is not declared
            i = rng.choice(ends)
            new = [('[ edges ]', {}), ('%s %s' % (L[i][1]['blockatom'], rng.choice(['ZZ9', 'Q'])), {})]
            return [t for t, _ in L[:i + 1] + new + L[i + 1:]]
        if not c:
            return None
        i = rng.choice(c)
        t, tag = L[i]
        toks = t.split(' ')
        j = rng.randrange(tag['nref'])
        toks[j] = rng.choice(['ZZ9', str(tag['natoms_block'] + rng.randint(1, 3)), 'Q'])
        L[i] = (' '.join(toks), tag)
        return [t for t, _ in L]
    if fault == 'effector':
        # unknown parameter effector / wrong number of keys / two formats
        c = idx(lambda t, tag: 'linkinter' in tag)
        if not c:
            return None
        i = rng.choice(c)
        t, tag = L[i]
        L[i] = (t + ' ' + rng.choice(['foo(A,B)', 'dist(A)', 'angle(A,B)', 'dist(A,B|.1f|x)', 'dihedral(A,B,C)']), tag)
        if '{' in t.split(' ')[-1]:
            return None
        return [t for t, _ in L]
    if fault == 'bad_int':
        # a token that int() does not accept where a resid / charge group / nrexcl is read, or a reference that
        # looks like a number but is not all digits (it is then looked up as an atom NAME, which does not exist)
        c = idx(lambda t, tag: 'blockatom' in tag or 'blockname' in tag or ('blockinter' in tag and tag['nref'] >= 1))
        if not c:
            return None
        i = rng.choice(c)
        t, tag = L[i]
        toks = t.split(' ')
        if 'blockname' in tag:
            toks[1] = rng.choice(BAD_INTS)
        elif 'blockatom' in tag:
            toks[rng.choice([2, 5])] = rng.choice(BAD_INTS)
        else:
            toks[rng.randrange(tag['nref'])] = rng.choice(['1_0', '+1', '1_', '-1', '1.0', '0x1'])
        L[i] = (' '.join(toks), tag)
        return [t for t, _ in L]
    if fault == 'attr_conflict':
        # a link interaction mentions an atom again with a different value for an attribute it already has
        c = idx(lambda t, tag: 'linkinter' in tag and tag.get('first_key') is not None)
        if not c:
            return None
        i = rng.choice(c)
        t, tag = L[i]
        key, base = tag['first_key'], tag['first_base']
        sect = tag['linkinter']
        n = tag['natoms'] if tag['natoms'] is not None else 2
        other = ['%s {"atomname": "%s", "resname": "QQQ", "zz_attr": 1}' % (key, base)] + ['ZZ%d' % q for q in range(n - 1)]
        again = ['%s {"zz_attr": 2}' % key] + ['ZZ%d' % q for q in range(n - 1)]
        new = [(' '.join(other + ['--', '1']), {}), (' '.join(again + ['--', '1']), {})]
        return [t for t, _ in L[:i + 1] + new + L[i + 1:]]
    if fault == 'index_zero':
        # known finding F-C13-4: the (1-based) atom index 0 in a block interaction
        c = idx(lambda t, tag: 'blockinter' in tag and tag['nref'] >= 1)
        if not c:
            return None
        i = rng.choice(c)
        t, tag = L[i]
        toks = t.split(' ')
        toks[rng.randrange(tag['nref'])] = '0'
        L[i] = (' '.join(toks), tag)
        return [t for t, _ in L]
    if fault == 'duplicate_atom':
        c = idx(lambda t, tag: 'blockatom' in tag)
        if not c:
            return None
        i = rng.choice(c)
        return [t for t, _ in L[:i + 1] + [L[i]] + L[i + 1:]]
    if fault == 'unbalanced_braces':
        c = idx(lambda t, tag: ('linkinter' in tag or 'blockinter' in tag or 'linkatom' in tag))
        if not c:
            return None
        i = rng.choice(c)
        t, tag = L[i]
        if '}' in t and rng.random() < 0.5:
            k = t.rindex('}')
            t = t[:k] + t[k + 1:]
        elif '{' in t and rng.random() < 0.5:
            k = t.index('{')
            t = t[:k] + t[k + 1:]
        else:
            t = t + rng.choice([' {', ' }', ' {"a": 1'])
        L[i] = (t, tag)
        return [t for t, _ in L]
    if fault == 'order_conflict':
        c = idx(lambda t, tag: 'linkinter' in tag)
        if not c:
            return None
        i = rng.choice(c)
        t, tag = L[i]
        bad = rng.choice(['+QQ {"order": 2}', '-QQ {"order": 1}', '>QQ {"order": 1}', '++QQ {"order": ">>"}',
                          'QQ {"order": true}', '+-QQ', '<<QQ {"order": "<"}', '+QQ {"order": 0}'])
        toks = t.split(' ')
        # replace the first atom (its attribute token, if any, is the next token starting with '{')
        end = 1
        if len(toks) > 1 and toks[1].startswith('{'):
            end = 2
            while not ' '.join(toks[1:end]).count('{') == ' '.join(toks[1:end]).count('}'):
                end += 1
        L[i] = (' '.join([bad] + toks[end:]), tag)
        return [t for t, _ in L]
    if fault == 'arity':
        c = idx(lambda t, tag: ('linkinter' in tag or 'blockinter' in tag) and tag['natoms'] is not None)
        if not c:
            return None
        i = rng.choice(c)
        t, tag = L[i]
        n = tag['natoms']
        # too few atoms: a "--" after n-1 atoms, or a line that stops short
        names = ['BB', 'SC1', 'CA', 'N'] if 'linkinter' in tag else None
        if names is None:
            blockatoms = [tg['blockatom'] for _, tg in L if tg.get('block') == tag['block'] and 'blockatom' in tg]
            names = blockatoms
        few = [rng.choice(names) for _ in range(n - 1)]
        if rng.random() < 0.3:
            # too many atoms in front of an explicit delimiter
            many = [rng.choice(names) for _ in range(n + rng.randint(1, 2))]
            L[i] = (' '.join(many + ['--', '1', '0.2']), tag)
        elif rng.random() < 0.6 or n == 1:
            L[i] = (' '.join(few + ['--', '1', '0.2']), tag)
        else:
            L[i] = (' '.join(few), tag)
        return [t for t, _ in L]
    return None


def oracle_ff(expected, got):
    errs = []
    names = ['blocks', 'links', 'modifications']
    for nm, e, g in zip(names, expected, got):
        if e == g:
            continue
        if nm == 'links':
            if len(e) != len(g):
                errs.append('%d links declared, %d loaded' % (len(e), len(g)))
            else:
                for k, (a, b) in enumerate(zip(e, g)):
                    if a != b:
                        errs.append('link #%d differs from its declaration: loaded %s, declared %s'
                                    % (k, clip(b, 300), clip(a, 300)))
                        break
        else:
            if [x[0] for x in e] != [x[0] for x in g]:
                errs.append('%s loaded %r, declared (in order, last wins) %r' % (nm, [x[0] for x in g], [x[0] for x in e]))
            else:
                for a, b in zip(e, g):
                    if a != b:
                        errs.append('%s %s differs from its declaration: loaded %s, declared %s'
                                    % (nm, a[0], clip(b, 300), clip(a, 300)))
                        break
    return errs


def scan_text(lines):
    """independent scan of a file text: top-level declarations in order (the METH_DICT-free reading)"""
    decls = []
    for raw in lines:
        t = raw.split(';', 1)[0].strip()
        if t.startswith('[') and t.endswith(']'):
            name = t.strip('[ ]').casefold()
            if name in ('link', 'moleculetype', 'modification'):
                decls.append([name, None])
            continue
        if t and decls and decls[-1][1] is None and decls[-1][0] != 'link':
            decls[-1][1] = t.split()[0] if decls[-1][0] == 'moleculetype' else t
        elif t and decls and decls[-1][1] is None:
            decls[-1][1] = ''
    return decls


def index_zero_signature(lines, ff):
    """signature of F-C13-4: a block interaction line refers to an atom by the index 0 and the loaded
    interaction names the last atom of the block (or that block was replaced by a later declaration of
    the same name, so that only the acceptance of the index is observable)"""
    sec, top, names, zero_blocks = None, None, [], set()
    for raw in lines:
        t = raw.split(';', 1)[0].strip()
        if t.startswith('[') and t.endswith(']'):
            name = t.strip('[ ]').casefold()
            if name in ('moleculetype', 'link', 'modification', 'macros', 'variables', 'citations'):
                top, sec = name, None
                if name == 'moleculetype':
                    names.append(None)
            else:
                sec = name
        elif t and top == 'moleculetype' and sec is None and names and names[-1] is None:
            names[-1] = t.split()[0]
        elif t and top == 'moleculetype' and sec not in (None, 'atoms', 'edges', 'citation', 'meta'):
            toks = t.split('--')[0].split()
            n = NATOMS.get(sec)
            if '0' in (toks[:n] if n is not None else toks):
                zero_blocks.add(len(names) - 1)
    if not zero_blocks or ff is None:
        return False
    if any(names[k] in names[k + 1:] for k in zero_blocks):
        return True
    return any(list(b.nodes)[-1] in it.atoms for b in ff.blocks.values() if len(b.nodes)
               for its in b.interactions.values() for it in its)


def check_once_in_order(lines, ff):
    """declared-once-in-order stated on the file text and the loaded library only"""
    errs = []
    decls = scan_text(lines)
    nlinks = sum(1 for k, _ in decls if k == 'link')
    if len(ff.links) != nlinks:
        errs.append('%d [ link ] sections in the file, %d links loaded' % (nlinks, len(ff.links)))
    if len({id(l) for l in ff.links}) != len(ff.links):
        errs.append('the same link object is registered more than once')
    for kind, table in (('moleculetype', ff.blocks), ('modification', ff.modifications)):
        names = []
        for k, n in decls:
            if k == kind and n not in names:
                names.append(n)
        if [x for x in table] != names:
            errs.append('%s names loaded %r, declared %r' % (kind, list(table), names))
    return errs


_CORPUS = json.load(open(os.path.join(VERIF, 'corpus', 'c13_cases.json')))
CORPUS_FF = [tuple(x) for x in _CORPUS['ff']]
QUIRKS_FF = [tuple(x) for x in _CORPUS['quirks']]
OBS_FF = [tuple(x) for x in _CORPUS.get('observations', [])]


def run_ff():
    rng = chk.rng('ff')
    cases = []          # (cid, lines, expected dump or None (= must raise) or 'model-only', nontrivial, fault)
    for cid, text, nlinks, *dump in CORPUS_FF:
        cases.append(('ff-corpus-' + cid, text.split('\n'), 'scan' if nlinks is not None else None, True, None,
                      (nlinks, dump[0] if dump else None)))
    for cid, text, note in OBS_FF:
        cases.append(('ff-' + cid, text.split('\n'), 'observation', True, None, note))
    for fid, text, what in QUIRKS_FF:
        cases.append(('ff-quirk-' + fid, text.split('\n'), 'quirk', True, None, (fid, what)))
    N = 6000 if chk.thorough else 700
    for i in range(N):
        g = Gen(rng, rich=(i % 5 == 4)).build()
        kinds = set(g.kinds)
        cases.append(('ff-%d%s' % (i, 'r' if g.rich else ''), g.text(), g.expected(),
                      len(g.kinds) >= 2 and len(kinds) >= 2, None, g))
        if i % 2 == 0:
            fault = FAULTS[(i // 2) % len(FAULTS)]
            bad = inject(g, fault, rng)
            if bad is not None:
                cases.append(('ff-%d-fault-%s' % (i, fault), bad, None, True, fault, None))
            else:
                chk.count('fault_not_applicable_' + fault)
    lines = [line('ff', ls) for _, ls, *_ in cases]
    models = ask(lines)
    for (cid, ls, exp, nontriv, fault, extra), ln, mo in zip(cases, lines, models):
        ff, exc = load_ff(ls)
        errs = []
        if ff is None:
            im = 'error'
        else:
            got = dump_ff(ff)
            im = enc(got)
        if exp is None and fault == 'index_zero' and ff is not None and index_zero_signature(ls, ff):
            chk.count('fault_index_zero_ACCEPTED_known')
            chk.case(cid, ln, im, mo, ['atom index 0 of a block interaction was loaded as the last atom'], True,
                     finding='F-C13-4' if 'F-C13-4' in KNOWN_IDS else None)
            continue
        if exp is None:
            if ff is not None:
                errs.append('malformed input (%s) was loaded instead of rejected' % (fault or cid))
            chk.count('fault_%s_%s' % (fault or 'corpus', 'rejected' if ff is None else 'ACCEPTED'))
        elif exp == 'scan':
            if ff is None:
                errs.append('well-formed file rejected with %s' % exc)
            else:
                errs += check_once_in_order(ls, ff)
                if len(ff.links) != extra[0]:
                    errs.append('%d links loaded, %d declared' % (len(ff.links), extra[0]))
                # the corpus dumps were recorded without the atom columns / nrexcl of blocks
                if extra[1] is not None and [[b[:3] for b in got[0]], [l[:3] for l in got[1]], got[2]] != extra[1]:
                    errs.append('loaded %s, declared %s' % (clip(got, 400), clip(extra[1], 400)))
        elif exp == 'observation':
            chk.count('observation_' + ('rejected' if ff is None else 'loaded'))
        elif exp == 'quirk':
            fid, what = extra
            if fid in KNOWN_IDS and (fid != 'F-C13-4' or index_zero_signature(ls, ff)):
                chk.case(cid, ln, im, mo, [what], True, finding=fid)
                continue
            pending(fid, cid, what + ' -> ' + clip(im if ff is None else got, 300))
        else:
            if ff is None:
                errs.append('well-formed file rejected with %s' % exc)
            else:
                errs += oracle_ff(exp, got)
                errs += check_once_in_order(ls, ff)
                chk.count('ff_decls=%d' % min(len(extra.kinds), 7))
                chk.count('ff_links=%d' % min(len(extra.links), 4))
                if len(extra.blocks) < extra.kinds.count('block'):
                    chk.count('ff_block_redeclared')
        if isinstance(exp, list) and extra.rich:
            # rich files: features the Lean reader treats as opaque are still compared (they do not change the dump)
            chk.count('ff_rich')
        chk.case(cid, ln, im, mo, errs, nontriv)


# ----------------------------------------------------------------------------------------------
# 7. dispatcher alone: FFDirector with recording handlers vs the generic Lean dispatcher
# ----------------------------------------------------------------------------------------------
def run_ffdisp():
    """Drive the real FFDirector.parse_header / finalize_section / parse_section with the per-line parsers
    replaced by recorders, on arbitrary header/content sequences (including unknown and repeated sections)."""
    rng = chk.rng('ffdisp')

    class Body(list):
        pass

    class Rec:
        def __init__(self, idx):
            self.idx, self.body, self.name = idx, [], None
            self.citations = set()

        def make_edges_from_interactions(self):
            pass

        def __bool__(self):
            return False     # skips the nx.is_connected test on modifications

    class D(FFDirector):
        pass

    heads = ['moleculetype', 'link', 'modification', 'macros', 'variables', 'citations', 'atoms', 'bonds', 'angles',
             'edges', 'non-edges', '!bonds', 'pairs_nb', 'foo', 'patterns', 'features', 'info', 'molmeta', 'LINK']
    ff_keys = {tuple(p): (m, c) for p, m, c in TABLES['ff']}

    def route(path):
        m, c = ff_keys[path]
        if c == 'block':
            return 'block'
        if c in ('link', 'molmeta'):
            return 'link'
        if c == 'modification':
            return 'modification'
        if m in ('_macros', '_variables', '_pase_ff_citations'):
            return 'global'
        return {'moleculetype': 'block', 'link': 'link', 'modification': 'modification'}.get(path[0], 'global')

    def run_real(seq):
        ff = ForceField(name='verif')
        d = FFDirector(ff)
        counter = [0]
        d.header_actions = {
            ('moleculetype',): lambda: setattr(d, 'current_block', Rec(counter[0])),
            ('link',): lambda: (setattr(d, 'current_link', Rec(counter[0])), setattr(d, '_link_pending', True)),
            ('modification',): lambda: setattr(d, 'current_modification', Rec(counter[0])),
        }
        try:
            for i, (kind, text) in enumerate(seq):
                counter[0] = i
                if kind == 0:
                    d.parse_header('[ %s ]' % text, i + 1)
                else:
                    path = tuple(d.section)
                    if path not in d.METH_DICT:
                        raise IOError('unknown section')
                    r = route(path)
                    ctx = {'block': d.current_block, 'link': d.current_link, 'modification': d.current_modification,
                           'global': False}[r]
                    if ctx is None:
                        raise IOError('no context')
                    if ctx is not False:
                        ctx.body.append([list(path), text])
                        if not ctx.body[:-1]:
                            ctx.name = text
            d.finalize(len(seq))
        except IOError:
            return 'error'
        body = lambda c: [c.idx, c.body]
        return enc([[body(b) for b in ff.blocks.values()], [body(l) for l in ff.links],
                    [body(m) for m in ff.modifications.values()]])

    cases = []
    for _ in range(12000 if chk.thorough else 1500):
        seq = []
        for _ in range(rng.randint(0, 14)):
            if rng.random() < 0.55:
                seq.append((0, rng.choice(heads).casefold() if rng.random() < 0.9 else rng.choice(heads)))
            else:
                seq.append((1, rng.choice(['n1', 'n2', 'n3', 'x y'])))
        cases.append(seq)
    cases += [[(0, 'link'), (1, 'A'), (0, 'foo'), (0, 'link'), (1, 'B')],
              [(0, 'link'), (1, 'A'), (0, 'link'), (1, 'B'), (0, 'moleculetype'), (1, 'X'), (0, 'link'), (1, 'C')]]
    lines = [line('ffdisp', [[k, (t.casefold() if k == 0 else t)] for k, t in seq]) for seq in cases]
    models = ask(lines)
    for i, (seq, ln, mo) in enumerate(zip(cases, lines, models)):
        im = run_real(seq)
        errs = []
        nlink = sum(1 for k, t in seq if k == 0 and t.casefold() == 'link')
        if im != 'error':
            got = dec(im)[0]
            idxs = [l[0] for l in got[1]]
            want = [j for j, (k, t) in enumerate(seq) if k == 0 and t.casefold() == 'link']
            if idxs != want:
                errs.append('links emitted for headers %r, declared at %r' % (idxs, want))
            chk.count('ffdisp_ok')
        else:
            chk.count('ffdisp_error')
        kinds = {t.casefold() for k, t in seq if k == 0 and t.casefold() in ('link', 'moleculetype', 'modification')}
        chk.case('ffdisp-%d' % i, ln, im, mo, errs, len(kinds) >= 2 and nlink >= 1)


# ----------------------------------------------------------------------------------------------
# 7b. the base SectionLineParser (no finalize_section override) on a dispatch table of its own;
#     ITPDirector._split_atoms_and_parameters as a component; the guards that no file can reach
# ----------------------------------------------------------------------------------------------
def run_base_components():
    rng = chk.rng('base')
    seen = []

    class Bare(parser_utils.SectionLineParser):
        COMMENT_CHAR = ';'

        @parser_utils.SectionLineParser.section_parser('a')
        @parser_utils.SectionLineParser.section_parser('a', 'b')
        @parser_utils.SectionLineParser.section_parser('c')
        @parser_utils.SectionLineParser.section_parser('c', 'b', 'd')
        @parser_utils.SectionLineParser.section_parser('a', 'b', 'e')
        def _h(self, line, lineno=0):
            seen.append([list(self.section), line])

        def _macros(self, line, lineno=0):     # keep the table to the five paths above + macros
            seen.append([list(self.section), line])
    table = sorted(list(p) for p in Bare.METH_DICT)
    heads = ['a', 'b', 'c', 'd', 'e', 'x', 'macros']
    cases = []
    for _ in range(6000 if chk.thorough else 600):
        cases.append([(0, rng.choice(heads)) if rng.random() < 0.6 else (1, rng.choice(['t1', 't2'])) for _ in range(rng.randint(0, 10))])
    reqs = [line('basedisp', table, [[k, t] for k, t in seq]) for seq in cases]
    for i, (seq, ln, mo) in enumerate(zip(cases, reqs, ask(reqs))):
        del seen[:]
        try:
            list(Bare().parse(iter([('[ %s ]' % t) if k == 0 else t for k, t in seq])))
            im = 'ok ' + enc(seen)
        except (IOError, KeyError):
            im = 'error'
        errs = []
        if im != 'error' and [t for _, t in seen] != [t for k, t in seq if k == 1]:
            errs.append('content lines delivered %r, written %r' % (seen, seq))
        chk.count('basedisp_' + im.split()[0])
        chk.case('basedisp-%d' % i, ln, im, mo, errs, im != 'error' and len(seen) >= 2)
    # _split_atoms_and_parameters(tokens, atom_idxs) with indices, bounded / open slices and an entry that is neither
    d = ITPDirector(ForceField(name='verif'))
    cases = [(['1', '2', '3'], [[9]]), (['1', '2'], [[0, 0], [9]]), ([], [[2, 0]])]
    for _ in range(6000 if chk.thorough else 600):
        toks = [str(rng.randint(1, 9)) for _ in range(rng.randint(0, 7))]
        idxs, used = [], 0
        for _ in range(rng.randint(1, 3)):      # disjoint, increasing (as every entry of atom_idxs is)
            k = rng.random()
            if k < 0.55:
                idxs.append([0, used])
                used += 1
            elif k < 0.8:
                w = rng.randint(1, 3)
                idxs.append([1, used, used + w])
                used += w
            elif k < 0.93:
                idxs.append([2, used])
                break
            else:
                idxs.append([9])
        cases.append((toks, idxs))
    reqs = [line('itpsplit', t, ix) for t, ix in cases]
    for i, ((toks, ix), ln, mo) in enumerate(zip(cases, reqs, ask(reqs))):
        real = [e[1] if e[0] == 0 else slice(e[1], e[2]) if e[0] == 1 else slice(e[1], None) if e[0] == 2 else 'x' for e in ix]
        try:
            atoms, params = d._split_atoms_and_parameters(collections.deque(toks), real)
            im = 'ok %s %s' % (enc([a[0] for a in atoms]), enc(list(params)))
        except (IOError, IndexError):
            im = 'error'
        errs = []
        if any(e[0] == 9 for e in ix) and im != 'error' and not any(e[0] == 2 for e in ix[:[e[0] for e in ix].index(9)]):
            errs.append('an atom_idxs entry that is neither an index nor a slice was accepted')
        chk.count('itpsplit_' + im.split()[0])
        chk.case('itpsplit-%d' % i, ln, im, mo, errs, True)
    # guards no file can reach (table theorems delete_sections_only_in_links / itp_idx_kinds_known): the code
    # still has to raise when called that way
    for ctype, ctx in (('block', vermouth.molecule.Block()), ('modification', vermouth.molecule.Modification())):
        try:
            ffinput._base_parser(collections.deque(['A', 'B', '1']), ctx, context_type=ctype, section='bonds', natoms=2, delete=True)
            im = 'accepted'
        except IOError:
            im = 'error'
        chk.count('delete_outside_link_' + im)
        chk.case('delete-outside-link-' + ctype, '_base_parser(delete=True, context_type=%r)' % ctype, im, None,
                 [] if im == 'error' else ['removal of an interaction outside a link was accepted'], True)


# ----------------------------------------------------------------------------------------------
# 8. ITP files
# ----------------------------------------------------------------------------------------------
ITP_SECTIONS = ['bonds', 'angles', 'dihedrals', 'constraints', 'pairs', 'exclusions', 'virtual_sitesn',
                'position_restraints', 'virtual_sites2', 'settles', 'virtual_sites4']


def gen_itp(rng):
    lines, blocks = [], collections.OrderedDict()
    idx_table = dict(ITPDirector.atom_idxs)
    meta = None          # (condition, tag) in force
    if rng.random() < 0.2:
        lines.append('#define FLEXIBLE')
    for b in range(rng.randint(1, 4)):
        name = rng.choice(['MOL%d' % b, 'MOL%d' % b, 'PROT'])
        nrexcl = rng.randint(1, 3)
        lines += ['[ moleculetype ]', '%s %s' % (name, spell_int(rng, nrexcl).replace('\x0c', '')), '[ atoms ]']
        n = rng.randint(2, 6)
        acols = []
        for i in range(n):
            resid = rng.randint(1, 2)
            cols = [spell_int(rng, i + 1), 'P5', spell_int(rng, resid), name, rng.choice(['BB', 'SC1', 'SC2']), spell_int(rng, i + 1)]
            acols.append([repr_j('P5'), repr_j(name), repr_j(resid), repr_j(i + 1)])
            if rng.random() < 0.6:
                cols.append('0.0')
            lines.append(' '.join(cols) + rng.choice(['', ' ; c']))
        inters = []
        for _ in range(rng.randint(0, 4)):
            sect = rng.choice(ITP_SECTIONS)
            lines.append('[ %s ]' % sect)
            for _ in range(rng.randint(1, 3)):
                k = rng.random()
                if meta is None and k < 0.2:
                    cond = rng.choice(['ifdef', 'ifndef'])
                    meta = (cond, rng.choice(['FLEXIBLE', 'POSRES']))
                    lines.append('#%s %s' % meta)
                elif meta is not None and k < 0.25:
                    meta = ({'ifdef': 'ifndef', 'ifndef': 'ifdef'}[meta[0]], meta[1])
                    lines.append(rng.choice(['#else', '#else ; other branch']))
                elif meta is not None and k < 0.55:
                    meta = None
                    lines.append('#endif')
                idxs = idx_table[sect]
                if sect == 'exclusions':
                    toks = [str(rng.randint(1, n)) for _ in range(rng.randint(1, 4))]
                    atoms, params = list(toks), []
                elif sect == 'virtual_sitesn':
                    toks = [str(rng.randint(1, n)), '1'] + [str(rng.randint(1, n)) for _ in range(rng.randint(1, 3))]
                    atoms, params = [toks[0]] + toks[2:], ['1']
                else:
                    k = 5 if sect == 'virtual_sites4' else len(idxs)
                    atoms = [str(rng.randint(1, n)) for _ in range(k)]
                    params = [rng.choice(['1', '0.25', '1000']) for _ in range(rng.randint(0, 3))]
                    toks = atoms + params
                lines.append(' '.join(toks))
                inters.append([sect, [str(int(a) - 1) for a in atoms], params, list(meta) if meta else []])
        blocks[name] = [name, [str(i) for i in range(n)], sorted(inters, key=lambda x: x[0]), acols, nrexcl]
    if meta is not None:
        lines.append('#endif')
    return lines, list(blocks.values())


def canon_inters_meta(idict):
    out = []
    for sect in sorted(idict):
        for it in idict[sect]:
            m = [[k, v] for k, v in it.meta.items()]
            out.append([sect, [str(a) for a in it.atoms], [canon_param(p) for p in it.parameters],
                        list(m[0]) if m else []])
    return out


def run_itp():
    rng = chk.rng('itp')
    cases = []
    for i in range(3000 if chk.thorough else 400):
        ls, exp = gen_itp(rng)
        cases.append(('itp-%d' % i, ls, exp))
        if i % 3 == 0:
            # faults: reference beyond the atoms / index 0 / duplicate atom index / unknown section
            bad = list(ls)
            k = rng.random()
            if k < 0.3:
                bad.insert(rng.randint(0, len(bad)), '[ foo ]')
                bad.insert(bad.index('[ foo ]') + 1, '1 2 1')
            elif k < 0.6:
                j = [q for q, t in enumerate(bad) if t.startswith('[ atoms ]')][0]
                bad.insert(j + 2, bad[j + 1])
            elif k < 0.7:
                refs = ['0 1 1', '1 99 1', 'BB 1 1', '+1 2 1', '1_0 1 1', '00 1 1', '-1 1 1', '1 +BB 1']
                bad += ['[ bonds ]', refs[(i // 3) % len(refs)]]
                chk.count('itp_fault_reference')
            elif k < 0.87:
                # too few tokens for the arity of a fixed-arity section, in the first or in a later moleculetype
                short = rng.choice([('bonds', '1'), ('angles', '1 2'), ('dihedrals', '1 2 1'), ('constraints', '2'),
                                    ('pairs', '1'), ('virtual_sites2', '1 2'), ('virtual_sites3', '1 2 1'),
                                    ('angles', '2'), ('distance_restraints', '1'), ('orientation_restraints', '2'),
                                    ('dihedral_restraints', '1 2 1'), ('angle_restraints', '1 2'),
                                    ('virtual_sites4', '1 2 1 2'), ('dihedral_restraints', '2')])
                clean = [t for t in bad if not t.startswith('#')]
                mts = [q for q, t in enumerate(clean) if t == '[ moleculetype ]']
                which = rng.randrange(len(mts))
                end = mts[which + 1] if which + 1 < len(mts) else len(clean)
                bad = clean[:end] + ['[ %s ]' % short[0], short[1]] + clean[end:]
                chk.count('itp_fault_arity_block%d' % min(which, 2))
            else:
                # pragma faults: #endif without #ifdef, nested / unclosed #ifdef, #else alone, unknown pragma
                clean = [t for t in bad if not t.startswith('#')]
                pr = rng.choice([['#endif'], ['#ifdef A', '#ifdef B', '#endif', '#endif'], ['#ifdef A'], ['#else'],
                                 ['#include "x.itp"'], ['#if A', '#endif'], ['#ifdef', '#endif'],
                                 ['#ifdefX A', '#else', '#endif']])
                j = rng.randint(0, len(clean))
                bad = clean[:j] + pr[:1] + clean[j:] + pr[1:]
            cases.append(('itp-%d-fault' % i, bad, None))
    # F-C13-10 (fixed): sections whose atoms are given by a bounded slice must be filled completely
    cases.append(('itp-corpus-fixed-f-c13-10', ['[ moleculetype ]', 'M 1', '[ atoms ]', '1 P 1 M A 1', '2 P 1 M B 2',
                                                '[ dihedral_restraints ]', '1 2 1'], None))
    lines = [line('itp', ls) for _, ls, _ in cases]
    for (cid, ls, exp), ln, mo in zip(cases, lines, ask(lines)):
        ff = ForceField(name='verif')
        errs = []
        try:
            read_itp(ls, ff)
            got = [[k, [str(n) for n in b.nodes], canon_inters_meta(b.interactions), atom_cols(b), b.nrexcl]
                   for k, b in ff.blocks.items()]
            im = enc(got)
        except Exception as e:
            got, im = None, 'error'
        if False:
            pass
        elif exp is None:
            if got is not None:
                errs.append('malformed .itp loaded instead of rejected')
            chk.count('itp_fault_' + ('rejected' if got is None else 'ACCEPTED'))
        elif got is None:
            errs.append('well-formed .itp rejected')
        elif got != exp:
            errs.append('.itp blocks loaded %s, declared %s' % (clip(got, 300), clip(exp, 300)))
        chk.case(cid, ln, im, mo, errs, exp is None or len(exp) >= 2)


# ----------------------------------------------------------------------------------------------
# 9. .map (read_backmapping_file) and .mapping (read_mapping_file): oracle, dispatcher of .mapping vs model
# ----------------------------------------------------------------------------------------------
def toy_force_fields(rng):
    ffs = {}
    atoms = {'aa': ['N', 'CA', 'C', 'O', 'CB', 'CG'], 'cg': ['BB', 'SC1', 'SC2']}
    for ffname, names in atoms.items():
        text = []
        for res in ['ALA', 'GLY', 'LYS']:
            text += ['[ moleculetype ]', '%s 1' % res, '[ atoms ]']
            for i, a in enumerate(names):
                text.append('%d T 1 %s %s %d 0' % (i + 1, res, a, i + 1))
        ff = ForceField(name=ffname)
        read_ff(text, ff)
        ffs[ffname] = ff
    return ffs, atoms


def backmap_library(ffs):
    return [[name, [[bn, [[str(k), b.nodes[k]['atomname']] for k in b.nodes]] for bn, b in ff.blocks.items()
                    if all('atomname' in b.nodes[k] for k in b.nodes)]]
            for name, ff in ffs.items()]


def backmap_impl(lines, ffs):
    """canonical string of what read_backmapping_file loaded: one row per (from_ff, to_ff, name) in
    dictionary order with the (from index, to index, weight) entries and the extra atoms"""
    try:
        out = map_input.read_backmapping_file(lines, ffs)
    except Exception:
        return None, 'error'
    rows = []
    for f, d in out.items():
        for t, d2 in d.items():
            for name, m in d2.items():
                es = []
                for i, dd in m.mapping.items():
                    for j, w in dd.items():
                        fr = Fraction(w).limit_denominator(10 ** 6)
                        es.append(enc([str(i), str(j), fr.numerator, fr.denominator]))
                rows.append('[ %s %s %s %s %s ]' % (enc(f), enc(t), enc(name),
                                                    '[ ' + ' '.join(sorted(es)) + ' ]' if es else '[ ]',
                                                    enc(list(m.block_to.extra))))
    return out, 'ok ' + ('[ ' + ' '.join(rows) + ' ]' if rows else '[ ]')


def run_maps():
    rng = chk.rng('maps')
    ffs, atoms = toy_force_fields(rng)
    lib = backmap_library(ffs)
    cases = []
    for i in range(3000 if chk.thorough else 300):
        # ---- backward style .map ----
        lines, decl, ffdecl = [], collections.OrderedDict(), {}
        fault = rng.random() < 0.2
        simple = rng.random() < 0.6        # simple files have an independent expectation
        for res in rng.sample(['ALA', 'GLY', 'LYS'] + ([] if simple else ['UNK']), rng.randint(1, 3)):
            lines += [rng.choice(['[ molecule ]', '[molecule]', '[ molecule ] ; c']), res]
            froms, tos_ff = [], []
            if simple:
                lines += ['[ from ]', 'aa', '[ to ]', 'cg']
                froms, tos_ff = ['aa'], ['cg']
            else:
                k = rng.random()
                if k < 0.5:
                    v = rng.choice(['aa', 'aa other', 'aa cg'])
                    lines += [rng.choice(['[ from ]', '[ mapping ]']), v]
                    froms = v.split()
                if rng.random() < 0.6:
                    v = rng.choice(['cg', 'cg aa', 'nope'])
                    lines += ['[ to ]', v]
                    tos_ff = v.split()
                if rng.random() < 0.3:
                    lines += ['[ martini ]', 'BB SC1', '[ extra ]', 'X1 X2']
            ffdecl[res] = (froms or ['universal'], tos_ff or ['martini22'])
            lines.append('[ atoms ]')
            m = collections.OrderedDict()
            pool = atoms['aa'] if simple else atoms['aa'] + ['QQ']
            for k, a in enumerate(rng.sample(pool, rng.randint(1, 6))):
                tos = [('!' if rng.random() < 0.2 else '') + rng.choice(atoms['cg']) for _ in range(rng.randint(0, 4))]
                m[a] = tos
                lines.append('%d %s %s%s' % (k + 1, a, ' '.join(tos), rng.choice(['', ' ; c'])))
                if rng.random() < 0.15:
                    lines.append(rng.choice(['', '   ', '; only a comment', '\t']))     # skipped lines
            if not simple and rng.random() < 0.2:
                lines += ['[ chiral ]', 'CB CA N C']
            decl[res] = m
        conflict = any(('!' + t) in tos for m in decl.values() for tos in m.values() for t in tos)
        if fault:
            k = rng.random()
            if k < 0.5:
                lines.insert(rng.randint(0, len(lines)), rng.choice(['[ molecule', '[ molecule ]']))
            elif k < 0.7:
                j = [q for q, t in enumerate(lines) if t == '[ atoms ]']
                lines.insert(rng.choice(j) + 1, '1 N ZZ')         # target atom that the block does not have
            elif k < 0.85:
                j = [q for q, t in enumerate(lines) if t == '[ atoms ]']
                lines.insert(rng.choice(j) + 1, '7')              # atom line without a source atom
            else:
                lines = [t for t in lines if 'molecule' not in t]
        cases.append((lines, decl, fault, simple, conflict, ffdecl))
    plines = [line('backmap', lib, ls) for ls, *_ in cases]
    for i, ((lines, decl, fault, simple, conflict, ffdecl), ln, mo) in enumerate(zip(cases, plines, ask(plines))):
        errs = []
        out, im = backmap_impl(lines, ffs)
        if not fault and not conflict and out is not None:
            # every molecule is loaded for exactly the declared (origin, destination) force-field pairs
            want3 = {(f, t, res) for res, (fl, tl) in ffdecl.items() for f in fl for t in tl
                     if f in ffs and t in ffs and res in ffs[f].blocks and res in ffs[t].blocks}
            have3 = {(f, t, n) for f, d in out.items() for t, d2 in d.items() for n in d2}
            if want3 != have3:
                errs.append('.map loaded for %r, declared for %r' % (sorted(have3), sorted(want3)))
        if not fault and simple:
            if conflict:
                if out is not None:
                    errs.append('.map with a target both with and without "!" was loaded')
            elif out is None:
                errs.append('well-formed .map rejected')
            else:
                got = out.get('aa', {}).get('cg', {})
                if list(got) != list(decl):
                    errs.append('.map molecules loaded %r, declared %r' % (list(got), list(decl)))
                for res, m in decl.items():
                    if res not in got:
                        continue
                    mp = got[res].mapping
                    n2i_from = {ffs['aa'].blocks[res].nodes[n]['atomname']: n for n in ffs['aa'].blocks[res].nodes}
                    n2i_to = {ffs['cg'].blocks[res].nodes[n]['atomname']: n for n in ffs['cg'].blocks[res].nodes}
                    want = {}
                    for a, tos in m.items():
                        nn = [t for t in tos if not t.startswith('!')]
                        for t in tos:
                            w = Fraction(0) if t.startswith('!') else Fraction(nn.count(t), len(nn))
                            want[(n2i_from[a], n2i_to[t.lstrip('!')])] = w
                    have = {(f, t): Fraction(w).limit_denominator(10 ** 6) for f, d in mp.items() for t, w in d.items()}
                    if have != want:
                        errs.append('.map weights of %s: loaded %r, declared %r' % (res, have, want))
        elif fault and simple and out is not None and any(t == '1 N ZZ' for t in lines):
            errs.append('.map naming a target atom the block does not have was loaded')
        chk.count('map_' + im.split()[0] + ('_fault' if fault else '') + ('' if simple else '_rich'))
        chk.case('map-%d' % i, ln, im, mo, errs, len(decl) >= 2 or fault)
    # ---- new style .mapping files through read_mapping_file (oracle only) ----
    for i in range(2000 if chk.thorough else 250):
        lines, decl = [], collections.OrderedDict()
        fault = rng.random() < 0.15
        for res in [rng.choice(['ALA', 'GLY', 'LYS']) for _ in range(rng.randint(1, 4))]:
            lines.append(rng.choice(['[ block ]', '[block]', '[ block ] ; c']))
            parts = [['[ from ]', 'aa'], ['[ to ]', 'cg']]
            rng.shuffle(parts)
            for p in parts:
                lines += p
            parts = [['[ from blocks ]', res], ['[ to blocks ]', res]]
            rng.shuffle(parts)
            for p in parts:
                lines += p
            lines.append('[ mapping ]')
            m = {}
            for _ in range(rng.randint(1, 5)):
                a, b = rng.choice(atoms['aa']), rng.choice(atoms['cg'])
                w = rng.choice([None, None, 0, 1, 2, 3])
                lines.append('%s %s%s' % (rng.choice([a, res + ':' + a]), b, '' if w is None else ' %d' % w))
                m.setdefault(atoms['aa'].index(a), {})[atoms['cg'].index(b)] = 1 if w is None else w
            decl[(res,)] = m
        if fault:
            k = rng.random()
            if k < 0.4:
                lines.insert(rng.randint(1, len(lines)), '[ molecule ]')
                lines.insert(lines.index('[ molecule ]') + 1, 'ALA')
            elif k < 0.7:
                lines.append('QQ BB')          # undefined atom in the mapping section
            else:
                lines.insert(rng.randint(0, len(lines)), '[ block')
        errs = []
        try:
            out = map_input.read_mapping_file(lines, ffs)
            im = 'ok'
        except Exception as e:
            out, im = None, 'error'
        if fault:
            if out is not None:
                errs.append('malformed .mapping loaded instead of rejected')
        elif out is None:
            errs.append('well-formed .mapping rejected')
        else:
            got = out.get('aa', {}).get('cg', {})
            have = [[list(k), {f: dict(t) for f, t in v.mapping.items()}] for k, v in got.items()]
            want = [[list(k), v] for k, v in decl.items()]
            if have != want:
                errs.append('.mapping loaded %r, declared (in order, last wins) %r' % (have, want))
        chk.count('mapping_' + im + ('_fault' if fault else ''))
        chk.case('mapping-%d' % i, enc(lines), im, None, errs, len(decl) >= 2 or fault)
    # ---- new style .mapping: real MappingDirector section machine with a recording builder vs the model ----
    class Builder:
        def __init__(self):
            self.reset()

        def reset(self):
            self.rec = []

        def to_ff(self, l):
            self.rec.append(l)

        def from_ff(self, l):
            self.rec.append(l)

        def get_mapping(self, type):
            return list(self.rec)

    heads = ['block', 'modification', 'to', 'from', 'foo', 'block', 'to']
    cases = []
    for _ in range(6000 if chk.thorough else 800):
        seq = []
        for _ in range(rng.randint(0, 12)):
            if rng.random() < 0.55:
                seq.append((0, rng.choice(heads)))
            else:
                seq.append((1, rng.choice(['ffa', 'ffb'])))
        cases.append(seq)
    lines = [line('mapdisp', [[k, t] for k, t in seq]) for seq in cases]
    for i, (seq, ln, mo) in enumerate(zip(cases, lines, ask(lines))):
        d = map_parser.MappingDirector({}, builder=Builder())
        text = [('[ %s ]' % t) if k == 0 else t for k, t in seq]
        ok_sections = {('block', 'to'), ('block', 'from'), ('modification', 'to'), ('modification', 'from')}
        # only `to`/`from` content is routed to the recording builder; other known sections would need real blocks
        skip = False
        try:
            sec = []
            out = list(d.parse(iter(text)))
            im = 'ok %d' % len(out)
        except (IOError, KeyError) as e:
            im = 'error'
        except Exception as e:
            skip = True
        if skip:
            chk.count('mapdisp_skipped')
            continue
        if mo is not None and mo != 'error':
            mo = 'ok %d' % len(dec(mo)[0])
        chk.count('mapdisp_' + im.split()[0])
        chk.case('mapdisp-%d' % i, ln, im, mo, [], im != 'error' and int(im.split()[1]) >= 2)


# ----------------------------------------------------------------------------------------------
# 10. shipped force fields and mappings (thorough): declared-once-in-order against a scan of the text
# ----------------------------------------------------------------------------------------------
def run_shipped():
    data = os.path.join(REPO, 'vermouth', 'data')
    files = sorted(glob.glob(os.path.join(data, 'force_fields', '*', '*.ff')))
    lines_p, meta = [], []
    for path in files:
        ls = open(path).read().split('\n')
        ff, exc = load_ff(ls)
        errs = []
        if ff is None:
            errs.append('shipped file %s rejected (%s)' % (path, exc))
            im = 'error'
        else:
            errs += check_once_in_order(ls, ff)
            im = enc(dump_ff(ff))
        lines_p.append(line('ff', ls))
        meta.append((path, im, errs))
    for (path, im, errs), mo in zip(meta, ask(lines_p)):
        rel = os.path.relpath(path, data)
        chk.count('shipped_ff')
        chk.case('shipped-' + rel, 'ff-file ' + rel, im, mo, errs, True)
    # mappings: every [ molecule ] of a .map file and every [ block ]/[ modification ] of a .mapping yields one entry
    import vermouth.forcefield as vff
    known = vff.find_force_fields(os.path.join(data, 'force_fields'))
    mfiles = sorted(glob.glob(os.path.join(data, 'mappings', '**', '*.map'), recursive=True))
    mlines, mmeta = [], []
    for path in mfiles:
        ls = open(path).read().split('\n')
        words = {t.split(';')[0].strip() for t in ls}
        # only the blocks a molecule of this file can name are sent to the model
        lib = [[name, [[bn, [[str(k), b.nodes[k]['atomname']] for k in b.nodes]] for bn, b in ff.blocks.items()
                       if bn in words and all('atomname' in b.nodes[k] for k in b.nodes)]]
               for name, ff in known.items()]
        mlines.append(line('backmap', lib, ls))
        mmeta.append((path, ls))
    for (path, ls), mo in zip(mmeta, ask(mlines)):
        errs = []
        out, im = backmap_impl(ls, known)
        if out is None:
            errs.append('shipped mapping %s rejected' % path)
        nmol = sum(1 for t in ls if t.split(';')[0].strip().replace(' ', '') == '[molecule]')
        if out is not None:
            names = {n for a in out.values() for b in a.values() for n in b}
            if nmol and len(names) > nmol:
                errs.append('%s: %d molecules declared, %d names loaded' % (path, nmol, len(names)))
        chk.count('shipped_map')
        rel = os.path.relpath(path, data)
        chk.case('shipped-' + rel, 'map-file ' + rel, im, mo, errs, True)
    for path in sorted(glob.glob(os.path.join(data, 'mappings', '**', '*.mapping'), recursive=True)):
        ls = open(path).read().split('\n')
        errs = []
        ndecl = sum(1 for t in ls if t.split(';')[0].strip().replace(' ', '').casefold() in ('[block]', '[modification]'))
        try:
            out = list(map_parser.MappingDirector(known).parse(iter(ls)))
            if len(out) != ndecl:
                errs.append('%s: %d mappings declared, %d loaded' % (path, ndecl, len(out)))
        except Exception as e:
            errs.append('shipped mapping %s rejected: %r' % (path, e))
        chk.count('shipped_mapping')
        chk.case('shipped-' + os.path.relpath(path, data), 'mapping-file ' + os.path.relpath(path, data), 'ok', None, errs, True)


run_tokenizer()
run_prefix()
run_atoms()
run_weights()
run_subst()
run_pyint()
run_ffdisp()
run_base_components()
run_ff()
run_itp()
run_maps()
c13_mapping.run_mapping(chk, ask)
_t = time.time()
c13_dir.run_ffdir(chk, ask, Gen, inject, FAULTS, dump_ff, load_ff, repr_j, pending)
chk.extra['ffdir_wall_s'] = round(time.time() - _t, 2)
_t = time.time()
c13_dir.run_mapdir(chk, ask, backmap_library)
chk.extra['mapdir_wall_s'] = round(time.time() - _t, 2)
if chk.thorough:
    run_shipped()
    c13_dir.run_shipped_dirs(chk, ask, dump_ff, repr_j, backmap_library)
chk.extra['pending_findings'] = PENDING
if PENDING:
    chk.notes.append('genuine defects observed and reported, not in known_findings.json (model transcribes them, '
                     'oracle not applied): ' + ', '.join(sorted(PENDING)))
chk.finish()
