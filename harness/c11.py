#!/venv/bin/python
"""C11 - the topology depends on the chemistry of the input, not on its presentation  (PARTIAL, level `other`).

What is PROVED (Lean, lean/VermouthProps/C11.lean): the comparator `canonTop` used below is invariant under
presentation changes and injective modulo them; squared distances are invariant under the exact rigid motions used
here; the stage models of C08/C09/C10/C15/C18 are invariant under those motions / under reordering.
What is EXPLORED (this file): the composed pipeline `bin/martinize2` as executed, by PAIRED RUNS on real structures:
the original presentation of an input against
   perm   : atoms listed in another order inside every residue,
   hren   : chemically equivalent hydrogens exchange names (HB2<->HB3, H1/H2/H3 rotated, HH11<->HH12 ...),
   hname  : amide hydrogens renamed to a name the reference block does not know (H -> HN),
   rot90  : an exact rotation by multiples of 90 degrees + a translation on the 0.001 A grid (computed by the Lean
            model `C11.move` on integers, so the moved file is EXACTLY a rigid image),
   rotgen : a generic rotation + translation (coordinates re-rounded to 0.001 A),
   all    : perm + hren + rot90 together,
   hash   : the same file, martinize2 started as a subprocess under fixed PYTHONHASHSEED values,
   structure `mc:<a>+<b>+...:<ids>`: a structure of SEVERAL CHAINS (tier-0 peptides placed side by side, chain ids as
            given, e.g. A,B,C or q,7,Z), converted with -merge all / -merge <two ids> / -sep / -elastic -eunit all
            -cys auto under >= 4 hash seeds that are CHOSEN so that the set of the chain ids is iterated in different
            orders (measured in subprocesses, reported in the evidence under hash_seed_choice),
   permrev / permh : every residue listed backwards / hydrogens first, heavy atoms shuffled (further order patterns;
            `perm#2`, `perm#3` ... are further independent random permutations),
   hv2    : hydrogens named in the PDB v2 style (digit first: HB2 -> 2HB, HD11 -> 1HD1, H1 -> 1H),
   hter   : hydrogens of the first residue of every chain H1/H2/H3 -> HT1/HT2/HT3 (CHARMM style),
   origin : a pure translation that puts one heavy atom exactly on (0, 0, 0)
   rotfar : rot90 with a translation after which the coordinates use all eight columns of their fields on every axis
            (up to 9995.xxx, down to -995.xxx, or lying across 1000.000 / -100.000),
   structure `<name>@alt`: the structure with alternate-location records (A and, displaced, B) for a few atoms; the
            order patterns then also decide whether B is listed before A,
   crlf   : the same file with CR LF line ends (parsing is presentation too),
   all2   : permrev + hv2 + rotfar + CR LF line ends with every line padded with blanks to 96 columns, together.
Every written ITP is parsed, canonicalised by the Lean function `canonTop` (driver op `canon`) and the canonical
strings are compared; coordinates are compared modulo the motion.
"""
import concurrent.futures
import io
import logging
import math
import multiprocessing
import runpy
import shutil
import tempfile
from common import *

chk = Check('C11', level='other')
chk.extra['rule'] = (
    'one case = one written ITP (or the .top / the coordinate file) of a paired run: martinize2 on a transformed '
    'presentation of a test structure compared with the run on the original presentation under the same options; '
    'a case is non-trivial if the two input files differ in their text (all transformations except the hash-seed '
    'runs); distinct = distinct (structure, option set, transformation, output file)')
chk.extra['explanation'] = (
    'stage invariance proved on models; composition and runtime order-dependence by paired runs only. '
    'PROVED in Lean (VermouthProps/C11.lean, C11_Stages.lean, C11_StagesC01.lean), each on the model named: sqdist_isometry '
    '(squared distances invariant under x -> A x + t, A integer with A^T A = I); bond guessing C10.run: same bond SET for '
    'every permutation of the atom list, complete result unchanged by a rigid motion; repair_graph C04.repairResidue: a '
    'residue that is its block under any renaming / order / keys gets exactly the block\'s names, elements and bonds, two '
    'such presentations agree; do_mapping C01.assemble: atom keys are read only through equality and the order of the lowest '
    'keys of the matches (invariant under every renumbering keeping both; witness that exchanging two residues\' keys '
    'exchanges the blocks); Go model C18: invariant under isometries, equivariant under renumberings increasing on the keys '
    'that occur (witness for a non-monotone one); bead placement C09 then elastic network C15 under a rigid motion (composed on '
    'lattice-valued bead positions; generic lemmas comp_invariant / comp_equivariant); order-independence of the elastic '
    'network (C15) and of the warning accounting (C08); the comparator canonTop is invariant under reordering of atom lines, '
    'consistent renumbering of atom indices, reordering of interaction lines and reversal of reversible interactions '
    '(canonTop_invariant) and identifies nothing else (canonTop_injective_mod_presentation, interRec_faithful). '
    'EXPLORED only: that the real pipeline as executed by CPython (stages without a model, dict/set iteration order, '
    'PYTHONHASHSEED, float round-off, KD-tree and VF2 tie-breaking, the composition of ALL stages) produces the same canonical '
    'topology for the pairs of presentations that were actually run; the evidence counts those pairs and lists every class of '
    'admitted difference with its count, largest deviation and bound (admitted_differences). No statement is made about '
    'inputs, options or hash seeds that were not run.')
chk.lean(['VermouthProps.C11', 'VermouthProps.C11_Stages', 'VermouthProps.C11_StagesC01'], 'driver_c11')
chk.trusted += [
    'harness/c11.py: PDB reader/writer and the four input transformations, the ITP tokenizer (section -> number of '
    'atom columns), the comparison of coordinates modulo the motion, the admission rule for near-threshold pairs',
    'the comparison is only as wide as the run matrix (counts in the evidence); floating point is outside every model',
]
chk.assumptions += [
    'identity of a particle inside a molecule type = (residue number, atom name) as written in the ITP; the '
    'charge-group column is presentation; comments are ignored except the group label preceding interaction lines',
    'reversible sections: bonds, constraints, pairs, angles, dihedrals (energy invariant under complete reversal)',
    'exact transformations (everything but rotgen): the two inputs are exactly the same structure; bead coordinates and '
    'short prints may differ by ONE unit of the last printed place, full-precision prints by 1e-10 relative (float '
    'round-off in another summation order / frame), nothing else',
    'rotgen: the moved file is a rigid image only up to 0.0005 A per coordinate, so equilibrium lengths and angles are '
    'compared with the propagated bound (2e-4 nm; 2e-4 + 1e-3 |v| degrees + dihedral conditioning), bead coordinates with '
    '2.25e-3 A; every other token as in an exact transformation',
    'an elastic bond present in one run only is admitted iff BOTH runs place its two beads within the margin of the same '
    'cut-off (margin = 1e-6 nm + resolution of the written coordinates)',
    'multi-chain structures (mc:...): hash seeds are selected by the iteration order of the set of the chain-id strings '
    'only; sets of other objects are exercised by whatever those seeds happen to do to them',
    'the order of chains / residues in the file is NOT varied: it is not presentation (C11.mapping_nonmonotone_changes_'
    'block_order); CR LF line ends and trailing blanks are treated as presentation',
]

# the numerical libraries start one thread per core in every one of the ~100 runs of martinize2, which only makes the
# runs slower on a busy machine (the arrays are small): one thread per run
ONE_THREAD = {'OMP_NUM_THREADS': '1', 'OPENBLAS_NUM_THREADS': '1', 'MKL_NUM_THREADS': '1'}
if 'numpy' not in sys.modules:
    for _k, _v in ONE_THREAD.items():
        os.environ.setdefault(_k, _v)
M2PATH = os.path.join(REPO, 'bin', 'martinize2')
TDATA = os.path.join(REPO, 'vermouth', 'tests', 'data', 'integration_tests')
SCRATCH = tempfile.mkdtemp(prefix='c11_')
SYM = ['bonds', 'constraints', 'pairs', 'angles', 'dihedrals']
# coordinates of the written beads (A, three decimals).  Exact transformations (the two inputs are EXACTLY the same
# structure): a bead is a weighted mean evaluated in floating point in another order / another frame, so the printed
# value may differ by one unit of the last printed place when it sits on a rounding boundary, not more.
# Generic rotation: the input was re-rounded to 0.001 A (<= 0.87e-3 A per atom, hence per bead), the original output
# is rounded before it is moved (<= 0.87e-3 A per component after rotation) and the other output is rounded (0.5e-3).
COORD_TOL_EXACT = 0.00101
COORD_TOL_GENERIC = 0.00225
MARGIN_EXACT = 1e-6 + 2e-4  # nm: 1e-6 + the resolution of the written CG coordinates (0.001 A per coordinate)
MARGIN_GENERIC = 1e-6 + 5e-4
NWORKERS = int(os.environ.get('VERIF_C11_WORKERS', '10'))
NTHREADS = int(os.environ.get('VERIF_C11_SUBPROCS', '6'))
# one run of martinize2 on these inputs takes 5-60 s (loaded machine); a run that takes longer than this is reported as
# 'does not finish' (exit status `timeout`) - a presentation that sends a graph search into its exponential regime is a
# difference too, and must end in a verdict rather than in the budget alarm of the whole check
RUN_TIMEOUT = int(os.environ.get('VERIF_C11_RUN_TIMEOUT', '600' if chk.thorough else '240'))

# ----------------------------------------------------------------------------------------------
# admitted differences: every one carries its reason; the evidence reports count, largest deviation and bound per class
# ----------------------------------------------------------------------------------------------
ADMITTED = {}


def admit(cls, deviation, bound, unit, rule, detail):
    """register one admitted difference: `deviation` <= `bound` has been checked by the caller (asserted here)"""
    if not deviation <= bound:
        raise AssertionError('admitted difference outside its bound: %s %r > %r %s' % (cls, deviation, bound, detail))
    a = ADMITTED.setdefault(cls, {'count': 0, 'max_deviation': -1.0, 'bound_at_max': None, 'unit': unit, 'rule': rule,
                                  'largest': None})
    a['count'] += 1
    chk.count('admitted:' + cls)
    if deviation > a['max_deviation']:
        a['max_deviation'], a['bound_at_max'], a['largest'] = deviation, bound, detail


# ----------------------------------------------------------------------------------------------
# PDB text <-> records
# ----------------------------------------------------------------------------------------------


def parse_pdb(text):
    """-> list of records; atoms are dicts with the raw column fields, coordinates as integers in 0.001 A.
    CONECT records are dropped (the inputs are compared CONECT-free in every presentation), MODEL/ENDMDL, TER, END
    and CRYST1 are kept in place."""
    recs = []
    for ln in text.split('\n'):
        tag = ln[:6]
        if tag in ('ATOM  ', 'HETATM'):
            ln = ln.ljust(80)
            recs.append({'tag': tag, 'name': ln[12:16], 'alt': ln[16], 'resname': ln[17:21], 'chain': ln[21],
                         'resseq': ln[22:26], 'icode': ln[26], 'pad': ln[27:30],
                         'xyz': [to_milli(ln[30:38]), to_milli(ln[38:46]), to_milli(ln[46:54])],
                         'rest': ln[54:].rstrip()})
        elif tag.startswith('CONECT') or tag.startswith('MASTER'):
            continue
        elif tag.startswith('TER'):
            recs.append('TER')
        elif ln.strip():
            recs.append(ln)
    return recs


def to_milli(s):
    s = s.strip()
    neg = s.startswith('-')
    if s[:1] in '+-':
        s = s[1:]
    a, _, b = s.partition('.')
    v = int(a or '0') * 1000 + int((b + '000')[:3])
    return -v if neg else v


def fmt_milli(v):
    s = '%s%d.%03d' % ('-' if v < 0 else '', abs(v) // 1000, abs(v) % 1000)
    if len(s) > 8:
        raise ValueError('coordinate does not fit the PDB column: ' + s)
    return s.rjust(8)


def write_pdb(recs):
    out, serial = [], 0
    for r in recs:
        if isinstance(r, dict):
            serial += 1
            out.append('%s%5d %s%s%s%s%s%s%s%s%s%s%s' % (
                r['tag'], serial % 100000, r['name'], r['alt'], r['resname'], r['chain'], r['resseq'], r['icode'],
                r['pad'], fmt_milli(r['xyz'][0]), fmt_milli(r['xyz'][1]), fmt_milli(r['xyz'][2]), r['rest']))
        else:
            out.append(r)
    return '\n'.join(out) + '\n'


def residues_of(recs):
    """lists of record indices, one per run of consecutive atoms with the same residue key"""
    groups, last = [], None
    for i, r in enumerate(recs):
        if not isinstance(r, dict):
            last = None
            continue
        k = (r['chain'], r['resseq'], r['icode'], r['resname'])
        if k != last:
            groups.append([])
            last = k
        groups[-1].append(i)
    return groups


def is_h(r):
    el = r['rest'][22:24].strip() if len(r['rest']) >= 24 else ''
    if el:
        return el.upper() == 'H'
    n = r['name'].strip()
    return n[:1] == 'H' or (n[:1].isdigit() and n[1:2] == 'H')


# ----------------------------------------------------------------------------------------------
# the transformations
# ----------------------------------------------------------------------------------------------

def t_perm(recs, rng):
    recs = [dict(r) if isinstance(r, dict) else r for r in recs]
    for g in residues_of(recs):
        atoms = [recs[i] for i in g]
        rng.shuffle(atoms)
        for i, a in zip(g, atoms):
            recs[i] = a
    return recs


def t_permrev(recs):
    """every residue listed backwards (hydrogens before the heavy atoms they are bound to)"""
    recs = [dict(r) if isinstance(r, dict) else r for r in recs]
    for g in residues_of(recs):
        atoms = [recs[i] for i in g][::-1]
        for i, a in zip(g, atoms):
            recs[i] = a
    return recs


def t_permh(recs, rng):
    """hydrogens first (in their order), then the heavy atoms in a random order"""
    recs = [dict(r) if isinstance(r, dict) else r for r in recs]
    for g in residues_of(recs):
        atoms = [recs[i] for i in g]
        hs, heavy = [a for a in atoms if is_h(a)], [a for a in atoms if not is_h(a)]
        rng.shuffle(heavy)
        for i, a in zip(g, hs + heavy):
            recs[i] = a
    return recs


def name_field(nm):
    """atom name -> the four name columns (names of four characters and names starting with a digit start in
    column 13, the others in column 14)"""
    if len(nm) >= 4 or nm[:1].isdigit():
        return nm[:4].ljust(4)
    return (' ' + nm).ljust(4)


def t_hv2(recs):
    """hydrogen names in the PDB v2 style: a trailing digit goes to the front (HB2 -> 2HB, HD11 -> 1HD1, H1 -> 1H)"""
    recs = [dict(r) if isinstance(r, dict) else r for r in recs]
    n = 0
    for g in residues_of(recs):
        taken = {recs[i]['name'].strip() for i in g}
        for i in g:
            nm = recs[i]['name'].strip()
            if is_h(recs[i]) and len(nm) >= 2 and nm[-1].isdigit() and not nm[0].isdigit():
                new = nm[-1] + nm[:-1]
                if new not in taken:
                    taken.discard(nm)
                    taken.add(new)
                    recs[i]['name'] = name_field(new)
                    n += 1
    return recs, n


def t_hter(recs):
    """CHARMM style names of the ammonium hydrogens: H1/H2/H3 -> HT1/HT2/HT3 in the first residue of every chain"""
    recs = [dict(r) if isinstance(r, dict) else r for r in recs]
    n, seen = 0, set()
    for g in residues_of(recs):
        ch = recs[g[0]]['chain']
        if ch in seen:
            continue
        seen.add(ch)
        names = {recs[i]['name'].strip() for i in g}
        for i in g:
            nm = recs[i]['name'].strip()
            if is_h(recs[i]) and nm in ('H1', 'H2', 'H3') and 'HT' + nm[1] not in names:
                recs[i]['name'] = name_field('HT' + nm[1])
                n += 1
    return recs, n


FAR_MODES = ('hi', 'lo', 'straddle+', 'straddle-')


def far_translation(recs, A, rng):
    """translation (0.001 A grid) after which the coordinates use ALL EIGHT columns of their %8.3f fields, on every
    axis in one of four ways: `hi` largest value 9995.xxx (four digits), `lo` smallest value -995.xxx (sign + three
    digits), `straddle+` / `straddle-` the structure lies across 1000.000 / -100.000, so that some atoms need the
    first column of the field and others do not.  At least one axis is positive four-digit and one negative
    three-digit.  -> (t, modes)"""
    pts = [[sum(A[i][j] * r['xyz'][j] for j in range(3)) for i in range(3)] for r in recs if isinstance(r, dict)]
    modes = [rng.choice(FAR_MODES) for _ in range(3)]
    i, j = rng.sample(range(3), 2)
    modes[i], modes[j] = rng.choice(('hi', 'straddle+')), rng.choice(('lo', 'straddle-'))
    t = []
    for ax, m in enumerate(modes):
        lo_, hi_ = min(p[ax] for p in pts), max(p[ax] for p in pts)
        t.append({'hi': 9995000 - hi_, 'lo': -995000 - lo_, 'straddle+': 1000000 - (lo_ + hi_) // 2,
                  'straddle-': -100000 - (lo_ + hi_) // 2}[m])
    return t, modes


def add_alternates(recs, rng, n=5):
    """an input WITH alternate locations: `n` atoms (in different residues, heavy atoms and hydrogens) get the
    alternate location indicator A, and a second record B for the same atom, displaced by about 0.9 A, is listed
    right after it (the usual order).  The reader keeps A and drops B, whatever the order of the two records."""
    recs = [dict(r) if isinstance(r, dict) else r for r in recs]
    groups = [g for g in residues_of(recs) if len(g) >= 4]
    chosen = {}
    for g in rng.sample(groups, min(n, len(groups))):
        side = [i for i in g if recs[i]['name'].strip() not in ('N', 'CA', 'C', 'O')] or g
        chosen[rng.choice(side)] = True
    out = []
    for i, r in enumerate(recs):
        if i in chosen:
            a, b = dict(r, alt='A'), dict(r, alt='B')
            b['xyz'] = [r['xyz'][0] + 600, r['xyz'][1] - 500, r['xyz'][2] + 400]
            out += [a, b]
        else:
            out.append(r)
    return out


def text_crlf(text, pad):
    """CR LF line ends; `pad`: every line padded with blanks to 96 columns first (otherwise the CR directly follows the
    last column of the record)"""
    return ''.join((l.ljust(96) if pad else l) + '\r\n' for l in text.split('\n') if l)


def d2(a, b):
    return sum((p - q) ** 2 for p, q in zip(a['xyz'], b['xyz']))


def h_groups(recs):
    """groups of hydrogens of one residue bound to the same heavy atom (nearest heavy atom within 1.3 A)"""
    out = []
    for g in residues_of(recs):
        heavy = [i for i in g if not is_h(recs[i])]
        byparent = {}
        for i in g:
            if is_h(recs[i]) and heavy:
                j = min(heavy, key=lambda h: d2(recs[h], recs[i]))
                if d2(recs[j], recs[i]) <= 1300 ** 2:
                    byparent.setdefault(j, []).append(i)
        out.extend(v for v in byparent.values() if len(v) >= 2)
    return out


def t_hren(recs, rng, last=False):
    """equivalent hydrogens (same parent heavy atom) exchange their names; coordinates stay with the line
    (`last`: deterministic variant, every group is rotated by one position backwards)"""
    recs = [dict(r) if isinstance(r, dict) else r for r in recs]
    n = 0
    for grp in h_groups(recs):
        names = [recs[i]['name'] for i in grp]
        k = rng.randrange(1, len(names)) if rng.random() < 0.8 else 0
        if last:
            k = len(names) - 1
        names = names[k:] + names[:k]
        for i, nm in zip(grp, names):
            if recs[i]['name'] != nm:
                n += 1
            recs[i]['name'] = nm
    return recs, n


def t_hname(recs, rng):
    """amide hydrogen ` H  ` -> ` HN ` on about half of the residues that have one"""
    recs = [dict(r) if isinstance(r, dict) else r for r in recs]
    n = 0
    for g in residues_of(recs):
        for i in g:
            if recs[i]['name'] == ' H  ' and rng.random() < 0.5:
                recs[i]['name'] = ' HN '
                n += 1
    return recs, n


def rot_generic(rng):
    """a random proper rotation matrix (from a unit quaternion)"""
    while True:
        q = [rng.gauss(0, 1) for _ in range(4)]
        nq = math.sqrt(sum(x * x for x in q))
        if nq > 1e-3:
            break
    w, x, y, z = (c / nq for c in q)
    return [[1 - 2 * (y * y + z * z), 2 * (x * y - z * w), 2 * (x * z + y * w)],
            [2 * (x * y + z * w), 1 - 2 * (x * x + z * z), 2 * (y * z - x * w)],
            [2 * (x * z - y * w), 2 * (y * z + x * w), 1 - 2 * (x * x + y * y)]]


def apply_motion_float(R, t, p):
    return [sum(R[i][j] * p[j] for j in range(3)) + t[i] for i in range(3)]


def t_move_generic(recs, R, t):
    recs = [dict(r) if isinstance(r, dict) else r for r in recs]
    for r in recs:
        if isinstance(r, dict):
            r['xyz'] = [int(round(c)) for c in apply_motion_float(R, t, r['xyz'])]
    return recs


def lean_move(A, t, pts):
    """exact motion on integer points through the Lean model; cross-checked with integer arithmetic here"""
    want = [[sum(A[i][j] * p[j] for j in range(3)) + t[i] for i in range(3)] for p in pts]
    if chk.lean_ok:
        ans = chk.drv.ask([line('move', A[0], A[1], A[2], t, pts)])[0]
        d = dec(ans)
        if d[:2] != [1, 1] or d[2] != want:
            raise RuntimeError('Lean move disagrees with integer arithmetic: %s' % ans[:200])
    return want


def t_move_exact(recs, A, t):
    recs = [dict(r) if isinstance(r, dict) else r for r in recs]
    idx = [i for i, r in enumerate(recs) if isinstance(r, dict)]
    moved = lean_move(A, t, [recs[i]['xyz'] for i in idx])
    for i, p in zip(idx, moved):
        recs[i]['xyz'] = p
    return recs


def pick_rot90(rng):
    n = rng.randrange(1, 24)
    if chk.lean_ok:
        A = dec(chk.drv.ask([line('rot90', n)])[0])[0]
    else:
        A = [[0, -1, 0], [1, 0, 0], [0, 0, 1]]
    if A == [[1, 0, 0], [0, 1, 0], [0, 0, 1]]:
        A = [[0, -1, 0], [1, 0, 0], [0, 0, 1]]
    return A


# ----------------------------------------------------------------------------------------------
# running martinize2
# ----------------------------------------------------------------------------------------------

def collect(d):
    files = {}
    for n in sorted(os.listdir(d)):
        if n == 'in.pdb' or os.path.isdir(os.path.join(d, n)):
            continue
        with open(os.path.join(d, n), 'rb') as f:
            files[n] = f.read().decode('utf-8', 'replace')
    return files


class RunTimeout(BaseException):
    pass


def _run_alarm(*_a):
    raise RunTimeout()


def run_inproc(job):
    """executed in a forked worker: run bin/martinize2 in-process in a fresh directory"""
    argv, pdb_text = job
    signal.signal(signal.SIGALRM, _run_alarm)   # (the forked worker inherited the budget alarm of the check)
    signal.alarm(RUN_TIMEOUT)
    from vermouth.file_writer import DeferredFileWriter
    d = tempfile.mkdtemp(dir=SCRATCH, prefix='run_')
    with open(os.path.join(d, 'in.pdb'), 'w', newline='') as f:
        f.write(pdb_text)
    W = DeferredFileWriter()
    W.close()
    lg = logging.getLogger('vermouth')
    lg.handlers[:] = []
    old = (sys.argv, sys.stderr, sys.stdout, os.getcwd())
    sys.argv, sys.stderr, sys.stdout = ['martinize2'] + argv, io.StringIO(), io.StringIO()
    os.chdir(d)
    code, exc = 0, ''
    try:
        runpy.run_path(M2PATH, run_name='__main__')
    except SystemExit as e:
        code = e.code if isinstance(e.code, int) else (0 if e.code is None else 1)
    except RunTimeout:
        code, exc = 'timeout', 'martinize2 did not finish within %d s' % RUN_TIMEOUT
    except BaseException as e:  # noqa
        code, exc = 1, 'uncaught %s: %s' % (type(e).__name__, str(e)[:300])   # what the interpreter would exit with
    finally:
        signal.alarm(0)
        log = sys.stderr.getvalue() + exc
        sys.argv, sys.stderr, sys.stdout = old[:3]
        os.chdir(old[3])
        lg.handlers[:] = []
        W.close()
    files = collect(d)
    shutil.rmtree(d, ignore_errors=True)
    return {'code': code, 'files': files, 'log': log[-3000:]}


def run_subproc(job):
    """hash-seed run: a separate interpreter"""
    argv, pdb_text, seed = job
    d = tempfile.mkdtemp(dir=SCRATCH, prefix='sub_')
    with open(os.path.join(d, 'in.pdb'), 'w', newline='') as f:
        f.write(pdb_text)
    env = dict(os.environ)
    env['PYTHONHASHSEED'] = str(seed)
    env['PYTHONPATH'] = REPO
    env.update(ONE_THREAD)
    p = subprocess.run([sys.executable, '-W', 'ignore', M2PATH] + argv, cwd=d, env=env, stdout=subprocess.PIPE,
                       stderr=subprocess.PIPE, text=True, timeout=3 * RUN_TIMEOUT)
    files = collect(d)
    shutil.rmtree(d, ignore_errors=True)
    return {'code': p.returncode, 'files': files, 'log': p.stderr[-3000:]}


# ----------------------------------------------------------------------------------------------
# reading what was written
# ----------------------------------------------------------------------------------------------
NATOMS = {'bonds': 2, 'pairs': 2, 'pairs_nb': 2, 'constraints': 2, 'angles': 3, 'dihedrals': 4, 'impropers': 4,
          'position_restraints': 1, 'settles': 1, 'virtual_sites1': 2, 'virtual_sites2': 3, 'virtual_sites3': 4,
          'virtual_sites4': 5, 'cmap': 5, 'distance_restraints': 2, 'dihedral_restraints': 4,
          'angle_restraints': 4, 'angle_restraints_z': 2, 'orientation_restraints': 2}


def parse_itp(text):
    """-> {'name', 'atoms': [[key, resid, name, [type, resname, charge(, mass)]]], 'inters': [[sect, [keys], [tokens]]],
           'other': [lines of other sections]}"""
    sect, ctx, group = None, [], ''
    top = {'name': None, 'atoms': [], 'inters': [], 'other': []}
    for raw in text.split('\n'):
        ln = raw.strip()
        if not ln:
            group = ''
            continue
        if ln.startswith(';'):
            group = ln[1:].strip()
            continue
        if ln.startswith('['):
            sect = ln.strip('[] \t')
            group = ''
            continue
        if ln.startswith('#'):
            w = ln.split()
            if w[0] in ('#ifdef', '#ifndef'):
                ctx.append(ln)
            elif w[0] == '#else':
                ctx.append('#else')
            elif w[0] == '#endif':
                while ctx and ctx[-1] == '#else':
                    ctx.pop()
                if ctx:
                    ctx.pop()
            else:
                top['other'].append('%s|%s' % (sect, ln))
            continue
        body, _, comment = ln.partition(';')
        tk = body.split()
        if sect == 'moleculetype':
            top['name'] = tk[0]
            top['other'].append('moleculetype nrexcl=%s' % ' '.join(tk[1:]))
        elif sect == 'atoms':
            # id type resnr residue atom cgnr charge [mass]
            top['atoms'].append([int(tk[0]), int(tk[2]), tk[4], [tk[1], tk[3]] + tk[6:]])
        elif sect is not None:
            if sect == 'exclusions':
                keys, params = [int(x) for x in tk], []
            elif sect == 'virtual_sitesn':
                keys, params = [int(tk[0])] + [int(x) for x in tk[2:]], [tk[1]]
            else:
                n = NATOMS.get(sect)
                if n is None:
                    n = 0
                    while n < len(tk) - 1 and re.fullmatch(r'\d+', tk[n]):
                        n += 1
                    n = max(n - 1, 1)
                keys, params = [int(x) for x in tk[:n]], tk[n:]
            params = list(params)
            if ctx:
                params.append('ctx:' + '/'.join(ctx))
            if group:
                params.append('group:' + group)
            if comment.strip():
                params.append('comment:' + comment.strip())
            top['inters'].append([sect, keys, params])
    return top


NUM = re.compile(r'[-+]?(\d+\.?\d*|\.\d+)([eE][-+]?\d+)?')


def is_num(tok):
    return bool(NUM.fullmatch(tok))


def mask_params(params):
    """geometry-independent skeleton of a parameter list: real numbers (tokens with a '.' or exponent) masked"""
    return ['~' if (is_num(p) and not re.fullmatch(r'[-+]?\d+', p)) else p for p in params]


def canon_line(top, masked=False):
    inters = [[s, k, mask_params(p) if masked else p] for s, k, p in top['inters']]
    return line('canon', SYM, top['atoms'], inters)


def py_canon(top, masked=False):
    """independent Python statement of the canonical form, in the driver's output encoding"""
    cp = lambda s: tuple(ord(c) for c in s)  # noqa
    first = {}
    for key, resid, name, fields in top['atoms']:
        first.setdefault(key, (resid, cp(name)))
    arecs = sorted(((resid, cp(name)), tuple(cp(f) for f in fields)) for key, resid, name, fields in top['atoms'])
    irecs = []
    for s, keys, params in top['inters']:
        if masked:
            params = mask_params(params)
        ids = tuple(((first[k],) if k in first else ()) for k in keys)
        if s in SYM and not ids <= ids[::-1]:
            ids = ids[::-1]
        irecs.append((cp(s), ids, tuple(cp(p) for p in params)))
    irecs.sort()
    st = lambda t: ''.join(chr(c) for c in t)  # noqa
    return enc([[[r[0][0], st(r[0][1]), [st(f) for f in r[1]]] for r in arecs],
                [[st(r[0]), [[[i[0], st(i[1])] for i in o] for o in r[1]], [st(p) for p in r[2]]] for r in irecs]])


def parse_cg_pdb(text):
    """-> list of (chain, resseq, resname, name, [x, y, z] in 0.001 A)"""
    out = []
    for ln in text.split('\n'):
        if ln[:6] in ('ATOM  ', 'HETATM'):
            ln = ln.ljust(80)
            out.append((ln[21], ln[22:26].strip(), ln[17:21].strip(), ln[12:16].strip(),
                        [to_milli(ln[30:38]), to_milli(ln[38:46]), to_milli(ln[46:54])]))
    return out


def top_body(text):
    return [l.strip() for l in text.split('\n') if l.strip() and not l.strip().startswith(';')]


def molecules_of_top(text):
    out, sect = [], None
    for l in top_body(text):
        if l.startswith('['):
            sect = l.strip('[] ')
        elif sect == 'molecules' and not l.startswith('#'):
            w = l.split()
            out.append((w[0], int(w[1])))
    return out


# ----------------------------------------------------------------------------------------------
# comparison of two runs
# ----------------------------------------------------------------------------------------------

def decimals(tok):
    return len(re.split('[eE]', tok.partition('.')[2])[0])


LENGTH_SECTIONS = ('bonds', 'constraints')
ANGLE_SECTIONS = ('angles', 'dihedrals')


def tok_dev(a, b, generic, extra=0.0, sect='', idx=0):
    """two numeric tokens (token number `idx` of the parameters, 0 = function type) of the same interaction in the two
    runs -> (class, deviation, bound, unit), or None when they are not both numbers.  Classes and bounds:
    float round-off only (exact transformations; and, in a generic rotation, every token that is not an equilibrium
    length or angle) -
      `last-place`: a print with <= 6 decimals may differ by ONE unit of its last printed place (a value sitting on
                    a rounding boundary); deviation counted in units of the last place, bound 1;
      `relative`  : a full-precision print (> 6 decimals) may differ by 1e-10 relative (coordinates up to 1000 nm carry
                    1.1e-13 nm of round-off into lengths of 0.2 nm and more);
    generic rotation (input re-rounded to 0.001 A, every bead moves by <= 0.87e-4 nm), token 1 of the section -
      `rerounding length` (bonds, constraints): |x - y| <= one unit of the last place + 2e-4 nm;
      `rerounding angle` (angles, dihedrals): |x - y| <= one unit of the last place + 2e-4 + 1e-3 |value| degrees
                    (+ `extra`, the conditioning term of a dihedral whose outer bead lies near the axis)."""
    if not (is_num(a) and is_num(b)):
        return None
    x, y = float(a), float(b)
    dp = max(decimals(a), decimals(b))
    if generic and idx == 1 and sect in LENGTH_SECTIONS + ANGLE_SECTIONS:
        tol = (1.01 * 10.0 ** (-dp) if dp <= 6 else 1e-10 * max(1.0, abs(x), abs(y)))
        if sect in LENGTH_SECTIONS:
            return ('rerounding length', abs(x - y), tol + 2e-4, 'nm')
        return ('rerounding angle', abs(x - y), tol + 2e-4 + 1e-3 * max(abs(x), abs(y)) + extra, 'degrees')
    if dp <= 6:
        return ('last-place', abs(x - y) * 10.0 ** dp, 1.01, 'units of the last printed place')
    return ('relative', abs(x - y) / max(1.0, abs(x), abs(y)), 1e-10, 'relative')


TOK_RULES = {
    'last-place': 'float round-off, print with <= 6 decimals: the two prints differ by at most ONE unit of the last '
                  'printed place (a value on a rounding boundary)',
    'relative': 'float round-off, full-precision print: relative difference <= 1e-10',
    'rerounding length': 'generic rotation (input re-rounded to 0.001 A), equilibrium length of a bond/constraint: '
                         '|difference| <= one unit of the last place + 2e-4 nm',
    'rerounding angle': 'generic rotation, equilibrium angle of an angle/dihedral: |difference| <= one unit of the last '
                        'place + 2e-4 + 1e-3 |value| degrees (+ the conditioning term of a dihedral whose outer bead '
                        'lies near the axis)',
}
POS_UNCERTAINTY = 2e-4   # nm: re-rounding of the input (<= 0.87e-4 nm per atom) + resolution of the written beads


def dihedral_slack(ids, pos_maps):
    """degrees by which a dihedral angle may move when every bead moves by POS_UNCERTAINTY: the angle is
    ill-conditioned when an outer bead is close to the axis"""
    for m in pos_maps[:1]:
        try:
            p = [m[tuple(i[0])] for i in ids]
        except (KeyError, IndexError):
            return 0.0
        ax = [p[2][k] - p[1][k] for k in range(3)]
        n = math.sqrt(sum(c * c for c in ax)) or 1e-12
        ax = [c / n for c in ax]

        def perp(u):
            d = sum(u[k] * ax[k] for k in range(3))
            return math.sqrt(max(sum((u[k] - d * ax[k]) ** 2 for k in range(3)), 1e-24))
        v = perp([p[0][k] - p[1][k] for k in range(3)])
        w = perp([p[3][k] - p[2][k] for k in range(3)])
        return min(360.0, math.degrees(3 * POS_UNCERTAINTY * (1 / v + 1 / w)))
    return 0.0


def records_of(canon_str):
    d = dec(canon_str)[0]
    return d[0], d[1]


def rec_key(r):
    """(section, identities, non-numeric skeleton of the parameters)"""
    return json.dumps([r[0], r[1], mask_params(r[2])])


def bead_positions(run):
    """molecule name -> list (one per copy) of {(resid, name): xyz in nm}, using .top order = coordinate order"""
    files = run['files']
    tops = [n for n in files if n.endswith('.top')]
    cg = parse_cg_pdb(files.get('cg.pdb', ''))
    if not tops:
        return {}
    pos, k = {}, 0
    for name, count in molecules_of_top(files[tops[0]]):
        itp = files.get(name + '.itp')
        if itp is None:
            return {}
        atoms = parse_itp(itp)['atoms']
        for _ in range(count):
            m = {}
            for key, resid, an, _f in atoms:
                if k >= len(cg):
                    return pos
                m.setdefault((resid, an), [c / 10000.0 for c in cg[k][4]])
                k += 1
            pos.setdefault(name, []).append(m)
    return pos


def elastic_reason(name, ids, runs, lo, hi, margin):
    """machine-checked reason for an elastic bond that one run has and the other has not: in BOTH runs the distance of
    the two beads (from the coordinates that run wrote) is within `margin` of the SAME cut-off.
    -> (reason dict, None) or (None, why not)"""
    ds = []
    for r in runs:
        pos = bead_positions(r).get(name[:-4], [])
        if not pos:
            return None, 'no coordinates for %s' % name
        a, b = pos[0].get(tuple(ids[0][0])), pos[0].get(tuple(ids[1][0]))
        if not (a and b):
            return None, 'beads %s not found in the coordinate file' % (ids,)
        ds.append(math.dist(a, b))
    for label, thr in (('lower', lo), ('upper', hi)):
        dev = max(abs(d - thr) for d in ds)
        if dev <= margin:
            return {'threshold': '%s cut-off %.4f nm' % (label, thr), 'distance_original_nm': round(ds[0], 5),
                    'distance_transformed_nm': round(ds[1], 5), 'deviation': dev, 'margin': margin}, None
    return None, 'bead distance %.5f / %.5f nm is not within %.1e nm of a cut-off (%.3f, %.3f)' % (ds[0], ds[1], margin, lo, hi)


def compare_itp(name, cb, co, base_run, other_run, opts, generic, pair):
    """cb/co: exact canon strings (Lean) of base and other. -> (errors, admitted)"""
    if cb == co:
        return [], 0
    ab, ib = records_of(cb)
    ao, io_ = records_of(co)
    errs, admitted = [], 0
    ITP_DIFFS[:] = []
    if ab != ao:
        ITP_DIFFS.append({'kind': 'atoms'})
        sb, so = {json.dumps(a) for a in ab}, {json.dumps(a) for a in ao}
        errs.append('%s [atoms] differ: only in original %s; only in transformed %s'
                    % (name, sorted(sb - so)[:4], sorted(so - sb)[:4]))
    gb, go = {}, {}
    for r in ib:
        gb.setdefault(rec_key(r), []).append(r[2])
    for r in io_:
        go.setdefault(rec_key(r), []).append(r[2])
    margin = MARGIN_GENERIC if generic else MARGIN_EXACT
    lo, hi = opts.get('el', 0.0), opts.get('eu', 0.9)
    pos = None
    for k in sorted(set(gb) | set(go)):
        pb, po = sorted(gb.get(k, [])), sorted(go.get(k, []))
        sect, ids, params = json.loads(k)
        if len(pb) == len(po):
            for x, y in zip(pb, po):
                if x == y:
                    continue
                extra = 0.0
                if generic and sect == 'dihedrals' and len(ids) == 4:
                    if pos is None:
                        pos = bead_positions(base_run)
                    extra = dihedral_slack(ids, pos.get(name[:-4], []))
                bad, devs = [], []
                for idx, (p_, q_) in enumerate(zip(x, y)):
                    if p_ == q_:
                        continue
                    d = tok_dev(p_, q_, generic, extra, sect, idx)
                    if d is None or not d[1] <= d[2]:
                        bad.append((p_, q_))
                    else:
                        devs.append((d, p_, q_))
                if bad:
                    ITP_DIFFS.append({'kind': 'param', 'sect': sect, 'ids': ids, 'skeleton': params, 'bad': bad})
                    errs.append('%s: %s has parameters %s in the original and %s in the transformed run'
                                % (name, k, x, y))
                else:
                    admitted += 1
                    chk.count('admitted_numeric_generic' if generic else 'admitted_roundoff_exact')
                    for (cls, dev, bound, unit), p_, q_ in devs:
                        admit('parameter %s [%s]' % (cls, sect), dev, bound, unit,
                              TOK_RULES[cls],
                              {'pair': pair, 'file': name, 'section': sect, 'particles': ids,
                               'original': p_, 'transformed': q_})
            continue
        # an interaction present in one run only: admissible only for an elastic bond at a cut-off
        reason, why = None, 'only an elastic bond (comment group "Rubber band") may be present in one run only'
        if sect == 'bonds' and 'group:Rubber band' in params and len(ids) == 2 and all(len(i) == 1 for i in ids) \
                and abs(len(pb) - len(po)) == 1:
            reason, why = elastic_reason(name, ids, (base_run, other_run), lo, hi, margin)
        if reason:
            admitted += 1
            chk.count('admitted_threshold_pair')
            admit('elastic bond at a cut-off (%s)' % ('generic rotation' if generic else 'exact transformation'),
                  reason['deviation'], margin, 'nm',
                  'both runs place the two beads within the margin of the same cut-off; margin = 1e-6 + resolution '
                  'of the written coordinates (exact: 2e-4 nm; generic: 5e-4 nm because the input is re-rounded)',
                  dict(reason, pair=pair, file=name, particles=ids))
        else:
            ITP_DIFFS.append({'kind': 'count'})
            errs.append('%s: interaction %s occurs %d time(s) in the original and %d time(s) in the transformed run (%s)'
                        % (name, k, len(pb), len(po), why))
    if not errs and not admitted:
        ITP_DIFFS.append({'kind': 'unexplained'})
        errs.append('%s: canonical forms differ' % name)
    return errs, admitted


ITP_DIFFS = []
HREN_KINDS = ('hren', 'all', 'hrenlast', 'hv2', 'hter', 'all2')


def first_residue_idents(run):
    """molecule name -> set of ITP identities (resid, atom name) of the particles that lie in the first residue of
    a chain of the coordinate file (.top order = coordinate order, as in bead_positions)"""
    files = run['files']
    tops = [n for n in files if n.endswith('.top')]
    cg = parse_cg_pdb(files.get('cg.pdb', ''))
    if not tops:
        return {}
    first = {}
    for x in cg:
        first.setdefault(x[0], x[1])
    out, k = {}, 0
    for name, count in molecules_of_top(files[tops[0]]):
        itp = files.get(name + '.itp')
        if itp is None:
            return out
        atoms = parse_itp(itp)['atoms']
        for _ in range(count):
            for key, resid, an, _f in atoms:
                if k >= len(cg):
                    return out
                if first[cg[k][0]] == cg[k][1]:
                    out.setdefault(name, set()).add((resid, an))
                k += 1
    return out


def terminal_finding(p):
    """the known finding a hydrogen-renaming run may show: F-C11-1 (neutral terminus requested) or F-C11-3 (martini22p)"""
    if p['kind'] not in HREN_KINDS:
        return None
    if '-nt' in p['argv'] or 'NH2-ter' in p['argv']:
        return 'F-C11-1'
    if 'martini22p' in p['argv']:
        return 'F-C11-3'
    return None


def itp_diffs_terminal(name, base_run):
    """every difference of this ITP is a geometry-derived scFix angle/dihedral parameter of an interaction that involves
    the BB bead of the first residue of a chain, deviating by <= 2 degrees"""
    if not ITP_DIFFS:
        return False
    firsts = first_residue_idents(base_run).get(name[:-4], set())
    for d in ITP_DIFFS:
        if d['kind'] != 'param' or d['sect'] not in ('angles', 'dihedrals'):
            return False
        if not any(t.startswith('group:') and 'scFix' in t for t in d['skeleton']):
            return False
        idents = [tuple(i[0]) for i in d['ids'] if len(i) == 1]
        if not any(i[1] == 'BB' and i in firsts for i in idents):
            return False
        for a, b in d['bad']:
            if not (is_num(a) and is_num(b)) or abs(float(a) - float(b)) > 2.0:
                return False
    return True


def compare_coords(base_run, other_run, motion, pair=''):
    """CG coordinates modulo the motion; atoms matched by (chain, resid, resname, name) in order of appearance"""
    b = parse_cg_pdb(base_run['files'].get('cg.pdb', ''))
    o = parse_cg_pdb(other_run['files'].get('cg.pdb', ''))
    errs = []
    if [x[:4] for x in b] != [x[:4] for x in o]:
        sb, so = sorted(x[:4] for x in b), sorted(x[:4] for x in o)
        if sb != so:
            return ['cg.pdb lists different particles: %s ...' % [p for p in zip(sb, so) if p[0] != p[1]][:3]], 0
        errs.append('cg.pdb lists the same particles in another order')
    bykey = {}
    for x in o:
        bykey.setdefault(x[:4], []).append(x[4])
    worst = 0.0
    tol = COORD_TOL_GENERIC if motion[0] == 'generic' else COORD_TOL_EXACT
    cls = ('bead coordinate (generic rotation)' if motion[0] == 'generic' else 'bead coordinate (exact transformation)')
    rule = ('generic rotation: re-rounding of the input (0.87e-3 A) + rounding of the original output before it is '
            'moved (0.87e-3 A) + rounding of the other output (0.5e-3 A)' if motion[0] == 'generic' else
            'exact transformation: the two prints (three decimals, A) differ by at most ONE unit of the last place')
    DEVIATING[:] = []
    first_res = {}
    for x in b:
        first_res.setdefault(x[0], x[1])
    for x in b:
        q = bykey[x[:4]].pop(0)
        kind, A, t = motion
        p = x[4]
        if kind == 'exact':
            p = [sum(A[i][j] * p[j] for j in range(3)) + t[i] for i in range(3)]
        elif kind == 'generic':
            p = apply_motion_float(A, t, p)
        dev = max(abs(u - v) for u, v in zip(p, q)) / 1000.0
        worst = max(worst, dev)
        if 0 < dev <= tol:
            admit(cls, dev, tol, 'A', rule, {'pair': pair, 'particle': list(x[:4]),
                                             'moved_original': [c / 1000.0 for c in p], 'transformed': [c / 1000.0 for c in q]})
        if dev > tol:
            DEVIATING.append((x[:4], dev, first_res[x[0]] == x[1], len(errs)))
            errs.append('particle %s: moved original position %s, transformed run has %s (deviation %.4f A)'
                        % (x[:4], [round(c / 1000.0, 3) for c in p], [c / 1000.0 for c in q], dev))
    return errs, worst


DEVIATING = []


def is_f_c11_1(p, errs_other_outputs):
    """signature of F-C11-1: hydrogens renamed, neutral N-terminus requested, nothing but the coordinates of
    particles of the first residue of a chain differ, by at most 0.05 A"""
    return (terminal_finding(p) == 'F-C11-1'
            and not errs_other_outputs and DEVIATING
            and all(first and dev <= 0.05 for _k, dev, first, _i in DEVIATING))


DUMMY_NAMES = ('SCP', 'SCN')


def split_dummies(p, errs):
    """F-C11-2: with a polarisable force field the charge dummies are placed at a random orientation (unseeded
    numpy RNG), so their coordinates are not a function of the input at all.  -> (errors about dummies, other errors)"""
    if 'martini22p' not in p['argv']:
        return [], errs
    idx = {i for k, _d, _f, i in DEVIATING if k[3] in DUMMY_NAMES}
    DEVIATING[:] = [d for d in DEVIATING if d[3] not in idx]
    return [e for i, e in enumerate(errs) if i in idx], [e for i, e in enumerate(errs) if i not in idx]


def is_f_c11_3(p, errs_other_outputs):
    """signature of F-C11-3: martini22p, hydrogens renamed, nothing but the coordinates of non-dummy particles of the
    first residue of a chain differ, by at most 0.05 A"""
    return (terminal_finding(p) == 'F-C11-3'
            and not errs_other_outputs and DEVIATING
            and all(first and dev <= 0.05 for _k, dev, first, _i in DEVIATING))


# ----------------------------------------------------------------------------------------------
# the run matrix
# ----------------------------------------------------------------------------------------------

def n_protein_residues(recs, ignore=()):
    """residues the -ss string has to cover: ATOM records, not ignored"""
    return sum(1 for g in residues_of(recs)
               if recs[g[0]]['tag'] == 'ATOM  ' and recs[g[0]]['resname'].strip() not in ignore)


def ss_string(n, rng):
    segs, out = ['CC', 'HHHHHHHH', 'TT', 'EEEEE', 'SS', 'HHHH', 'C', 'EEE', 'GGG', 'BB'], ''
    while len(out) < n:
        out += rng.choice(segs)
    return out[:n]


OPTSETS = {
    'm3': ['-ff', 'martini3001'],
    'm3-elastic': ['-ff', 'martini3001', '-elastic'],
    'm3-elastic-cys': ['-ff', 'martini3001', '-elastic', '-cys', 'auto', '-ef', '500'],
    'm3-posres': ['-ff', 'martini3001', '-p', 'backbone'],
    'm3-ss': ['-ff', 'martini3001', '-ss', 'SS'],
    'm3-ss-elastic': ['-ff', 'martini3001', '-ss', 'SS', '-elastic', '-eu', '0.8', '-el', '0.5'],
    'm3-cys': ['-ff', 'martini3001', '-cys', 'auto'],
    'm3-nt': ['-ff', 'martini3001', '-nt'],
    'm3-nt-noscfix': ['-ff', 'martini3001', '-nt', '-noscfix'],
    'm22': ['-ff', 'martini22', '-noscfix', '-ss', 'SS'],
    'm22-cys': ['-ff', 'martini22', '-noscfix', '-cys', 'auto'],
    'm22p-posres': ['-ff', 'martini22p', '-noscfix', '-p', 'all', '-pf', '500', '-maxwarn', '100'],
    'm3-alt': ['-ff', 'martini3001', '-elastic', '-maxwarn', 'pdb-alternate'],
    'eln22': ['-ff', 'elnedyn22', '-noscfix', '-ss', 'SS', '-eu', '0.7', '-ef', '800.0'],
    # multi-chain inputs (structures `mc:...`); CHAINS2 = the first two chain ids of the structure
    'm3-merge-all': ['-ff', 'martini3001', '-merge', 'all'],
    'm3-merge-2': ['-ff', 'martini3001', '-merge', 'CHAINS2'],
    'm3-eunit-all': ['-ff', 'martini3001', '-elastic', '-eunit', 'all', '-cys', 'auto'],
    'm3-sep': ['-ff', 'martini3001', '-sep'],
    'm3-merge-all-eunit-chain': ['-ff', 'martini3001', '-merge', 'all', '-elastic', '-eunit', 'chain', '-resid', 'input'],
    'm22-merge-2': ['-ff', 'martini22', '-noscfix', '-merge', 'CHAINS2', '-elastic', '-eunit', 'molecule'],
    'eln21-ter': ['-ff', 'elnedyn21', '-noscfix', '-ss', 'SS', '-nter', 'NH2-ter', '-cter', 'COOH-ter', '-ef', '500', '-maxwarn', '100'],
}

T0 = {
    'dipro': 'tier-0/dipro-termini/aa.pdb',
    'beta': 'tier-0/mini-protein1_betasheet/aa.pdb',
    'helix': 'tier-0/mini-protein2_helix/aa.pdb',
    'trp': 'tier-0/mini-protein3_trp-cage/aa.pdb',
}
T1 = {
    '1ubq': ('tier-1/1UBQ/aa.pdb', ['-ignore', 'HOH']),
    '3i40': ('tier-1/3i40/3i40.pdb', ['-ignore', 'HOH']),
    'villin': ('tier-1/villin/aa.pdb', []),
    'bpti': ('tier-1/bpti/aa.pdb', ['-ignore', 'HOH']),
    'hst5': ('tier-1/hst5/aa.pdb', []),
}

QUICK = [
    # (structure, option set, transformations, hash seeds)
    ('beta', 'm3-elastic-cys', ['perm', 'perm#2', 'permrev', 'hren', 'hv2', 'rot90', 'rotfar', 'rotgen', 'crlf', 'origin', 'origin#2', 'origin#3'], [0, 1, 12345]),
    ('trp', 'm3-posres', ['perm', 'permh', 'rot90', 'all', 'all2', 'origin'], []),
    ('helix', 'm22', ['perm', 'hren', 'hv2', 'hter', 'rotfar'], [7]),
    ('dipro', 'm3-nt', ['perm', 'permrev', 'hren', 'hname', 'hter', 'rot90', 'rotgen', 'crlf'], [0, 1, 2, 3]),
    ('trp', 'eln22', ['all', 'all2', 'rotgen', 'rotgen#2'], []),
    ('beta', 'm3-ss-elastic', ['all', 'all2', 'hname', 'permh'], []),
    ('helix', 'm3-elastic', ['perm', 'hv2', 'rotfar', 'rotgen'], []),
    ('dipro', 'm22-cys', ['all2', 'hter'], []),
    ('beta@alt', 'm3-alt', ['permrev', 'perm', 'rotfar'], []),
]
# multi-chain inputs under hash seeds chosen so that the iteration order of the SET of chain ids differs between the runs
# (`auto<n>`: n seeds, see pick_hash_seeds); the order of the chains in the file is never varied
QUICK_MC = [
    ('mc:dipro+trp+dipro:ABC', 'm3-merge-all', ['perm'], 'auto4'),
    ('mc:trp+dipro+dipro:q7Z', 'm3-merge-2', [], 'auto4'),
    ('mc:dipro+trp+dipro:ABC', 'm3-sep', [], 'auto4'),
    ('mc:beta+dipro+beta:XkA', 'm3-eunit-all', [], 'auto4'),
]
THOROUGH_MC = QUICK_MC + [
    ('mc:dipro+trp+dipro:ABC', 'm3-merge-2', ['rot90'], 'auto4'),
    ('mc:trp+dipro+dipro:q7Z', 'm3-merge-all', [], 'auto4'),
    ('mc:dipro+dipro:BA', 'm3-merge-all-eunit-chain', [], 'auto4'),
]
QUICK = QUICK + QUICK_MC


def thorough_matrix():
    m = []
    core = ['perm', 'permrev', 'hren', 'hv2', 'rotfar', 'rotgen', 'all', 'all2']
    more = ['perm#2', 'permh', 'hname', 'hter', 'rot90', 'crlf', 'origin', 'origin#2']
    mc_only = ('m3-merge-all', 'm3-merge-2', 'm3-eunit-all', 'm3-sep', 'm3-merge-all-eunit-chain', 'm22-merge-2')
    for s in T0:
        for o in OPTSETS:
            if o == 'm3-alt' or o in mc_only:   # the merge/sep option sets belong to the multi-chain structures only
                continue
            seeds = [0, 1, 4242] if o in ('m3-elastic-cys', 'm22') else []
            m.append((s, o, core + (more if o in ('m3-elastic-cys', 'm3-nt', 'm22', 'eln21-ter') else []), seeds))
    for s in T0:
        m.append((s + '@alt', 'm3-alt', ['perm', 'perm#2', 'permrev', 'permh', 'rot90', 'rotfar', 'rotgen'], []))
    for s in T1:
        for o in ('m3-elastic-cys', 'm22-cys'):
            m.append((s, o, ['perm', 'hv2', 'rotfar', 'rotgen', 'all2'], [7] if o == 'm3-elastic-cys' else []))
        for o in ('m3-ss', 'm3-posres'):
            m.append((s, o, ['all'], []))
    m += THOROUGH_MC
    for st in ('mc:helix+dipro+trp:ABC', 'mc:dipro+beta+dipro+beta:0aZ9', 'mc:trp+trp:ba'):
        for o in ('m3-merge-all', 'm3-merge-2', 'm3-eunit-all', 'm3-sep', 'm3-merge-all-eunit-chain', 'm22-merge-2'):
            m.append((st, o, ['perm', 'all2'] if o == 'm3-merge-all' else [], 'auto6'))
    return m


def load_structure(s):
    if s.endswith('@alt'):
        recs, extra = load_structure(s[:-4])
        return add_alternates(recs, chk.rng('alt|' + s)), extra
    if s.startswith('mc:'):
        return multi_chain(s), []
    if s in T0:
        path, extra = os.path.join(TDATA, T0[s]), []
    elif s in T1:
        path, extra = os.path.join(TDATA, T1[s][0]), T1[s][1]
    else:
        path, extra = (s if os.path.isabs(s) else os.path.join(REPO, s)), []
    with open(path) as f:
        return parse_pdb(f.read()), extra


def multi_chain(s):
    """`mc:<t0>+<t0>+...:<ids>` - a structure of several chains: the i-th chain is the tier-0 peptide named, with chain
    id ids[i], placed along x behind the previous chain with a gap of 4 A between the outermost atoms (close enough
    for elastic bonds between chains, too far for any covalent bond); TER after every chain"""
    _mc, parts, ids = s.split(':')
    parts = parts.split('+')
    if len(parts) != len(ids) or len(set(ids)) != len(ids):
        raise ValueError('bad multi-chain structure ' + s)
    out, edge = [], None
    for part, cid in zip(parts, ids):
        atoms = [dict(r) for r in load_structure(part)[0] if isinstance(r, dict)]
        lo_, hi_ = min(a['xyz'][0] for a in atoms), max(a['xyz'][0] for a in atoms)
        shift = 0 if edge is None else edge + 4000 - lo_
        for a in atoms:
            a['chain'] = cid
            a['xyz'] = [a['xyz'][0] + shift, a['xyz'][1], a['xyz'][2]]
        edge = hi_ + shift
        out += atoms + ['TER']
    return out + ['END']


def chain_ids(recs):
    out = []
    for r in recs:
        if isinstance(r, dict) and r['chain'] not in out:
            out.append(r['chain'])
    return out


_SEED_ORDERS = {}


def set_orders(ids, seeds):
    """seed -> the order in which a CPython started with PYTHONHASHSEED=seed iterates over the set of the chain ids
    (built by insertion in file order, as merge_chains / the elastic-network domains build theirs)"""
    code = 'import sys\ns = set()\nfor c in sys.argv[1]:\n    s.update({c})\nprint("".join(s))'

    def one(sd):
        env = dict(os.environ, PYTHONHASHSEED=str(sd))
        return sd, subprocess.run([sys.executable, '-S', '-c', code, ids], env=env, stdout=subprocess.PIPE,
                                  text=True, timeout=60).stdout.strip()
    todo = [sd for sd in seeds if (ids, sd) not in _SEED_ORDERS]
    with concurrent.futures.ThreadPoolExecutor(max_workers=8) as tp:
        for sd, order in tp.map(one, todo):
            _SEED_ORDERS[(ids, sd)] = order
    return {sd: _SEED_ORDERS[(ids, sd)] for sd in seeds}


def pick_hash_seeds(ids, n):
    """n hash seeds under which the set of chain ids `ids` is iterated in as many DIFFERENT orders as possible
    (candidates: 48 seeds drawn from the stream of the check; the orders are measured in subprocesses)"""
    cand = sorted(chk.rng('hashseeds|' + ids).sample(range(100000), 48))
    orders = set_orders(ids, cand)
    byorder = {}
    for sd in cand:
        if len(orders[sd]) == len(ids):
            byorder.setdefault(orders[sd], []).append(sd)
    # prefer the orders farthest from the file order first (reversed first), then round-robin over the orders
    ranked = sorted(byorder, key=lambda o: (o != ids[::-1], o == ids, o))
    chosen = []
    while len(chosen) < n and any(byorder.values()):
        for o in ranked:
            if byorder[o] and len(chosen) < n:
                chosen.append(byorder[o].pop(0))
    chk.count('hash_seed_distinct_set_orders=%d' % len({orders[sd] for sd in chosen}))
    chk.extra.setdefault('hash_seed_choice', {})[ids] = {str(sd): orders[sd] for sd in chosen}
    return chosen


def base_kind(kind):
    return kind.split('#')[0]


def make_transform(kind, recs, rng):
    """-> (records, motion, description); `kind#n` is a further independent sample of `kind`"""
    motion, desc = ('none', None, None), {}
    kind = base_kind(kind)
    if kind in ('perm', 'all'):
        recs = t_perm(recs, rng)
    if kind in ('permrev', 'all2'):
        recs = t_permrev(recs)
    if kind == 'permh':
        recs = t_permh(recs, rng)
    if kind in ('hv2', 'all2'):
        recs, n = t_hv2(recs)
        desc['renamed'] = n
    if kind == 'hter':
        recs, n = t_hter(recs)
        desc['renamed'] = n
    if kind in ('rotfar', 'all2'):
        A = pick_rot90(rng)
        t, modes = far_translation(recs, A, rng)
        recs = t_move_exact(recs, A, t)
        motion = ('exact', A, t)
        desc['A'], desc['t'], desc['columns'] = A, t, modes
        for m_ in modes:
            chk.count('rotfar_axis=' + m_)
    if kind in ('hren', 'all', 'hrenlast'):
        recs, n = t_hren(recs, rng, last=(kind == 'hrenlast'))
        desc['renamed'] = n
    if kind == 'hname':
        recs, n = t_hname(recs, rng)
        desc['renamed'] = n
    if kind in ('rot90', 'all'):
        A = pick_rot90(rng)
        t = [rng.randrange(-20000, 20001) for _ in range(3)]
        recs = t_move_exact(recs, A, t)
        motion = ('exact', A, t)
        desc['A'], desc['t'] = A, t
    if kind == 'origin':
        # a pure translation that puts one heavy atom EXACTLY on the origin: [0, 0, 0] is a legal position
        # (a truthiness test on a position array treats it as 'no position')
        A = [[1, 0, 0], [0, 1, 0], [0, 0, 1]]
        heavy = [r for r in recs if isinstance(r, dict) and not is_h(r)]
        a = heavy[rng.randrange(len(heavy))]
        t = [-c for c in a['xyz']]
        recs = t_move_exact(recs, A, t)
        motion = ('exact', A, t)
        desc['A'], desc['t'], desc['atom_at_origin'] = A, t, a.get('name')
    if kind == 'rotgen':
        R = rot_generic(rng)
        t = [rng.uniform(-20000, 20000) for _ in range(3)]
        recs = t_move_generic(recs, R, t)
        motion = ('generic', R, t)
        desc['R'], desc['t'] = R, t
    return recs, motion, desc


def argv_for(optset, recs, extra, rng_ss):
    argv = ['-f', 'in.pdb', '-x', 'cg.pdb', '-o', 'topol.top'] + list(OPTSETS[optset] if isinstance(optset, str) else optset)
    argv += extra
    if 'CHAINS2' in argv:
        argv[argv.index('CHAINS2')] = ','.join(chain_ids(recs)[:2])
    if 'SS' in argv:
        ignore = [argv[i + 1] for i, a in enumerate(argv[:-1]) if a == '-ignore']
        argv[argv.index('SS')] = ss_string(n_protein_residues(recs, ignore), rng_ss)
    return argv


def opt_values(argv):
    o = {}
    for flag, key in (('-el', 'el'), ('-eu', 'eu')):
        if flag in argv:
            o[key] = float(argv[argv.index(flag) + 1])
    return o


matrix = list(QUICK)
if chk.thorough:
    matrix = thorough_matrix()
corpus = []
ONLY = os.environ.get('VERIF_C11_ONLY')     # development aid: "structure|optset|kind,kind,...[|seed,seed]" (; separated)
if ONLY:
    matrix = []
    for item in ONLY.split(';'):
        w = item.split('|')
        matrix.append((w[0], w[1], [k for k in w[2].split(',') if k], (w[3] if w[3].startswith('auto') else [int(x) for x in w[3].split(',')]) if len(w) > 3 else []))
for p in [] if ONLY else sorted(glob_ for glob_ in os.listdir(os.path.join(VERIF, 'corpus')) if glob_.startswith('c11_') and glob_.endswith('.json')):
    corpus += json.load(open(os.path.join(VERIF, 'corpus', p)))['cases']

# ---- plan all runs -----------------------------------------------------------------------------
plans = []     # dict(cid, struct, optname, argv, kind, base_key, pdb_text, motion, desc, seed)
bases = {}     # (struct, optname) -> plan of the base run


def plan_group(struct, optname, optargs, kinds, seeds, tag=''):
    recs, extra = load_structure(struct)
    rng = chk.rng('ss|%s' % struct)
    argv = argv_for(optargs, recs, extra, rng)
    base_text = write_pdb(recs)
    bkey = (struct, optname)
    if isinstance(seeds, str):      # 'auto<n>'
        seeds = pick_hash_seeds(''.join(chain_ids(recs)), int(seeds[4:]))
    if bkey not in bases:
        bases[bkey] = {'cid': 'base|%s|%s' % bkey, 'argv': argv, 'pdb': base_text, 'kind': 'base'}
    for kind in kinds:
        trng = chk.rng('t|%s|%s|%s%s' % (struct, optname, kind, tag))
        trecs, motion, desc = make_transform(kind, recs, trng)
        text = write_pdb(trecs)
        if base_kind(kind) in ('crlf', 'all2'):
            text = text_crlf(text, pad=base_kind(kind) == 'all2')
            desc['line_ends'] = 'CR LF' + (', lines padded to 96 columns' if base_kind(kind) == 'all2' else '')
        plans.append({'cid': '%s|%s|%s%s' % (struct, optname, kind, tag), 'struct': struct, 'optname': optname,
                      'argv': argv, 'kind': base_kind(kind), 'bkey': bkey, 'pdb': text, 'motion': motion,
                      'desc': desc})
    for sd in seeds:
        plans.append({'cid': '%s|%s|hash%d' % (struct, optname, sd), 'struct': struct, 'optname': optname,
                      'argv': argv, 'kind': 'hash', 'bkey': bkey, 'pdb': base_text, 'motion': ('none', None, None),
                      'desc': {'PYTHONHASHSEED': sd}, 'seed': sd})


for c in corpus:
    plan_group(c['structure'], c['optname'] if 'optname' in c else 'corpus:' + ' '.join(c['options']),
               c['options'] if 'options' in c else c['optname'], c['kinds'], c.get('hashseeds', []), tag=c.get('tag', ''))
for struct, optname, kinds, seeds in matrix:
    plan_group(struct, optname, optname, kinds, seeds)

# ---- execute: in-process runs in forked workers, hash-seed runs as subprocesses (threads) -------
import vermouth  # noqa  (imported before the fork so that workers do not pay for it)
logging.getLogger('vermouth').handlers[:] = []
ctx = multiprocessing.get_context('fork')
results = {}
t_runs = time.time()
with concurrent.futures.ProcessPoolExecutor(max_workers=NWORKERS, mp_context=ctx) as pool, \
        concurrent.futures.ThreadPoolExecutor(max_workers=NTHREADS) as tpool:
    futs = {}
    for bkey, b in bases.items():
        futs[pool.submit(run_inproc, (b['argv'], b['pdb']))] = b['cid']
    for p in plans:
        if p['kind'] == 'hash':
            futs[tpool.submit(run_subproc, (p['argv'], p['pdb'], p['seed']))] = p['cid']
        else:
            futs[pool.submit(run_inproc, (p['argv'], p['pdb']))] = p['cid']
    for f in concurrent.futures.as_completed(futs):
        try:
            results[futs[f]] = f.result()
        except Exception as e:  # noqa
            results[futs[f]] = {'code': 'harness-exception:%r' % (e,), 'files': {}, 'log': ''}

chk.extra['seconds_running_martinize2'] = round(time.time() - t_runs, 1)

# ---- canonicalise every ITP through Lean -------------------------------------------------------
lines, where = [], []
for cid, r in results.items():
    r['tops'] = {}
    for n, txt in r['files'].items():
        if n.endswith('.itp'):
            try:
                r['tops'][n] = parse_itp(txt)
            except Exception as e:  # noqa
                r['tops'][n] = None
                r.setdefault('parse_errors', []).append('%s: %r' % (n, e))
                continue
            for masked in (False, True):
                lines.append(canon_line(r['tops'][n], masked))
                where.append((cid, n, masked))
answers = chk.drv.ask(lines) if chk.lean_ok else [None] * len(lines)
for (cid, n, masked), a in zip(where, answers):
    results[cid].setdefault('canon_masked' if masked else 'canon', {})[n] = a


def save_replay_files(p, b):
    d = os.path.join(VERIF, 'replays')
    os.makedirs(d, exist_ok=True)
    h = hashlib.sha1((p['pdb'] + ' '.join(p['argv'])).encode()).hexdigest()[:10]
    pt = os.path.join(d, 'C11-%s-transformed.pdb' % h)
    po = os.path.join(d, 'C11-%s-original.pdb' % h)
    with open(pt, 'w', newline='') as f:
        f.write(p['pdb'])
    with open(po, 'w') as f:
        f.write(b['pdb'])
    return po, pt


# ---- verdicts --------------------------------------------------------------------------------
for bkey, b in sorted(bases.items()):
    r = results[b['cid']]
    chk.count('base_exit=%s' % (r['code'] if isinstance(r['code'], int) else 'exception'))
    if r['code'] != 0:
        # the structures are the shipped test inputs under options they are known to convert with: not converting the
        # ORIGINAL presentation is a failure of the pipeline (and leaves nothing to compare the other presentations with)
        chk.notes.append('base run %s exits %s: %s' % (b['cid'], r['code'], r['log'][-300:].replace('\n', ' | ')))
        d = os.path.join(VERIF, 'replays')
        os.makedirs(d, exist_ok=True)
        po = os.path.join(d, 'C11-%s-original.pdb' % hashlib.sha1((b['pdb'] + ' '.join(b['argv'])).encode()).hexdigest()[:10])
        with open(po, 'w', newline='') as f:
            f.write(b['pdb'])
        chk.case(b['cid'], json.dumps({'structure': bkey[0], 'options': b['argv'], 'transformation': 'none',
                                       'original_pdb': po,
                                       'replay': 'cd <dir>; martinize2 %s  (in.pdb = original_pdb)' % ' '.join(b['argv'])},
                                      sort_keys=True),
                 'exit %s' % r['code'], None,
                 ['the original presentation of a test structure does not convert: martinize2 exits %s: %s'
                  % (r['code'], r['log'][-600:].replace('\n', ' | '))], False)

for p in plans:
    b = bases[p['bkey']]
    rb, ro = results[b['cid']], results[p['cid']]
    generic = p['motion'][0] == 'generic'
    nontrivial = p['pdb'] != b['pdb']
    chk.count('kind=' + p['kind'])
    chk.count('optset=' + p['optname'])
    chk.count('structure=' + p['struct'])
    descr = {'structure': p['struct'], 'options': p['argv'], 'transformation': p['kind'], 'detail': p['desc']}
    common_errs = []
    if not isinstance(rb['code'], int) or rb['code'] != 0 or not rb['tops']:
        # the original presentation itself is not converted under these options: nothing to compare
        chk.count('skipped_base_failed')
        if ro['code'] != rb['code']:
            common_errs.append('exit status %s on the original presentation but %s on the transformed one'
                               % (rb['code'], ro['code']))
        else:
            continue
    elif ro['code'] != 0:
        common_errs.append('original presentation converts (exit 0), transformed presentation exits %s: %s'
                           % (ro['code'], ro['log'][-600:].replace('\n', ' | ')))
    elif sorted(rb['files']) != sorted(ro['files']):
        common_errs.append('different sets of files written: %s vs %s' % (sorted(rb['files']), sorted(ro['files'])))
    for e in ro.get('parse_errors', []) + rb.get('parse_errors', []):
        common_errs.append('unreadable ITP ' + e)
    outputs = sorted(set(rb['files']) | set(ro['files']), key=lambda n: (n == 'cg.pdb', n)) if not common_errs else ['-']
    other_errs = 0
    for n in outputs:
        errs, impl, model, finding = list(common_errs), None, None, None
        inp = json.dumps(dict(descr, output=n), sort_keys=True)
        if common_errs:
            pass
        elif n.endswith('.itp') and rb['tops'].get(n) and ro['tops'].get(n):
            impl = py_canon(ro['tops'][n])
            model = ro['canon'][n] if chk.lean_ok else None
            cb, co = rb['canon'][n], ro['canon'][n]
            if chk.lean_ok:
                if generic and rb['canon_masked'][n] == ro['canon_masked'][n] and cb != co:
                    chk.count('generic_masked_equal')
                e, adm = compare_itp(n, cb, co, rb, ro, opt_values(p['argv']), generic, p['cid'])
                errs += e
                chk.count('itp_identical' if cb == co else ('itp_admitted' if not e else 'itp_differs'))
                if e and terminal_finding(p) and itp_diffs_terminal(n, rb):
                    finding = terminal_finding(p)
            else:
                # no driver: fall back on the Python canonicaliser so that a failing input is still found
                cb, co = py_canon(rb['tops'][n]), impl
                e, adm = compare_itp(n, cb, co, rb, ro, opt_values(p['argv']), generic, p['cid'])
                errs += e
            natoms, ninter = len(ro['tops'][n]['atoms']), len(ro['tops'][n]['inters'])
            chk.count('atoms<=20' if natoms <= 20 else 'atoms<=100' if natoms <= 100 else 'atoms>100')
            chk.count('interactions', ninter)
            if rb['tops'][n]['other'] != ro['tops'][n]['other'] or rb['tops'][n]['name'] != ro['tops'][n]['name']:
                errs.append('%s: moleculetype header differs' % n)
                finding = None
        elif n.endswith('.top'):
            impl = '\n'.join(top_body(ro['files'][n]))
            if top_body(rb['files'][n]) != top_body(ro['files'][n]):
                errs.append('%s differs: %s vs %s' % (n, top_body(rb['files'][n])[-6:], top_body(ro['files'][n])[-6:]))
        elif n == 'cg.pdb':
            e, worst = compare_coords(rb, ro, p['motion'], p['cid'])
            dummy_errs, e = split_dummies(p, e)
            if dummy_errs:
                chk.case('%s|%s#dummies' % (p['cid'], n), json.dumps(dict(descr, output=n + '#charge-dummies'), sort_keys=True),
                         'differs', None, dummy_errs[:6], nontrivial, finding=None if other_errs else 'F-C11-2')
            errs += e[:8]
            if e and is_f_c11_1(p, other_errs):
                finding = 'F-C11-1'
            elif e and is_f_c11_3(p, other_errs):
                finding = 'F-C11-3'
            impl = 'max deviation %.4f A' % worst if not e else 'differs'
            chk.count('coord_dev=0' if worst == 0 else 'coord_dev<=0.001A' if worst <= 0.00101 else 'coord_dev<=0.00225A' if worst <= 0.00225 else 'coord_dev>0.00225A')
        else:
            impl = hashlib.sha1(ro['files'][n].encode()).hexdigest()
            body_b = [l for l in rb['files'][n].split('\n') if not l.startswith(';')]
            body_o = [l for l in ro['files'][n].split('\n') if not l.startswith(';')]
            if body_b != body_o:
                errs.append('%s differs' % n)
        if errs and n != 'cg.pdb' and finding is None:
            other_errs += 1
        if errs:
            po, pt = save_replay_files(p, b)
            inp = json.dumps(dict(descr, output=n, original_pdb=po, transformed_pdb=pt,
                                  replay='cd <dir>; martinize2 %s  (once with in.pdb = original_pdb, once with '
                                         'transformed_pdb%s)' % (' '.join(p['argv']),
                                                                  '; PYTHONHASHSEED=%s' % p['seed'] if 'seed' in p else '')),
                             sort_keys=True)
        chk.case('%s|%s' % (p['cid'], n), inp, impl, model, errs, nontrivial, finding=finding)

if os.environ.get('VERIF_C11_VERBOSE'):
    for f in chk.failures[:int(os.environ['VERIF_C11_VERBOSE'])]:
        print('FAIL', f['case'], '::', f['oracle'][:700])
chk.extra['admitted_differences'] = {
    'note': 'every difference between two paired runs that is NOT reported was admitted under exactly one of these '
            'classes, after its bound had been checked; anything else is a violation with the pair as replay',
    'classes': ADMITTED}
chk.extra['paired_runs'] = len(plans)
chk.extra['base_runs'] = len(bases)
chk.extra['workers'] = NWORKERS
shutil.rmtree(SCRATCH, ignore_errors=True)
chk.finish()
