"""
Translator for the tables C16 depends on: the writer format strings and the reader column
tables are read from the repository source (AST; the format strings are additionally captured
at run time from the live TruncFormatter and must agree) and rendered as
lean/Generated/C16Layout.lean.
"""
import ast
import inspect
import os
import string

FNAMES = {'atomid', 'atomname', 'altloc', 'resname', 'chain', 'resid', 'insertion_code', 'x', 'y', 'z',
          'occupancy', 'temp_factor', 'element', 'charge', 'vx', 'vy', 'vz'}


GRO_PRECISIONS = tuple(range(4, 12))


class ExtractError(Exception):
    pass


def _func(tree, name, cls=None):
    for node in ast.walk(tree):
        if cls and isinstance(node, ast.ClassDef) and node.name == cls:
            for sub in node.body:
                if isinstance(sub, ast.FunctionDef) and sub.name == name:
                    return sub
        if not cls and isinstance(node, ast.FunctionDef) and node.name == name:
            return node
    raise ExtractError('function %s not found' % name)


def _assigns(fn, target):
    out = []
    for node in ast.walk(fn):
        if isinstance(node, ast.Assign) and len(node.targets) == 1 and isinstance(node.targets[0], ast.Name) \
                and node.targets[0].id == target:
            out.append(node)
    return out


def _module_assign(tree, name):
    """value node of the unique top-level (module or class level) assignment `name = ...`"""
    vals = []
    for node in ast.walk(tree):
        if isinstance(node, (ast.Module, ast.ClassDef)):
            for sub in node.body:
                if isinstance(sub, ast.Assign) and len(sub.targets) == 1 and isinstance(sub.targets[0], ast.Name) \
                        and sub.targets[0].id == name:
                    vals.append(sub.value)
                elif isinstance(sub, ast.AnnAssign) and isinstance(sub.target, ast.Name) and sub.target.id == name \
                        and sub.value is not None:
                    vals.append(sub.value)
    return vals[0] if len(vals) == 1 else None


def _resolve(tree, fn, node, depth=0):
    """follow names, `list(x)`, `tuple(x)`, `x.copy()`, `x[:]`, `self.X` / `Class.X` to the literal a value
    comes from (function-local assignment first, then class / module level constants)"""
    if depth > 8 or node is None:
        return None
    if isinstance(node, (ast.List, ast.Tuple, ast.Constant)):
        return node
    if isinstance(node, ast.Name):
        local = [a.value for a in _assigns(fn, node.id)] if fn is not None else []
        if len(local) == 1 and not (isinstance(local[0], ast.Name) and local[0].id == node.id):
            return _resolve(tree, fn, local[0], depth + 1)
        if not local:
            return _resolve(tree, None, _module_assign(tree, node.id), depth + 1)
        return None
    if isinstance(node, ast.Attribute):      # self.FIELDS, PDBParser.FIELDS
        return _resolve(tree, None, _module_assign(tree, node.attr), depth + 1)
    if isinstance(node, ast.Call):
        if isinstance(node.func, ast.Name) and node.func.id in ('list', 'tuple') and len(node.args) == 1:
            return _resolve(tree, fn, node.args[0], depth + 1)
        if isinstance(node.func, ast.Attribute) and node.func.attr == 'copy' and not node.args:
            return _resolve(tree, fn, node.func.value, depth + 1)
        if isinstance(node.func, ast.Attribute) and node.func.attr == 'deepcopy' and len(node.args) == 1:
            return _resolve(tree, fn, node.args[0], depth + 1)
    if isinstance(node, ast.Subscript) and isinstance(node.slice, ast.Slice) and node.slice.lower is None \
            and node.slice.upper is None and node.slice.step is None:
        return _resolve(tree, fn, node.value, depth + 1)
    return None


def _resolved_assign(tree, fn, target):
    """the literal behind `target` as used in function `fn` (local assignment or hoisted constant)"""
    local = _assigns(fn, target)
    if len(local) == 1:
        return _resolve(tree, fn, local[0].value)
    if not local:
        return _resolve(tree, None, _module_assign(tree, target))
    return None


def _const_anywhere(tree, fn, target, typ):
    node = _resolved_assign(tree, fn, target)
    if isinstance(node, ast.Constant) and isinstance(node.value, typ):
        return node.value
    raise ExtractError('constant %s not found (neither in the function nor hoisted to class/module level)' % target)


def _const_assign(fn, target, typ):
    vals = [a.value.value for a in _assigns(fn, target)
            if isinstance(a.value, ast.Constant) and isinstance(a.value.value, typ)]
    if len(vals) != 1:
        raise ExtractError('expected exactly one constant assignment to %s, found %r' % (target, vals))
    return vals[0]


def _format_calls(fn):
    """calls `formatter.format(fmt, *args)` -> (first arg node, [arg names])"""
    out = []
    for node in ast.walk(fn):
        if isinstance(node, ast.Call) and isinstance(node.func, ast.Attribute) and node.func.attr == 'format' \
                and isinstance(node.func.value, ast.Name) and node.func.value.id == 'formatter':
            names = []
            for a in node.args[1:]:
                if isinstance(a, ast.Name):
                    names.append(a.id)
                elif isinstance(a, ast.Starred):
                    names.append('*')
                else:
                    names.append(ast.dump(a))
            out.append((node.args[0], names))
    return out


def parse_spec(spec, formatter_cls):
    """format spec -> dict(fill, align, width, prec, ty, trunc) using TruncFormatter's own regular expression"""
    trunc = spec.endswith('t')
    if trunc:
        spec = spec[:-1]
    m = formatter_cls.format_spec_re.fullmatch(spec)
    if not m:
        raise ExtractError('format spec %r not understood' % spec)
    fill, align, sign, alt, zero, width, comma, prec, ty = m.group(2, 3, 4, 5, 6, 7, 8, 11, 12)
    if sign or alt or zero or comma:
        raise ExtractError('format spec %r uses an option outside the model (sign/#/0/,)' % spec)
    if align not in (None, '<', '>'):
        raise ExtractError('alignment %r outside the model' % align)
    if ty not in ('s', 'd', 'f'):
        raise ExtractError('format type %r outside the model' % ty)
    if ty in ('s', 'd') and prec is not None:
        raise ExtractError('precision on a string or integer field is outside the model')
    return {'fill': fill if fill is not None else ' ', 'align': {None: 'dflt', '<': 'left', '>': 'right'}[align],
            'width': int(width) if width else 0, 'prec': int(prec) if prec else (6 if ty == 'f' else 0),
            'ty': ty, 'trunc': trunc}


def raw_specs(fmt):
    """the format-spec strings of the replacement fields of a format string, as written in the source"""
    return [spec for lit, field, spec, conv in string.Formatter().parse(fmt) if field is not None]


def parse_format(fmt, names, formatter_cls):
    """format string + positional argument names -> list of segments"""
    segs = []
    names = list(names)
    for lit, field, spec, conv in string.Formatter().parse(fmt):
        if lit:
            segs.append(('lit', lit))
        if field is None:
            continue
        if field != '' or conv:
            raise ExtractError('only automatic field numbering without conversion is modelled: %r' % fmt)
        if not names:
            raise ExtractError('more fields than arguments in %r' % fmt)
        nm = names.pop(0)
        if nm not in FNAMES:
            raise ExtractError('argument %r of the formatter call is not a known value name' % nm)
        segs.append(('fld', nm, parse_spec(spec, formatter_cls)))
    if names:
        raise ExtractError('more arguments than fields in %r' % fmt)
    return segs


def extract(repo):
    import vermouth.pdb.pdb as pdbmod
    import vermouth.gmx.gro as gromod
    from vermouth.truncating_formatter import TruncFormatter
    res = {}
    # ---------------- PDB writer
    src = open(os.path.join(repo, 'vermouth', 'pdb', 'pdb.py')).read()
    tree = ast.parse(src)
    w = _func(tree, 'write_pdb_string')
    number_fmt = _const_anywhere(tree, w, 'number_fmt', str)
    atom_fmt = atom_names = ter_fmt = ter_names = None
    for first, names in _format_calls(w):
        lit = _resolve(tree, w, first)
        if isinstance(lit, ast.Constant) and isinstance(lit.value, str):
            if lit.value.startswith('ATOM') and atom_fmt is None:
                atom_fmt, atom_names = lit.value, names
            elif lit.value.startswith('TER') and ter_fmt is None:
                ter_fmt, ter_names = lit.value, names
    if atom_fmt is None or ter_fmt is None:
        raise ExtractError('ATOM/TER formatter calls not found in write_pdb_string')
    fmts = _assigns(w, 'fmt')
    if len(fmts) != 1:
        raise ExtractError('expected one assignment to fmt (CONECT format)')
    v = fmts[0].value
    ok = (isinstance(v, ast.BinOp) and isinstance(v.op, ast.Add) and isinstance(v.left, ast.Constant)
          and isinstance(v.right, ast.BinOp) and isinstance(v.right.op, ast.Mult)
          and isinstance(v.right.left, ast.Name) and v.right.left.id == 'number_fmt'
          and ast.unparse(v.right.right).replace(' ', '') == 'len(current)+1')
    if not ok:
        raise ExtractError('CONECT format is no longer prefix + number_fmt*(len(current)+1): ' + ast.unparse(v))
    conect_prefix = v.left.value
    chunk = None
    for node in ast.walk(w):
        if isinstance(node, ast.Assign) and isinstance(node.value, ast.Tuple) and len(node.value.elts) == 2 \
                and all(isinstance(e, ast.Subscript) and isinstance(e.slice, ast.Slice) for e in node.value.elts):
            a, b = node.value.elts
            if isinstance(a.slice.upper, ast.Constant) and isinstance(b.slice.lower, ast.Constant) \
                    and a.slice.upper.value == b.slice.lower.value and a.slice.lower is None and b.slice.upper is None:
                chunk = a.slice.upper.value
    if not isinstance(chunk, int) or chunk <= 0:
        raise ExtractError('CONECT chunking todo[:n], todo[n:] not found')
    end_line = None
    for node in ast.walk(w):
        if isinstance(node, ast.Call) and isinstance(node.func, ast.Attribute) and node.func.attr == 'append' \
                and node.args and isinstance(node.args[0], ast.Constant) and isinstance(node.args[0].value, str):
            end_line = node.args[0].value
    if end_line is None:
        raise ExtractError('END line not found')
    joiner = [n.func.value.value for n in ast.walk(w)
              if isinstance(n, ast.Call) and isinstance(n.func, ast.Attribute) and n.func.attr == 'join'
              and isinstance(n.func.value, ast.Constant)]
    if joiner != ['\n']:
        raise ExtractError('records are no longer joined with a newline')
    res['atomFmt'] = parse_format(atom_fmt, atom_names, TruncFormatter)
    res['terFmt'] = parse_format(ter_fmt, ter_names, TruncFormatter)
    res['conectPrefix'] = conect_prefix
    res['conectNum'] = parse_spec(string.Formatter().parse(number_fmt).__next__()[2], TruncFormatter)
    if list(string.Formatter().parse(number_fmt))[0][0] or len(list(string.Formatter().parse(number_fmt))) != 1:
        raise ExtractError('number_fmt is not a single field')
    res['conectChunk'] = chunk
    res['endLine'] = end_line
    # ---------------- PDB reader
    at = _func(tree, '_atom', 'PDBParser')
    fl = _resolved_assign(tree, at, 'fields')
    if not isinstance(fl, (ast.List, ast.Tuple)):
        raise ExtractError('PDBParser._atom fields table not found')
    rfields = []
    for t in fl.elts:
        if not (isinstance(t, ast.Tuple) and len(t.elts) == 3 and isinstance(t.elts[0], ast.Constant)
                and isinstance(t.elts[1], ast.Name) and isinstance(t.elts[2], ast.Constant)):
            raise ExtractError('unexpected entry in PDBParser._atom fields: ' + ast.unparse(t))
        nm, ty, wd = t.elts[0].value, t.elts[1].id, t.elts[2].value
        if nm and nm not in FNAMES:
            raise ExtractError('unknown reader field %r' % nm)
        if ty not in ('int', 'str', 'float'):
            raise ExtractError('unknown reader type %r' % ty)
        rfields.append((nm or None, ty, int(wd)))
    res['pdbReaderFields'] = rfields
    dc = _func(tree, 'do_conect', 'PDBParser')
    res['conectStart'] = _const_anywhere(tree, dc, 'start', int)
    res['conectWidth'] = _const_anywhere(tree, dc, 'width', int)
    # ---------------- GRO writer
    gsrc = open(os.path.join(repo, 'vermouth', 'gmx', 'gro.py')).read()
    gtree = ast.parse(gsrc)
    gw = _func(gtree, 'write_gro')
    default_precision = inspect.signature(gromod.write_gro).parameters['precision'].default
    # module-level literal constants may take part in the construction of the format string
    consts = {}
    for sub in gtree.body:
        if isinstance(sub, ast.Assign) and len(sub.targets) == 1 and isinstance(sub.targets[0], ast.Name):
            try:
                consts[sub.targets[0].id] = ast.literal_eval(sub.value)
            except Exception:
                pass

    def gro_format_for(precision):
        ns = dict(consts)
        ns['precision'] = precision
        for tgt in ('pos_format_string', 'format_string'):
            asg = _assigns(gw, tgt)
            if len(asg) > 1:
                raise ExtractError('expected one assignment to %s in write_gro' % tgt)
            if asg:
                exec(compile(ast.Module(body=[asg[0]], type_ignores=[]), '<gro>', 'exec'), {'__builtins__': {}}, ns)
        if not isinstance(ns.get('format_string'), str):
            raise ExtractError('format_string of write_gro not found')
        return ns['format_string']
    gro_fmt = gro_format_for(default_precision)
    gro_names = None
    for first, names in _format_calls(gw):
        if isinstance(first, ast.Name) and first.id == 'format_string':
            gro_names = names
    if gro_names is None:
        raise ExtractError('atom formatter call not found in write_gro')
    res['groFmt'] = parse_format(gro_fmt, gro_names, TruncFormatter)
    res['groDefaultPrecision'] = default_precision
    res['groFmts'] = [(p, parse_format(gro_format_for(p), gro_names, TruncFormatter)) for p in GRO_PRECISIONS]
    res['gro_strings'] = {p: gro_format_for(p) for p in GRO_PRECISIONS}
    # ---------------- GRO reader
    gr = _func(gtree, 'read_gro')

    def lit_list(target):
        lit = _resolved_assign(gtree, gr, target)
        if not isinstance(lit, (ast.List, ast.Tuple)):
            raise ExtractError('read_gro %s table not found' % target)
        out = []
        for e in lit.elts:
            if isinstance(e, ast.Constant):
                out.append(e.value)
            elif isinstance(e, ast.Name):
                out.append(e.id)
            else:
                raise ExtractError('unexpected entry in %s' % target)
        return out
    res['groNames'] = lit_list('field_names')
    res['groTypes'] = lit_list('field_types')
    res['groWidths'] = lit_list('field_widths')
    vel_names, dot_from = None, None
    for node in ast.walk(gr):
        if isinstance(node, ast.Call) and isinstance(node.func, ast.Attribute) and node.func.attr == 'extend' \
                and isinstance(node.func.value, ast.Name) and node.func.value.id == 'field_names' \
                and isinstance(_resolve(gtree, gr, node.args[0]), (ast.List, ast.Tuple)):
            vel_names = [e.value for e in _resolve(gtree, gr, node.args[0]).elts]
        if isinstance(node, ast.Call) and isinstance(node.func, ast.Attribute) and node.func.attr == 'find' \
                and len(node.args) == 2 and isinstance(node.args[1], ast.Constant):
            dot_from = node.args[1].value
    # has_vel = first_line[a:].count('.') == 6   (a = 0 when the whole line is counted)
    count_from = None
    for node in ast.walk(gr):
        if isinstance(node, ast.Call) and isinstance(node.func, ast.Attribute) and node.func.attr == 'count' \
                and len(node.args) == 1 and isinstance(node.args[0], ast.Constant) and node.args[0].value == '.':
            v = node.func.value
            if isinstance(v, ast.Name):
                count_from = 0
            elif isinstance(v, ast.Subscript) and isinstance(v.slice, ast.Slice) and v.slice.upper is None \
                    and v.slice.step is None and isinstance(v.slice.lower, ast.Constant) \
                    and isinstance(v.slice.lower.value, int) and v.slice.lower.value >= 0:
                count_from = v.slice.lower.value
    if count_from is None:
        raise ExtractError("read_gro: the test `....count('.') == 6` for velocities was not found")
    res['groCountFrom'] = count_from
    if vel_names is None or dot_from is None:
        raise ExtractError('read_gro velocity names / dot search start not found')
    for n in res['groNames'] + vel_names:
        if n not in FNAMES:
            raise ExtractError('unknown GRO reader field %r' % n)
    res['groVelNames'] = vel_names
    res['groDotFrom'] = dot_from
    res['raw'] = {'atom': raw_specs(atom_fmt), 'ter': raw_specs(ter_fmt), 'conect': raw_specs(number_fmt)[0],
                  'gro': raw_specs(gro_fmt), 'groFmts': [(p, raw_specs(gro_format_for(p))) for p in GRO_PRECISIONS]}
    # ---------------- the rest of PDBParser: records bound to _skip, the cryst1 column table, the MODEL columns
    cls = [n for n in ast.walk(tree) if isinstance(n, ast.ClassDef) and n.name == 'PDBParser']
    if len(cls) != 1:
        raise ExtractError('class PDBParser not found')
    skips = []
    for sub in cls[0].body:
        if isinstance(sub, ast.Assign) and len(sub.targets) == 1 and isinstance(sub.targets[0], ast.Name) \
                and isinstance(sub.value, ast.Name) and sub.value.id == '_skip':
            skips.append(sub.targets[0].id)
    if not skips:
        raise ExtractError('no record bound to _skip in PDBParser')
    res['pdbSkipRecords'] = skips
    # what dispatch() reaches for the record names the model gives a meaning
    import vermouth.pdb.pdb as _pm
    P = _pm.PDBParser
    same = lambda a, b: getattr(a, '__func__', a) is getattr(b, '__func__', b)
    if not (same(P.atom, P._atom) and same(P.hetatm, P._atom) and same(P.ter, P._finish_molecule)
            and same(P.end, P._finish_molecule) and same(P.endmdl, P._finish_molecule)
            and all(same(getattr(P, n), P._skip) for n in skips)):
        raise ExtractError('PDBParser record table differs from the model (atom/hetatm/ter/end/endmdl/_skip)')
    cr = _func(tree, 'cryst1', 'PDBParser')
    cfl = _resolved_assign(tree, cr, 'fields')
    if not isinstance(cfl, (ast.List, ast.Tuple)):
        raise ExtractError('PDBParser.cryst1 fields table not found')
    cfields = []
    for t in cfl.elts:
        if not (isinstance(t, ast.Tuple) and len(t.elts) == 3 and isinstance(t.elts[0], ast.Constant)
                and isinstance(t.elts[1], ast.Name) and isinstance(t.elts[2], ast.Constant)):
            raise ExtractError('unexpected entry in PDBParser.cryst1 fields: ' + ast.unparse(t))
        if t.elts[1].id not in ('int', 'str', 'float'):
            raise ExtractError('unknown reader type %r' % t.elts[1].id)
        cfields.append((t.elts[0].value, t.elts[1].id, int(t.elts[2].value)))
    res['crystFields'] = cfields
    md = _func(tree, 'model', 'PDBParser')
    msl = [n for n in ast.walk(md) if isinstance(n, ast.Call) and isinstance(n.func, ast.Name) and n.func.id == 'int'
           and len(n.args) == 1 and isinstance(n.args[0], ast.Subscript) and isinstance(n.args[0].slice, ast.Slice)
           and isinstance(n.args[0].slice.lower, ast.Constant) and isinstance(n.args[0].slice.upper, ast.Constant)]
    if len(msl) != 1:
        raise ExtractError('int(line[a:b]) of PDBParser.model not found')
    res['modelStart'] = msl[0].args[0].slice.lower.value
    res['modelStop'] = msl[0].args[0].slice.upper.value
    # ---------------- write_gro: the velocity format string for every precision
    def gro_vel_format_for(precision):
        ns = dict(consts)
        ns['precision'] = precision
        asg = sorted(_assigns(gw, 'vel_format_string'), key=lambda a: a.lineno)
        if not asg:
            raise ExtractError('vel_format_string of write_gro not found')
        for a in asg:
            exec(compile(ast.Module(body=[a], type_ignores=[]), '<gro>', 'exec'), {'__builtins__': {}}, ns)
        if not isinstance(ns.get('vel_format_string'), str):
            raise ExtractError('vel_format_string of write_gro is not a string')
        return ns['vel_format_string']
    vel_names = None
    for first, names in _format_calls(gw):
        if isinstance(first, ast.Name) and first.id == 'vel_format_string':
            vel_names = names
    if vel_names is None:
        raise ExtractError('velocity formatter call not found in write_gro')
    res['groVelFmts'] = [(p, parse_format(gro_vel_format_for(p), vel_names, TruncFormatter)) for p in GRO_PRECISIONS]
    res['gro_vel_strings'] = {p: gro_vel_format_for(p) for p in GRO_PRECISIONS}
    res['strings'] = {'atom': atom_fmt, 'ter': ter_fmt, 'number': number_fmt, 'conect_prefix': conect_prefix,
                      'gro': gro_fmt}
    return res


def runtime_formats():
    """format strings the live writers hand to TruncFormatter on a two-atom probe system"""
    import numpy as np
    import tempfile
    import vermouth.pdb.pdb as pdbmod
    import vermouth.gmx.gro as gromod
    from vermouth.molecule import Molecule
    from vermouth.system import System
    seen = {'pdb': [], 'gro': []}
    m = Molecule()
    for i in range(2):
        m.add_node(i, atomname='C', resname='X', resid=1, chain='A', position=np.array([0., 0., 0.]), atomid=i + 1)
    m.add_edge(0, 1)
    s = System()
    s.add_molecule(m)
    for mod, key in ((pdbmod, 'pdb'), (gromod, 'gro')):
        orig = mod.TruncFormatter

        class Rec(orig):
            def format(self, fmt, *a, _key=key, **k):
                seen[_key].append(fmt)
                return super().format(fmt, *a, **k)
        mod.TruncFormatter = Rec
        try:
            if key == 'pdb':
                mod.write_pdb_string(s)
            else:
                with tempfile.TemporaryDirectory() as d:
                    mod.write_gro(s, os.path.join(d, 'p.gro'), defer_writing=False)
        finally:
            mod.TruncFormatter = orig
    return seen


def check_runtime(res):
    seen = runtime_formats()
    st = res['strings']
    want_pdb = {st['atom'], st['ter'], st['conect_prefix'] + st['number'] * 2}
    if set(seen['pdb']) != want_pdb:
        raise ExtractError('format strings used at run time by write_pdb_string %r differ from the extracted ones %r'
                           % (sorted(set(seen['pdb'])), sorted(want_pdb)))
    if st['gro'] not in seen['gro']:
        raise ExtractError('format string used at run time by write_gro differs from the extracted one')


# ---------------------------------------------------------------------------- rendering
def lchar(c):
    if c == "'":
        return "'\\''"
    if c == '\\':
        return "'\\\\'"
    if 32 <= ord(c) < 127:
        return "'%s'" % c
    return '(Char.ofNat %d)' % ord(c)


def lchars(s):
    return '[' + ', '.join(lchar(c) for c in s) + ']'


def llist(strs):
    return '[' + ', '.join(lchars(x) for x in strs) + ']'


def lspec(sp):
    return '⟨%s, .%s, %d, %d, .%s, %s⟩' % (lchar(sp['fill']), sp['align'], sp['width'], sp['prec'], sp['ty'],
                                            'true' if sp['trunc'] else 'false')


def lsegs(segs):
    out = []
    for s in segs:
        if s[0] == 'lit':
            out.append('.lit ' + lchars(s[1]))
        else:
            out.append('.fld .%s %s' % (s[1], lspec(s[2])))
    return '[\n    ' + ',\n    '.join(out) + ']'


def render_lean_x(res):
    cf = ',\n    '.join('⟨%s, .%s, %d⟩' % (lchars(n), t, w) for n, t, w in res['crystFields'])
    return '''import VermouthModel.C16_Full
import Generated.C16Layout
/-! GENERATED by harness/c16_extract.py from the repository source on every run of the C16 check.
Do not edit: the record names PDBParser binds to `_skip`, the column table of `PDBParser.cryst1`, the columns
`PDBParser.model` reads the model number from, and the velocity format strings of `write_gro`. -/
namespace C16.Layout
open C16

def pdbSkipRecords : List (List Char) := %s
def crystFields : List CField := [
    %s]
def modelStart : Nat := %d
def modelStop : Nat := %d

def pdbX : PdbLayoutX :=
  { base := pdb, skipRecords := pdbSkipRecords, crystFields := crystFields, modelStart := modelStart,
    modelStop := modelStop }

/-- the velocity part of an atom line of `write_gro` for the tabulated values of `precision` -/
def groVelFmts : List (Nat × List Seg) := [
%s]

end C16.Layout
''' % (llist(res['pdbSkipRecords']), cf, res['modelStart'], res['modelStop'],
       ',\n'.join('  (%d, %s)' % (p, lsegs(sg)) for p, sg in res['groVelFmts']))


def render_lean(res):
    rf = ',\n    '.join('⟨%s, .%s, %d⟩' % ('some .' + n if n else 'none', t, w) for n, t, w in res['pdbReaderFields'])
    return '''import VermouthModel.C16
/-! GENERATED by harness/c16_extract.py from the repository source on every run of the C16 check.
Do not edit: writer format strings (write_pdb_string, write_gro) and reader column tables
(PDBParser._atom, PDBParser.do_conect, read_gro). -/
namespace C16.Layout
open C16

def atomFmt : List Seg := %s

def terFmt : List Seg := %s

def conectPrefix : List Char := %s
def conectNum : Spec := %s
def conectChunk : Nat := %d
def endLine : List Char := %s

def pdbReaderFields : List RField := [
    %s]
def conectStart : Nat := %d
def conectWidth : Nat := %d

def pdb : PdbLayout :=
  { atomFmt := atomFmt, terFmt := terFmt, conectPrefix := conectPrefix, conectNum := conectNum,
    conectChunk := conectChunk, endLine := endLine, readerFields := pdbReaderFields,
    conectStart := conectStart, conectWidth := conectWidth }

def groFmt : List Seg := %s

/-- the format string of `write_gro` for the values of its `precision` parameter the histories use -/
def groFmts : List (Nat × List Seg) := [
%s]
def groDefaultPrecision : Nat := %d

def groNames : List FName := [%s]
def groTypes : List RTy := [%s]
def groWidths : List Nat := [%s]
def groVelNames : List FName := [%s]
def groDotFrom : Nat := %d
def groCountFrom : Nat := %d

def gro : GroLayout :=
  { atomFmt := groFmt, fieldNames := groNames, fieldTypes := groTypes, fieldWidths := groWidths,
    velNames := groVelNames, velTypes := [.float, .float, .float], dotFrom := groDotFrom,
    countFrom := groCountFrom }

/-! the format-spec STRINGS of the replacement fields, exactly as they stand in the source: the `Spec`s
above are what `C16.specOfString` (regular expression of TruncFormatter) makes of them — `layout_specs_parse` -/
def atomRaw : List (List Char) := %s
def terRaw : List (List Char) := %s
def conectRaw : List Char := %s
def groRaw : List (List Char) := %s
def groFmtsRaw : List (Nat × List (List Char)) := [
%s]

end C16.Layout
''' % (lsegs(res['atomFmt']), lsegs(res['terFmt']), lchars(res['conectPrefix']), lspec(res['conectNum']),
       res['conectChunk'], lchars(res['endLine']), rf, res['conectStart'], res['conectWidth'],
       lsegs(res['groFmt']), ',\n'.join('  (%d, %s)' % (p, lsegs(sg)) for p, sg in res['groFmts']),
       res['groDefaultPrecision'], ', '.join('.' + n for n in res['groNames']),
       ', '.join('.' + t for t in res['groTypes']), ', '.join(str(w) for w in res['groWidths']),
       ', '.join('.' + n for n in res['groVelNames']), res['groDotFrom'], res['groCountFrom'],
       llist(res['raw']['atom']), llist(res['raw']['ter']), lchars(res['raw']['conect']), llist(res['raw']['gro']),
       ',\n'.join('  (%d, %s)' % (p, llist(r)) for p, r in res['raw']['groFmts']))
