#!/venv/bin/python
"""C14 - every unrecognised atom is explained by a known modification or reported.

Model: lean/VermouthModel/C14.lean (find_ptm_atoms, allowed_ptms order, _cover_graph recursion,
identify_ptms, fix_ptm); theorems: lean/VermouthProps/C14.lean.  networkx VF2 is NOT transcribed:
the placements the real GraphMatcher produces are recorded, handed to the model in the matcher's
order, and compared as sets with the verified reference matcher (Iso.allIsosP) inside the driver
(`candsOk`).

Per case: a molecule (residue chain with attachments) and a toy modification library are built as
real vermouth objects, the real fix_ptm runs with recording wrappers around identify_ptms /
_cover_graph / GraphMatcher, the same input goes to the Lean driver, both canonical results are
compared, and an independent Python statement of the property (own brute-force placement
enumeration and exact-cover search) is evaluated on the real result.
"""
import copy
import glob
import itertools
import logging
from common import *

chk = Check('C14')
chk.extra['rule'] = ('[streams added in the extension round: identify_ptms called directly with annotated=None; processor histories = one '
                     'CanonicalizeModifications instance over 2-3 molecules whose force fields have equal / different names and different '
                     'modification sets or are one object edited in between, run_molecule and run_system; real charmm residues with the shipped '
                     'charmm modifications compared with the model; warning records with residue names and atom names compared] residue chains (2-4 residues, template atoms N CA C O CB [CG]) with 0-3 attachments drawn '
                     'from a toy library (N-ter/NH, OXT/COOH, phosphate with and without H, methyl with replace, '
                     'bridges over two residues, ring on CA+CB with and without the CA-CB edge, anchor-only, random '
                     'patterns and their sub-patterns), attachments with wrong element / extra atom / extra bond, '
                     'several on one residue, PTM atoms with a foreign resid, residues pre-labelled by `modify`; a second '
                     'stream of two-iteration interactions (groups sharing a residue with keys [r], [r,r], [r,s]; '
                     'known and unknown attachments in both processing orders); a stream of sites where a modification fits '
                     'only with an extra bond among the matched atoms next to a genuine site (rings); a stream where a '
                     'template atom carries the name of an added atom of a larger modification (stand-ins); a stream of '
                     'residues with a modification annotated on the input plus further unrecognised groups on the same '
                     'or the bonded residue, keys ordered both ways; '
                     'a case is non-trivial if it has >= 1 flagged atom and >= 2 candidate placements in one '
                     'iteration; distinct = distinct protocol line')
chk.trusted.append('harness/c14.py: object construction, recording wrappers, canonicalisation, Python oracle '
                   '(own brute-force placement enumeration and exact-cover search)')
chk.lean(['VermouthProps.C14', 'VermouthProps.C14_Whole'], 'driver_c14')

import networkx as nx
import vermouth
from vermouth.molecule import Molecule, Modification
from vermouth.forcefield import ForceField
import vermouth.processors.canonicalize_modifications as canmod

quiet_vermouth_logs()
SKIP_ATTRS = {'resid', 'PTM_atom', 'modifications', 'modification', 'graph', 'atomid'}


# ----------------------------------------------------------------------------
# case spec <-> real objects
# ----------------------------------------------------------------------------
# spec = {'atoms': [[key, resid, ptm, hasModKey, [mod idx], {attr: str|None}]], 'edges': [[u, v]],
#         'mods': [{'name': str, 'atoms': [[key, ptm, {attr: str|None}, replace|None]], 'edges': [[u, v]]}]}

def midx(mods, g):
    """index of the modification object `g` in the library of the molecule's own force field; -1 if the object
    does not belong to it (a modification of another force field)"""
    for i, m in enumerate(mods):
        if m is g:
            return i
    return -1


def build(spec, ff=None, ffname='c14'):
    if ff is None:
        ff = ForceField(name=ffname)
    else:
        ff.modifications.clear()      # the same ForceField object, its modifications edited between two uses
    mods = []
    for ms in spec['mods']:
        mod = Modification(force_field=ff)
        mod.name = ms['name']
        for key, ptm, attrs, rep in ms['atoms']:
            kw = dict(attrs)
            kw['PTM_atom'] = bool(ptm)
            if rep is not None:
                kw['replace'] = dict(rep)
            mod.add_node(key, **kw)
        mod.add_edges_from(ms['edges'])
        ff.modifications[ms['name']] = mod
        mods.append(mod)
    mol = Molecule(force_field=ff)
    for key, resid, ptm, hasmod, mlist, attrs in spec['atoms']:
        kw = dict(attrs)
        kw['resid'] = resid
        kw['atomid'] = key + 1
        if ptm:
            kw['PTM_atom'] = True
        if hasmod:
            kw['modification'] = ['x']
        if mlist:
            kw['modifications'] = [mods[i] for i in mlist]
        mol.add_node(key, **kw)
    mol.add_edges_from(spec['edges'])
    return ff, mods, mol


def attrs_list(d):
    return sorted([k, v] for k, v in d.items() if k not in SKIP_ATTRS and (v is None or isinstance(v, str)))


def proto_line(spec, given=None, sortmods=0):
    atoms = [[k, r, int(bool(p)), int(bool(h)), list(ml), sorted([a, v] for a, v in at.items())]
             for k, r, p, h, ml, at in spec['atoms']]
    mods = [[m['name'],
             [[k, int(bool(p)), sorted([a, v] for a, v in at.items()),
               None if rep is None else [[a, v] for a, v in rep.items()]] for k, p, at, rep in m['atoms']],
             [list(e) for e in m['edges']]] for m in spec['mods']]
    edges = [list(e) for e in spec['edges']]
    if given is None:
        return line('fixptmref', atoms, edges, mods)
    return line('fixptm', atoms, edges, mods, given, sortmods)


# ----------------------------------------------------------------------------
# recording run of the real code
# ----------------------------------------------------------------------------
class Recorder(logging.Handler):
    def __init__(self):
        super().__init__(level=1)
        self.records = []

    def emit(self, record):
        self.records.append(record)


class RecGM(nx.isomorphism.GraphMatcher):
    """GraphMatcher that remembers the placements it produces (in its own order)."""
    created = []
    in_cover = 0      # > 0 while the real _cover_graph is running: only then are candidate lists recorded

    def __init__(self, G1, G2, node_match=None, edge_match=None):
        super().__init__(G1, G2, node_match=node_match, edge_match=edge_match)
        self.is_ptm = node_match is canmod.ptm_node_matcher
        self.init_list = None
        self.used_list = None     # what the real code iterated over (first call), whatever method it used
        self.unstable = False
        if self.is_ptm:
            fresh = nx.isomorphism.GraphMatcher(G1, G2, node_match=node_match)
            self.init_list = [dict(m) for m in fresh.subgraph_isomorphisms_iter()]
        RecGM.created.append(self)

    def _record(self, out):
        if self.is_ptm and RecGM.in_cover > 0:
            if self.used_list is None:
                self.used_list = out
            elif out != self.used_list:
                self.unstable = True
        return iter(out)

    def subgraph_isomorphisms_iter(self):
        return self._record([dict(m) for m in super().subgraph_isomorphisms_iter()])

    def subgraph_monomorphisms_iter(self):
        return self._record([dict(m) for m in super().subgraph_monomorphisms_iter()])

    def isomorphisms_iter(self):
        return self._record([dict(m) for m in super().isomorphisms_iter()])

    def placements(self):
        """the candidate list the real code worked with (the induced list computed at creation if
        the code never asked)"""
        return self.used_list if self.used_list is not None else self.init_list


class NxProxy:
    """stands in for the module `nx` inside canonicalize_modifications"""
    class isomorphism:
        GraphMatcher = RecGM
        categorical_node_match = staticmethod(nx.isomorphism.categorical_node_match)

    def __getattr__(self, name):
        return getattr(nx, name)


def run_real(spec, mods, mol, processor=None, via_system=False):
    """Run fix_ptm with wrappers; returns dict(status, iters, records).  `processor`: an existing
    CanonicalizeModifications instance (histories); `via_system`: call run_system on a System holding `mol`."""
    iters = []
    depth = [0]
    top_len = [None]
    orig_identify, orig_cover, orig_nx = canmod.identify_ptms, canmod._cover_graph, canmod.nx

    def cover_wrap(graph, to_cover, fragments, *rest, **kw):
        depth[0] += 1
        RecGM.in_cover += 1
        try:
            out = orig_cover(graph, to_cover, fragments, *rest, **kw)
        finally:
            depth[0] -= 1
            RecGM.in_cover -= 1
        if depth[0] == 0:
            top_len[0] = len(out)
        return out

    def identify_wrap(residue, residue_ptms, known_ptms, *rest, **kw):
        known_ptms = list(known_ptms)
        snap = {idx: (residue.nodes[idx].get('atomname'), residue.nodes[idx].get('element'),
                      bool(residue.nodes[idx].get('PTM_atom', False))) for idx in residue}
        edges = sorted(tuple(sorted(e)) for e in residue.edges)
        groups = [(set(a), set(b)) for a, b in residue_ptms]
        it = {'snap': snap, 'edges': edges, 'groups': groups,
              'options': None,
              'unstable': False, 'result': None, 'used': None,
              'key': sorted(mol.nodes[a]['resid'] for a in groups[0][1]) if groups else []}
        iters.append(it)
        top_len[0] = None
        try:
            out = orig_identify(residue, residue_ptms, known_ptms, *rest, **kw)
        finally:
            it['unstable'] = any(gm.unstable for _, gm in known_ptms)
            it['options'] = [(midx(mods, g), [sorted(m.items()) for m in gm.placements()]) for g, gm in known_ptms]
        ncov = top_len[0] or 0
        entries = [(midx(mods, p), sorted(m.items())) for p, m in out]
        it['used'] = entries[:len(entries) - ncov]
        it['result'] = entries[len(entries) - ncov:]
        return out

    rec = Recorder()
    lg = logging.getLogger('vermouth')
    lg.addHandler(rec)
    old_level = lg.level
    lg.setLevel(1)
    canmod.identify_ptms, canmod._cover_graph, canmod.nx = identify_wrap, cover_wrap, NxProxy()
    RecGM.created = []
    RecGM.in_cover = 0
    status = 'ok'
    try:
        proc = processor if processor is not None else canmod.CanonicalizeModifications()
        if via_system:
            system = vermouth.System(force_field=mol.force_field)
            system.add_molecule(mol)
            proc.run_system(system)
            if len(system.molecules) != 1 or system.molecules[0] is not mol:
                raise AssertionError('run_system replaced the molecule')
        else:
            proc.run_molecule(mol)
    except KeyError:
        status = 'crash-keyerror'
    except AssertionError:
        status = 'crash-assert'
    except RecursionError:
        status = 'crash-recursion'
    except Exception as e:  # pylint: disable=broad-except
        status = 'crash-' + type(e).__name__
    finally:
        canmod.identify_ptms, canmod._cover_graph, canmod.nx = orig_identify, orig_cover, orig_nx
        lg.removeHandler(rec)
        lg.setLevel(old_level)
    return {'status': status, 'iters': iters, 'records': rec.records}


def enc_entry(e):
    return enc([e[0], [list(q) for q in e[1]]])


def warnings_of(run):
    out = []
    for r in run['records']:
        if r.levelno >= logging.WARNING:
            msg = r.getMessage()
            m = re.search(r"involving atoms \[(.*)\]\s*$", msg)
            ids = [int(x) - 1 for x in re.findall(r"'(-?\d+)-", m.group(1))] if m else None
            out.append({'level': r.levelno, 'type': getattr(r, 'type', None), 'name': r.name, 'atoms': ids, 'msg': msg})
    return out


def warn_rec(w):
    """[residue names, [[key, atomname as printed]]] of one warning record"""
    m = re.search(r"for residues \[(.*?)\], involving atoms \[(.*)\]\s*$", w['msg'])
    if not m:
        return [[], []]
    res = re.findall(r"'([^']*)'", m.group(1))
    ats = sorted([int(a) - 1, n] for a, n in re.findall(r"'(-?\d+)-([^']*)'", m.group(2)))
    return [res, ats]


def impl_canon(spec, mods, mol, run, sortmods):
    if run['status'] != 'ok':
        return run['status']
    logs = []
    for it in run['iters']:
        if it['result'] is None:
            res = None
        else:
            used = sorted(enc_entry(e) for e in it['used'])
            res = '[ ' + ('[ ' + ' '.join(used) + ' ]' if used else '[ ]') + ' ' \
                  + ('[ ' + ' '.join(enc_entry(e) for e in it['result']) + ' ]' if it['result'] else '[ ]') + ' ]'
        logs.append('[ ' + ' '.join([enc(it['key']), enc([i for i, _ in it['options']]), '1', res or '-']) + ' ]')
    atoms = []
    for k in sorted(mol.nodes):
        nd = mol.nodes[k]
        ml = [midx(mods, m) for m in nd.get('modifications', [])]
        if sortmods:
            ml = sorted(ml)
        atoms.append([k, int(bool(nd.get('PTM_atom', False))), ml, attrs_list(nd)])
    wl = warnings_of(run)
    warns = [sorted(w['atoms'] or []) for w in wl]
    removed = sorted(a[0] for a in spec['atoms'] if a[0] not in mol.nodes)
    return ('ok ' + ('[ ' + ' '.join(logs) + ' ]' if logs else '[ ]') + ' ' + enc(atoms) + ' ' + enc(warns)
            + ' ' + enc([warn_rec(w) for w in wl]) + ' removed=' + enc(removed))


# ----------------------------------------------------------------------------
# independent statement of the property
# ----------------------------------------------------------------------------
def py_placements(snap, edges, mod):
    """All induced placements of `mod` in the residue snapshot: anchors by name, PTM atoms by
    element.  Plain backtracking, independent of networkx and of the Lean reference."""
    eset = set(edges)
    madj = {frozenset(e) for e in mod.edges}
    mnodes = list(mod.nodes)
    out = []

    def ok_node(p, t):
        mp = mod.nodes[p]
        name, elem, ptm = snap[t]
        if bool(mp.get('PTM_atom', False)) != ptm:
            return False
        return elem == mp.get('element') if ptm else name == mp.get('atomname')

    def rec(i, assign):
        if i == len(mnodes):
            out.append({t: p for p, t in assign.items()})
            return
        p = mnodes[i]
        for t in snap:
            if t in assign.values() or not ok_node(p, t):
                continue
            good = True
            for q, s in assign.items():
                if (frozenset((p, q)) in madj) != (tuple(sorted((s, t))) in eset):
                    good = False
                    break
            if good:
                assign[p] = t
                rec(i + 1, assign)
                del assign[p]
    rec(0, {})
    return out


def py_name_placements(snap, edges, atoms, mod):
    """induced placements of `mod` inside the atoms `atoms`, nodes matched by atom name only"""
    sub = {t: v for t, v in snap.items() if t in atoms}
    eset = set(edges)
    madj = {frozenset(e) for e in mod.edges}
    mnodes = list(mod.nodes)
    out = []

    def rec(i, assign):
        if i == len(mnodes):
            out.append({t: p for p, t in assign.items()})
            return
        p = mnodes[i]
        for t in sub:
            if t in assign.values() or sub[t][0] != mod.nodes[p].get('atomname', ''):
                continue
            if all((frozenset((p, q)) in madj) == (tuple(sorted((s_, t))) in eset) for q, s_ in assign.items()):
                assign[p] = t
                rec(i + 1, assign)
                del assign[p]
    rec(0, {})
    return out


def exact_cover_exists(nonptm, to_cover, placements):
    """Is there a set of placements, each inside nonptm | to_cover, covering every atom of
    to_cover, PTM atoms exactly once?"""
    to_cover = frozenset(to_cover)
    cands = [frozenset(p) for p in placements]
    cands = list({c for c in cands if c <= (nonptm | to_cover) and c & to_cover})

    def rec(rest, usedptm):
        if not rest:
            return True
        a = min(rest)
        for c in cands:
            if a in c and not ((c - nonptm) & usedptm):
                if rec(rest - c, usedptm | (c - nonptm)):
                    return True
        return False
    return rec(to_cover, frozenset())


def explained_by_known(snap, edges, groups, annot, mods):
    """A group annotated on the input is explained when each annotated modification has an induced placement
    by atom name inside the group and these placements cover the group; the other groups are explained when an
    exact cover by induced placements (anchors by name, added atoms by element) exists."""
    plain = [g for g in groups if not any(annot.get(a) for a in g[0])]
    noted = [g for g in groups if any(annot.get(a) for a in g[0])]
    explained = True
    for g in noted:
        wanted = []
        for a in sorted(g[0]):
            for mi in annot.get(a) or []:
                if mi not in wanted:
                    wanted.append(mi)
        covered = set()
        for mi in wanted:
            pls = py_name_placements(snap, edges, g[0], mods[mi])
            if not pls:
                explained = False
            for pl in pls:
                covered |= set(pl)
        if covered != set(g[0]):
            explained = False
    if explained and plain:
        nonptm = frozenset(t for t, v in snap.items() if not v[2])
        tc = set()
        for g in plain:
            tc |= g[0] | g[1]
        allp = []
        for mod in mods:
            allp += py_placements(snap, edges, mod)
        explained = exact_cover_exists(nonptm, tc, [set(p) for p in allp])
    return explained


def oracle(spec, mods, mol0, mol, run):
    errs = []
    flagged = [k for k, r, p, h, ml, at in spec['atoms'] if p]
    if run['status'] != 'ok':
        if flagged or any(ml for k, r, p, h, ml, at in spec['atoms']):
            errs.append('fix_ptm raised (%s): flagged atoms %s are neither labelled nor removed with a warning'
                        % (run['status'], flagged[:6]))
        return errs
    # every modification the run worked with belongs to the force field of the molecule
    foreign = set()
    for it in run['iters']:
        for mi, _ in (it['options'] or []) + (it['used'] or []) + (it['result'] or []):
            if mi < 0:
                foreign.add('a candidate / identified modification')
    for k in mol.nodes:
        for m in mol.nodes[k].get('modifications', []):
            if midx(mods, m) < 0:
                foreign.add('label %s on atom %d' % (getattr(m, 'name', '?'), k))
    if foreign:
        return ['a modification that the force field of the molecule does not know was used: %s (known: %s)'
                % (sorted(foreign)[:3], [m.name for m in mods])]
    warns = warnings_of(run)
    for w in warns:
        if w['type'] != 'unknown-input' or not w['name'].startswith('vermouth'):
            errs.append('warning %r has type %r on logger %r' % (w['msg'][:80], w['type'], w['name']))
    warned = set()
    for w in warns:
        if w['type'] == 'unknown-input' and w['name'].startswith('vermouth') and w['level'] == logging.WARNING:
            warned.update(w['atoms'] or [])
    placed = {}
    for ii, it in enumerate(run['iters']):
        if it['unstable']:
            errs.append('the matcher returned different placement lists on repeated calls')
        for (mi, pl) in (it['used'] or []) + (it['result'] or []):
            for a, _ in pl:
                placed.setdefault(a, []).append((ii, mi, tuple(pl)))
    # roles inside every placement chosen by the cover search: an added (PTM) atom of the modification
    # is played by a flagged atom of the iteration's groups only, an anchor by an unflagged atom that
    # carries the anchor's name; the placement maps every node of the modification
    flagged_set = set(flagged)
    for ii, it in enumerate(run['iters']):
        group_atoms = set()
        for g in it['groups']:
            group_atoms |= g[0]
        for (mi, pl) in (it['result'] or []):
            mod = mods[mi]
            if {q for _, q in pl} != set(mod.nodes) or len({a for a, _ in pl}) != len(pl):
                errs.append('placement of %s on %s does not map every node of the modification once'
                            % (mod.name, [x for x, _ in pl]))
            for a, q in pl:
                mnode = mod.nodes[q]
                if mnode.get('PTM_atom'):
                    if a not in flagged_set:
                        errs.append('template atom %d (%s) plays the added atom %s of %s'
                                    % (a, it['snap'].get(a, ('?',))[0], mnode.get('atomname'), mod.name))
                    elif a not in group_atoms:
                        errs.append('flagged atom %d of another group plays the added atom %s of %s'
                                    % (a, mnode.get('atomname'), mod.name))
                else:
                    if a in flagged_set:
                        errs.append('flagged atom %d plays the anchor %s of %s' % (a, mnode.get('atomname'), mod.name))
                    elif it['snap'].get(a, (None,))[0] != mnode.get('atomname'):
                        errs.append('atom %d named %r plays the anchor %s of %s'
                                    % (a, it['snap'].get(a, (None,))[0], mnode.get('atomname'), mod.name))
            cands = py_placements(it['snap'], it['edges'], mod)
            if not any(sorted(c.items()) == sorted(pl) for c in cands):
                errs.append('chosen placement of %s on %s is not an induced placement (anchors by name, added '
                            'atoms by element)' % (mod.name, [x for x, _ in pl]))
    input_elem = {k: at.get('element') for k, r, p, h, ml, at in spec['atoms']}
    resid_of = {k: r for k, r, p, h, ml, at in spec['atoms']}
    writers = {}
    for ii, it in enumerate(run['iters']):
        for (mi, pl) in (it['used'] or []) + (it['result'] or []):
            for a, q in pl:
                for attr in (mods[mi].nodes[q].get('replace') or {}):
                    writers.setdefault((a, attr), []).append((ii, mi))
    for a in flagged:
        if a in mol.nodes:
            ps = placed.get(a, [])
            if not ps:
                errs.append('flagged atom %d is silently kept: still in the molecule, in no identified placement' % a)
                continue
            if len(ps) > 1:
                errs.append('flagged atom %d is covered %d times (%s)' % (a, len(ps), [mods[p[1]].name for p in ps]))
                continue
            ii, mi, pl = ps[0]
            mod = mods[mi]
            it = run['iters'][ii]
            q = dict(pl)[a]
            mnode = mod.nodes[q]
            from_cover = (mi, sorted(pl)) in (it['result'] or [])
            if from_cover:
                # the placement is induced, anchors by name, added atoms by element
                if not any(sorted(c.items()) == sorted(pl) for c in py_placements(it['snap'], it['edges'], mod)):
                    errs.append('placement of %s on %s is not an induced placement with anchors by name and '
                                'added atoms by element' % (mod.name, [x for x, _ in pl]))
                if not mnode.get('PTM_atom'):
                    errs.append('flagged atom %d matched on an anchor of %s' % (a, mod.name))
                elif mnode.get('element') != input_elem[a]:
                    errs.append('flagged atom %d (%s) matched on %s of %s' % (a, input_elem[a], mnode.get('element'), mod.name))
            final = mol.nodes[a]
            want_name = mnode.get('atomname')
            if 'replace' in mnode and 'atomname' in mnode['replace'] and len(writers.get((a, 'atomname'), [])) == 1:
                want_name = mnode['replace']['atomname']
            if mnode.get('PTM_atom') and final.get('atomname') != want_name:
                errs.append('flagged atom %d carries name %r, modification %s says %r'
                            % (a, final.get('atomname'), mod.name, want_name))
            if mod not in final.get('modifications', []):
                errs.append('flagged atom %d is not labelled with %s' % (a, mod.name))
            touched = {resid_of[x] for x, _ in pl}
            for b in mol.nodes:
                if resid_of[b] in touched and not any(m is mod for m in mol.nodes[b].get('modifications', [])):
                    errs.append('atom %d of touched residue %d is not labelled with %s' % (b, resid_of[b], mod.name))
                    break
        else:
            if a not in warned:
                errs.append('flagged atom %d was removed without an unknown-input warning naming it' % a)
    # attribute changes of every placement (when it is the only writer of that attribute)
    for ii, it in enumerate(run['iters']):
        for (mi, pl) in (it['used'] or []) + (it['result'] or []):
            for a, q in pl:
                rep = mods[mi].nodes[q].get('replace') or {}
                for attr, val in rep.items():
                    if len(writers[(a, attr)]) == 1 and a in mol.nodes and mol.nodes[a].get(attr) != val:
                        errs.append('atom %d: attribute %s is %r, modification %s says %r'
                                    % (a, attr, mol.nodes[a].get(attr), mods[mi].name, val))
                    if attr == 'atomname' and len(writers[(a, attr)]) == 1 and a in mol.nodes \
                            and '_old_atomname' not in mol.nodes[a]:
                        errs.append('atom %d renamed without _old_atomname' % a)
    # removal only when no explanation by known modifications exists.  A group annotated on the input
    # is explained when each annotated modification has an induced placement by atom name inside the
    # group and these placements cover the group; the other groups of the iteration are explained when an
    # exact cover by induced placements (anchors by name, added atoms by element) exists.
    annot = {k: ml for k, r, p, h, ml, at in spec['atoms']}
    for ii, it in enumerate(run['iters']):
        if it['result'] is not None:
            continue
        if any(a not in it['snap'] for g in it['groups'] for a in g[0]):
            continue  # an atom with a foreign resid: outside the residue, nothing can be placed on it
        if explained_by_known(it['snap'], it['edges'], it['groups'], annot, mods):
            errs.append('atoms %s were removed / reported as unknown input although known modifications cover '
                        'them exactly' % sorted(a for g in it['groups'] for a in g[0]))
    # an atom the residue template accounted for is never removed
    for k, r, p, h, ml, at in spec['atoms']:
        if not p and k not in mol.nodes:
            errs.append('recognised template atom %d (%s) is missing from the output' % (k, at.get('atomname')))
    return errs


F6_KNOWN = any(k.get('id') == 'F-C14-6' and k.get('status') == 'known' for k in chk.known)


def f6_atoms(spec, mol, run):
    """F-C14-6: the flagged atoms that belong to a group annotated on the input whose iteration FAILED, and that
    stay in the molecule named by no warning (the annotation itself explained them: the set of the group is
    emptied in place before the cover search fails on another group) - kept, unwarned, unlabelled by this run."""
    if run['status'] != 'ok':
        return set()
    annot = {k: ml for k, r, p, h, ml, at in spec['atoms']}
    flagged = {k for k, r, p, h, ml, at in spec['atoms'] if p}
    warned = set()
    for w in warnings_of(run):
        warned.update(w['atoms'] or [])
    placed = set()
    for it in run['iters']:
        for _, pl in (it['used'] or []) + (it['result'] or []):
            placed.update(a for a, _ in pl)
    out = set()
    for it in run['iters']:
        if it['result'] is not None:
            continue
        for g in it['groups']:
            if any(annot.get(a) for a in g[0]):
                out |= {a for a in g[0] if a in flagged and a in mol.nodes and a not in warned and a not in placed}
    return out


_F6_MSG = re.compile(r'^flagged atom (-?\d+) is silently kept: ')


def split_f6(errs, atoms):
    """(errors that stand, errors that are exactly the known finding F-C14-6): only the clause `silently kept`
    about an atom that satisfies the signature is attributed to the finding"""
    real, known = [], []
    for e in errs:
        m = _F6_MSG.match(e)
        (known if m and int(m.group(1)) in atoms else real).append(e)
    return real, known


def case_f6(cid, inp, impl, model, real, known, nontriv):
    """register a case whose oracle errors were split by split_f6"""
    chk.case(cid, inp, impl, model, real, nontriv)
    if known:
        chk.count('finding_F-C14-6_signature')
        if F6_KNOWN:
            for msg in known:
                chk.failures.append({'case': cid, 'input': inp, 'impl': impl, 'oracle': msg, 'finding': 'F-C14-6'})
        elif cid.startswith('corpus-f6'):
            # the pinned witness while the finding is not listed in known_findings.json: model and real code are
            # compared (Lean: annotated_flagged_kept_witness), the oracle failure is recorded as a count only
            chk.count('finding_F-C14-6_witness_oracle_errors=%d' % len(known))
        else:
            for msg in known:
                chk.failures.append({'case': cid, 'input': inp, 'impl': impl, 'oracle': msg, 'finding': None})


def spec_mods_of(spec, a):
    for k, r, p, h, ml, at in spec['atoms']:
        if k == a:
            return ml
    return []


# ----------------------------------------------------------------------------
# generator
# ----------------------------------------------------------------------------
TEMPLATE = [('N', 'N'), ('CA', 'C'), ('C', 'C'), ('O', 'O'), ('CB', 'C'), ('CG', 'C')]
TBONDS = [('N', 'CA'), ('CA', 'C'), ('C', 'O'), ('CA', 'CB'), ('CB', 'CG')]


def A(name, elem, **kw):
    d = {'atomname': name, 'element': elem}
    d.update(kw)
    return d


def lib_fixed():
    """name -> (atoms [[key, ptm, attrs, replace]], edges)"""
    L = {}
    L['NH3'] = ([[0, 0, A('N', 'N'), None], [1, 1, A('H2', 'H'), None], [2, 1, A('H3', 'H'), None]], [[0, 1], [0, 2]])
    L['NH'] = ([[0, 0, A('N', 'N'), None], [1, 1, A('H2', 'H'), {'atomname': 'HN2'}]], [[0, 1]])
    L['OXT'] = ([[0, 0, A('C', 'C'), None], [1, 1, A('OXT', 'O'), None]], [[0, 1]])
    L['COOH'] = ([[0, 0, A('C', 'C'), {'charge_group': '2'}], [1, 1, A('OXT', 'O'), None], [2, 1, A('HO', 'H'), None]],
                 [[0, 1], [1, 2]])
    L['PHOS'] = ([[0, 0, A('CB', 'C'), None], [1, 1, A('P', 'P'), None], [2, 1, A('O1P', 'O'), None],
                  [3, 1, A('O2P', 'O'), None]], [[0, 1], [1, 2], [1, 3]])
    L['PHOSH'] = ([[0, 0, A('CB', 'C'), None], [1, 1, A('P', 'P'), None], [2, 1, A('O1P', 'O'), None],
                   [3, 1, A('O2P', 'O'), None], [4, 1, A('HP', 'H'), None]], [[0, 1], [1, 2], [1, 3], [3, 4]])
    L['ME'] = ([[0, 0, A('CB', 'C'), {'atomname': 'CBM', 'resname': 'MEA'}], [1, 1, A('CM', 'C', mass='15'), None]], [[0, 1]])
    L['DEL'] = ([[0, 0, A('CG', 'C'), {'atomname': None}], [1, 1, A('SX', 'S'), None]], [[0, 1]])
    L['XL'] = ([[0, 0, A('CB', 'C'), None], [1, 1, A('SL', 'S'), None], [2, 0, A('CB', 'C'), None]], [[0, 1], [1, 2]])
    L['SS'] = ([[0, 0, A('CB', 'C'), None], [1, 1, A('S1', 'S'), None], [2, 1, A('S2', 'S'), None],
                [3, 0, A('CB', 'C'), None]], [[0, 1], [1, 2], [2, 3]])
    L['SH'] = ([[0, 0, A('CB', 'C'), None], [1, 1, A('SG', 'S'), None]], [[0, 1]])
    L['RING'] = ([[0, 0, A('CA', 'C'), None], [1, 0, A('CB', 'C'), None], [2, 1, A('OR', 'O'), None]],
                 [[0, 1], [0, 2], [1, 2]])
    L['RINGX'] = ([[0, 0, A('CA', 'C'), None], [1, 0, A('CB', 'C'), None], [2, 1, A('OR', 'O'), None]],
                  [[0, 2], [1, 2]])  # no CA-CB edge: never an induced placement on a real residue
    L['ANCHOR'] = ([[0, 0, A('CA', 'C'), None]], [])
    L['CACB'] = ([[0, 0, A('CA', 'C'), None], [1, 0, A('CB', 'C'), None]], [[0, 1]])
    L['OO'] = ([[0, 0, A('C', 'C'), None], [1, 1, A('OA', 'O'), None], [2, 1, A('OB', 'O'), None]], [[0, 1], [0, 2]])
    return L


def random_mod(rng, name):
    """a random tree pattern on one or two anchors"""
    anchors = rng.sample(['N', 'CA', 'C', 'CB', 'CG', 'O'], rng.choice([1, 1, 2]))
    elem_of = dict(TEMPLATE)
    atoms = [[i, 0, A(a, elem_of[a]), None] for i, a in enumerate(anchors)]
    edges = []
    if len(anchors) == 2 and (tuple(anchors) in TBONDS or tuple(reversed(anchors)) in TBONDS):
        edges.append([0, 1])
    n = rng.randint(1, 3)
    for j in range(n):
        k = len(atoms)
        parent = rng.randrange(len(atoms)) if j else rng.randrange(len(anchors))
        rep = None
        if rng.random() < 0.2:
            rep = {rng.choice(['atomname', 'charge_group', 'resname']): rng.choice(['Q1', 'Q2', None])}
        atoms.append([k, 1, A('%s%d' % (name[:2], j), rng.choice('HOSC')), rep])
        edges.append([parent, k])
    if len(anchors) == 2 and not any(e[0] == 1 or e[1] == 1 for e in edges if e != [0, 1]):
        edges.append([1, len(atoms) - 1])
    return atoms, edges


def sub_pattern(rng, atoms, edges):
    """drop one PTM leaf (keeps the pattern connected); None if impossible"""
    deg = {}
    for u, v in edges:
        deg[u] = deg.get(u, 0) + 1
        deg[v] = deg.get(v, 0) + 1
    leaves = [a[0] for a in atoms if a[1] and deg.get(a[0], 0) == 1]
    if not leaves or sum(1 for a in atoms if a[1]) < 2:
        return None
    drop = rng.choice(leaves)
    return [copy.deepcopy(a) for a in atoms if a[0] != drop], [e for e in edges if drop not in e]


def gen_case(rng):
    L = lib_fixed()
    names = rng.sample(sorted(L), rng.randint(2, 7))
    lib = {n: L[n] for n in names}
    for j in range(rng.choice([0, 0, 1, 2])):
        nm = 'R%d' % j
        lib[nm] = random_mod(rng, nm)
        if rng.random() < 0.6:
            sp = sub_pattern(rng, *lib[nm])
            if sp:
                lib[nm + 's'] = sp
    order = list(lib)
    rng.shuffle(order)
    mods = [{'name': n, 'atoms': copy.deepcopy(lib[n][0]), 'edges': copy.deepcopy(lib[n][1])} for n in order]
    # residues
    nres = rng.randint(1, 4)
    atoms, edges = [], []
    key = rng.choice([0, 0, 3])
    resids = []
    rid = rng.choice([1, 1, 5, 40])
    byres = []
    prevC = None
    for r in range(nres):
        names_r = [t for t in TEMPLATE if t[0] != 'CG' or rng.random() < 0.5]
        idx = {}
        resname = rng.choice(['ALA', 'SER', 'CYS'])
        for nm, el in names_r:
            atoms.append([key, rid, 0, 0, [], A(nm, el, resname=resname)])
            idx[nm] = key
            key += rng.choice([1, 1, 1, 2])
        for a, b in TBONDS:
            if a in idx and b in idx:
                edges.append([idx[a], idx[b]])
        if prevC is not None and rng.random() < 0.9:
            edges.append([prevC, idx['N']])
        prevC = idx['C']
        byres.append((rid, idx))
        resids.append(rid)
        rid += rng.choice([1, 1, 1, 2])
    hist = []
    pre_done = set()
    pre_used = {}
    natt = rng.choice([0, 1, 1, 2, 2, 3])
    all_L = lib_fixed()
    for _ in range(natt):
        kind = rng.random()
        src = rng.choice(order) if kind < 0.7 or not order else rng.choice(sorted(all_L))
        matoms, medges = lib[src] if src in lib else all_L[src]
        anchors_m = [a for a in matoms if not a[1]]
        ptm_m = [a for a in matoms if a[1]]
        if not ptm_m:
            # anchor-only pattern: attach an unknown atom instead
            matoms = matoms + [[99, 1, A('ZZ', rng.choice('OS')), None]]
            medges = medges + [[anchors_m[0][0], 99]]
            ptm_m = [matoms[-1]]
        # choose residues for the anchors
        ri = rng.randrange(nres)
        rj = rng.randrange(nres)
        place = {}
        okp = True
        seen_names = {}
        for a in anchors_m:
            nm = a[2]['atomname']
            which = ri if nm not in seen_names else rj
            seen_names[nm] = 1
            idx = byres[which][1]
            if nm not in idx or idx[nm] in place.values():
                okp = False
                break
            place[a[0]] = idx[nm]
        if not okp:
            continue
        # applied through `modify`: canonical names, pre-labelled (only patterns with distinct atom names:
        # apply_mod_to_block works on one block whose atom names are unique)
        pre = rng.random() < 0.08 and src in lib and len({a[2]['atomname'] for a in matoms}) == len(matoms)
        pre_names = {a[2]['atomname'] for a in ptm_m}
        if pre and ((src, ri) in pre_done or pre_names & pre_used.setdefault(ri, set())):
            # the same modification (or one sharing names of added atoms) annotated twice on one residue would give two atoms of one residue the same
            # name: outside the contract of fix_ptm (atom names are correct, i.e. unique per residue) - the
            # attachment is generated as an ordinary flagged one instead
            pre = False
            hist.append('excluded_same_annotation_twice')
        if pre:
            pre_done.add((src, ri))
            pre_used.setdefault(ri, set()).update(pre_names)
        foreign = rng.random() < 0.05
        for a in ptm_m:
            attrs = A(a[2]['atomname'] if pre else 'X%d' % key, a[2]['element'],
                      resname=rng.choice(['ALA', 'UNK']))
            r_here = byres[ri][0] if not foreign else byres[ri][0] + 100
            atoms.append([key, r_here, 0 if pre else 1, 0, [order.index(src)] if pre else [], attrs])
            place[a[0]] = key
            key += 1
        if pre:
            for a in anchors_m:
                for at in atoms:
                    if at[0] == place[a[0]] and order.index(src) not in at[4]:
                        at[4] = at[4] + [order.index(src)]
            if rng.random() < 0.5:
                for at in atoms:
                    if at[1] == byres[ri][0]:
                        at[3] = 1
        for u, v in medges:
            if [place[u], place[v]] not in edges and [place[v], place[u]] not in edges:
                edges.append([place[u], place[v]])
        # perturbations that make the attachment unknown (or differently known)
        t = rng.random()
        flag_keys = [place[a[0]] for a in ptm_m]
        if t < 0.10:
            for at in atoms:
                if at[0] == flag_keys[-1]:
                    at[5]['element'] = rng.choice('HOSPC')
            hist.append('wrong-element')
        elif t < 0.18:
            atoms.append([key, byres[ri][0], 1, 0, [], A('Y%d' % key, rng.choice('HOS'), resname='UNK')])
            edges.append([rng.choice(flag_keys), key])
            key += 1
            hist.append('extra-atom')
        elif t < 0.24 and len(flag_keys) >= 1:
            other = rng.choice([a[0] for a in atoms if a[0] not in flag_keys])
            e = [flag_keys[0], other]
            if e not in edges and e[::-1] not in edges:
                edges.append(e)
            hist.append('extra-bond')
        else:
            hist.append('pre' if pre else ('foreign' if foreign else 'plain'))
    if rng.random() < 0.3:
        perm = list(range(len(atoms)))
        # shuffle node order inside the molecule (set / dict order must not matter)
        rng.shuffle(perm)
        atoms = [atoms[i] for i in perm]
    return {'atoms': atoms, 'edges': edges, 'mods': mods, 'hist': hist}


def gen_two_iter(rng):
    """two iterations that interact: groups sharing a residue with different anchor-resid keys
    (single anchor [r], two anchors [r, r], bridge [r, s]); known / unknown in both processing orders"""
    L = lib_fixed()
    names = ['OXT', 'SH', 'NH', 'RING', 'XL', 'ME'] + rng.sample(['COOH', 'PHOS', 'ANCHOR', 'CACB', 'OO', 'SS', 'DEL', 'NH3'],
                                                                  rng.randint(0, 3))
    rng.shuffle(names)
    mods = [{'name': n, 'atoms': copy.deepcopy(L[n][0]), 'edges': copy.deepcopy(L[n][1])} for n in names]
    nres = rng.randint(2, 3)
    atoms, edges, byres = [], [], []
    key = rng.choice([0, 2])
    rid = rng.choice([1, 7, 30])
    prevC = None
    for r in range(nres):
        idx = {}
        resname = rng.choice(['ALA', 'CYS'])
        for nm, el in TEMPLATE[:5]:
            atoms.append([key, rid, 0, 0, [], A(nm, el, resname=resname)])
            idx[nm] = key
            key += 1
        for a, b in TBONDS:
            if a in idx and b in idx:
                edges.append([idx[a], idx[b]])
        if prevC is not None:
            edges.append([prevC, idx['N']])
        prevC = idx['C']
        byres.append((rid, idx))
        rid += rng.choice([1, 2])
    hist = []

    def add(rid_, elem, bonds):
        nonlocal key
        atoms.append([key, rid_, 1, 0, [], A('X%d' % key, elem, resname='UNK')])
        for b in bonds:
            edges.append([b, key])
        key += 1
        return key - 1

    def single(ri, known):
        """one flagged atom on one anchor: key [r]"""
        rid_, idx = byres[ri]
        kind = rng.choice(['OXT', 'SH', 'NH', 'ME'])
        anchor, elem = {'OXT': ('C', 'O'), 'SH': ('CB', 'S'), 'NH': ('N', 'H'), 'ME': ('CB', 'C')}[kind]
        if not known:
            elem = 'P'
        k = add(rid_, elem, [idx[anchor]])
        if known and rng.random() < 0.2:
            add(rid_, 'H', [k])      # extra atom: makes it unknown unless COOH etc. is in the library
        hist.append('single_' + ('known' if known else 'unknown'))

    def double(ri, known):
        """one flagged atom on CA and CB of one residue: key [r, r]"""
        rid_, idx = byres[ri]
        add(rid_, 'O' if known else 'S', [idx['CA'], idx['CB']])
        hist.append('double_' + ('known' if known else 'unknown'))

    def bridge(ri, rj, known):
        """one flagged atom between CB of two residues: key [r, s]"""
        add(byres[rng.choice([ri, rj])][0], 'S' if known else 'O', [byres[ri][1]['CB'], byres[rj][1]['CB']])
        hist.append('bridge_' + ('known' if known else 'unknown'))

    shape = rng.choice(['single+double', 'single+bridge_low', 'single+bridge_high', 'double+bridge', 'three'])
    k1, k2 = rng.random() < 0.6, rng.random() < 0.6
    if shape == 'single+double':
        single(0, k1)
        double(0, k2)
    elif shape == 'single+bridge_low':
        single(0, k1)          # key [r] before [r, s]
        bridge(0, 1, k2)
    elif shape == 'single+bridge_high':
        single(1, k1)          # key [s] after [r, s]
        bridge(0, 1, k2)
    elif shape == 'double+bridge':
        double(rng.choice([0, 1]), k1)
        bridge(0, 1, k2)
    else:
        single(0, k1)
        double(0, k2)
        bridge(0, 1, rng.random() < 0.6)
        if rng.random() < 0.5:
            single(1, rng.random() < 0.6)
    hist.append('shape_' + shape)
    if rng.random() < 0.3:
        rng.shuffle(atoms)
    return {'atoms': atoms, 'edges': edges, 'mods': mods, 'hist': hist}


def chain(rng, nres):
    """plain residue chain; returns atoms, edges, byres, next key"""
    atoms, edges, byres = [], [], []
    key = rng.choice([0, 2])
    rid = rng.choice([1, 7, 30])
    prevC = None
    for r in range(nres):
        idx = {}
        resname = rng.choice(['ALA', 'CYS'])
        for nm, el in TEMPLATE:
            atoms.append([key, rid, 0, 0, [], A(nm, el, resname=resname)])
            idx[nm] = key
            key += 1
        for a, b in TBONDS:
            edges.append([idx[a], idx[b]])
        if prevC is not None:
            edges.append([prevC, idx['N']])
        prevC = idx['C']
        byres.append((rid, idx))
        rid += rng.choice([1, 2])
    return atoms, edges, byres, key


def place_anchors(rng, matoms, byres):
    """map the anchors of a pattern on template atoms (second anchor of the same name on the next residue)"""
    place, seen = {}, {}
    ri = rng.randrange(len(byres))
    for a in matoms:
        if a[1]:
            continue
        nm = a[2]['atomname']
        which = ri if nm not in seen else (ri + 1) % len(byres)
        seen[nm] = 1
        idx = byres[which][1]
        if nm not in idx or idx[nm] in place.values():
            return None, ri
        place[a[0]] = idx[nm]
    return place, ri


def gen_ring(rng):
    """a modification with a genuine (induced) site and a second site on the same anchors where it fits
    only with an extra bond among the matched atoms (ring closure / bond between two added atoms)"""
    L = lib_fixed()
    pool = ['COOH', 'PHOS', 'PHOSH', 'NH3', 'OO', 'SS', 'XL', 'ETH']
    L['ETH'] = ([[0, 0, A('N', 'N'), None], [1, 1, A('CE1', 'C'), None], [2, 1, A('CE2', 'C'), None]], [[0, 1], [1, 2]])
    src = rng.choice(pool)
    names = [src] + rng.sample([n for n in sorted(L) if n != src], rng.randint(0, 3))
    rng.shuffle(names)
    mods = [{'name': n, 'atoms': copy.deepcopy(L[n][0]), 'edges': copy.deepcopy(L[n][1])} for n in names]
    atoms, edges, byres, key = chain(rng, rng.randint(2, 3))
    matoms, medges = L[src]
    place0, ri = place_anchors(rng, matoms, byres)
    hist = ['ring_' + src]
    if place0 is None:
        return {'atoms': atoms, 'edges': edges, 'mods': mods, 'hist': ['ring_unplaced']}
    sites = []
    for site in range(2):
        place = dict(place0)
        for a in matoms:
            if a[1]:
                atoms.append([key, byres[ri][0], 1, 0, [], A('X%d' % key, a[2]['element'], resname='UNK')])
                place[a[0]] = key
                key += 1
        for u, v in medges:
            e = [place[u], place[v]]
            if e not in edges and e[::-1] not in edges:
                edges.append(e)
        sites.append(place)
    # the extra bond on the second site (sometimes none, sometimes on both: then nothing is induced)
    nodes = [a[0] for a in matoms]
    non = [(u, v) for u, v in itertools.combinations(nodes, 2)
           if [u, v] not in medges and [v, u] not in medges
           and (matoms[nodes.index(u)][1] or matoms[nodes.index(v)][1])]
    t = rng.random()
    if non and t < 0.8:
        u, v = rng.choice(non)
        for place in (sites[1:] if t < 0.7 else sites):
            e = [place[u], place[v]]
            if e not in edges and e[::-1] not in edges:
                edges.append(e)
        hist.append('ring_second_site' if t < 0.7 else 'ring_both_sites')
    else:
        hist.append('ring_none')
    if rng.random() < 0.3:
        rng.shuffle(atoms)
    return {'atoms': atoms, 'edges': edges, 'mods': mods, 'hist': hist}


def gen_standin(rng):
    """a template atom that carries the NAME of an added atom of a larger modification sits where that
    added atom would be; only the remaining atoms are flagged (sub-patterns of one another in the library)"""
    L = lib_fixed()
    L['HD'] = ([[0, 0, A('CA', 'C'), None], [1, 0, A('CB', 'C'), None], [2, 1, A('HD1', 'H'), None]], [[0, 1], [1, 2]])
    L['HE'] = ([[0, 0, A('CA', 'C'), None], [1, 0, A('N', 'N'), None], [2, 1, A('HE2', 'H'), None]], [[0, 1], [1, 2]])
    L['HP'] = ([[0, 0, A('CA', 'C'), None], [1, 0, A('CB', 'C'), None], [2, 0, A('N', 'N'), None],
                [3, 1, A('HD1', 'H'), None], [4, 1, A('HE2', 'H'), None]], [[0, 1], [0, 2], [1, 3], [2, 4]])
    big = rng.choice(['HP', 'NH3', 'COOH', 'PHOS', 'PHOSH', 'OO', 'SS'])
    names = {big}
    names |= {'HP': {'HD', 'HE'}, 'NH3': {'NH'}, 'COOH': {'OXT'}, 'PHOSH': {'PHOS'}, 'OO': {'OXT'}, 'SS': {'SH'},
              'PHOS': set()}[big] if rng.random() < 0.8 else set()
    names |= set(rng.sample(sorted(set(L) - names), rng.randint(0, 2)))
    names = sorted(names)
    rng.shuffle(names)
    mods = [{'name': n, 'atoms': copy.deepcopy(L[n][0]), 'edges': copy.deepcopy(L[n][1])} for n in names]
    atoms, edges, byres, key = chain(rng, rng.randint(1, 2))
    matoms, medges = L[big]
    place, ri = place_anchors(rng, matoms, byres)
    if place is None:
        return {'atoms': atoms, 'edges': edges, 'mods': mods, 'hist': ['standin_unplaced']}
    ptm = [a for a in matoms if a[1]]
    k = rng.randint(1, len(ptm) - 1) if len(ptm) > 1 else 0
    template = set(a[0] for a in rng.sample(ptm, k))
    for a in ptm:
        if a[0] in template:      # accounted for by the residue template, carries the modification's name
            atoms.append([key, byres[ri][0], 0, 0, [], A(a[2]['atomname'], a[2]['element'], resname='ALA')])
        else:
            atoms.append([key, byres[ri][0], 1, 0, [], A('X%d' % key, a[2]['element'], resname='UNK')])
        place[a[0]] = key
        key += 1
    for u, v in medges:
        e = [place[u], place[v]]
        if e not in edges and e[::-1] not in edges:
            edges.append(e)
    if rng.random() < 0.3:
        rng.shuffle(atoms)
    return {'atoms': atoms, 'edges': edges, 'mods': mods, 'hist': ['standin_' + big, 'standin_template=%d' % len(template)]}


def gen_annot(rng):
    """a residue that carries a modification annotated on the input (as RepairGraph leaves it after
    `-modify`: canonical names, no PTM flag, `modifications` on every atom of the modification) AND one or
    two further groups of unrecognised atoms on the same residue or bridging to the bonded neighbour;
    the keys of the annotated and the plain groups are ordered both ways"""
    L = lib_fixed()
    L['MCG'] = ([[0, 0, A('CG', 'C'), None], [1, 1, A('HX', 'H'), None]], [[0, 1]])                      # group key [r]
    L['MCB'] = ([[0, 0, A('CB', 'C'), None], [1, 1, A('HB9', 'H'), {'atomname': 'HB9'}]], [[0, 1]])      # key [r, r]
    L['MN2'] = ([[0, 0, A('N', 'N'), None], [1, 0, A('CA', 'C'), None], [2, 1, A('H2', 'H'), None],
                 [3, 1, A('H3', 'H'), None]], [[0, 1], [0, 2], [0, 3]])                                  # key [r-1, r] or [r]
    L['MC'] = ([[0, 0, A('C', 'C'), None], [1, 0, A('O', 'O'), None], [2, 1, A('OXT', 'O'), None]], [[0, 1], [0, 2]])
    L['MCH'] = ([[0, 0, A('CG', 'C'), None], [1, 1, A('HX', 'H'), None], [2, 1, A('HY', 'H'), None]], [[0, 1], [1, 2]])
    ann = rng.choice(['MCG', 'MCB', 'MN2', 'MC', 'MCH'])
    names = [ann, 'NH', 'OXT', 'SH', 'RING', 'XL'] + rng.sample(['COOH', 'PHOS', 'ANCHOR', 'OO', 'ME', 'MCG', 'MCB'], rng.randint(0, 2))
    names = list(dict.fromkeys(names))
    rng.shuffle(names)
    mods = [{'name': n, 'atoms': copy.deepcopy(L[n][0]), 'edges': copy.deepcopy(L[n][1])} for n in names]
    atoms, edges, byres, key = chain(rng, 2)
    ri = rng.randrange(2)
    rid, idx = byres[ri]
    hist = ['annot_' + ann]
    mi = names.index(ann)
    place = {}
    # F-C14-6 (only generated once it is listed as known): the last added atom of the annotated modification
    # is present under its canonical name but flagged PTM_atom and not annotated
    canon_flagged = F6_KNOWN and ann == 'MCH' and rng.random() < 0.5
    for a in L[ann][0]:
        if a[1]:
            if canon_flagged and a[0] == 2:
                atoms.append([key, rid, 1, 0, [], A(a[2]['atomname'], a[2]['element'], resname='ALA')])
                hist.append('annot_canonical_name_flagged')
            else:
                atoms.append([key, rid, 0, 0, [mi], A(a[2]['atomname'], a[2]['element'], resname='ALA')])
            place[a[0]] = key
            key += 1
        else:
            place[a[0]] = idx[a[2]['atomname']]
            for at in atoms:
                if at[0] == place[a[0]]:
                    at[4] = [mi]
    for u, v in L[ann][1]:
        e = [place[u], place[v]]
        if e not in edges and e[::-1] not in edges:
            edges.append(e)
    if rng.random() < 0.4:
        for at in atoms:
            if at[1] == rid:
                at[3] = 1            # the `modification` key set by the annotation step
    annotated_anchor = {a[2]['atomname'] for a in L[ann][0] if not a[1]}

    def add(rid_, elem, bonds):
        nonlocal key
        atoms.append([key, rid_, 1, 0, [], A('X%d' % key, elem, resname='UNK')])
        for b in bonds:
            edges.append([b, key])
        key += 1

    for _ in range(rng.choice([1, 1, 2])):
        kind = rng.choice(['NH', 'OXT', 'SH', 'RING', 'XL', 'NH_other', 'mixed'])
        known = rng.random() < 0.7
        if kind == 'NH' and 'N' not in annotated_anchor:
            add(rid, 'H' if known else 'P', [idx['N']])
        elif kind == 'OXT' and 'C' not in annotated_anchor:
            add(rid, 'O' if known else 'P', [idx['C']])
        elif kind == 'SH' and 'CB' not in annotated_anchor:
            add(rid, 'S' if known else 'P', [idx['CB']])
        elif kind == 'RING' and not ({'CA', 'CB'} & annotated_anchor):
            add(rid, 'O' if known else 'S', [idx['CA'], idx['CB']])
        elif kind == 'XL' and 'CB' not in annotated_anchor:
            add(rid, 'S' if known else 'O', [idx['CB'], byres[1 - ri][1]['CB']])
        elif kind == 'NH_other':
            add(byres[1 - ri][0], 'H' if known else 'P', [byres[1 - ri][1]['N']])
        elif kind == 'mixed':
            # an unrecognised atom bonded to an annotated atom: same group as the annotation
            add(rid, rng.choice('HOS'), [place[rng.choice(sorted(place))]])
        else:
            continue
        hist.append('annot+%s_%s' % (kind, 'known' if known else 'unknown'))
    if rng.random() < 0.3:
        rng.shuffle(atoms)
    return {'atoms': atoms, 'edges': edges, 'mods': mods, 'hist': hist}


# ----------------------------------------------------------------------------
# run
# ----------------------------------------------------------------------------
cases = []
for path in sorted(glob.glob(os.path.join(VERIF, 'corpus', 'c14_*.json'))):
    for j, spec in enumerate(json.load(open(path))):
        cases.append(('corpus-%s-%d' % (os.path.basename(path)[4:-5], j), spec))
rng = chk.rng('fixptm')
N = 40000 if chk.thorough else 700
for i in range(N):
    cases.append(('gen-%d' % i, gen_case(rng)))
rng2 = chk.rng('two-iterations')
for i in range(N // 3):
    cases.append(('two-%d' % i, gen_two_iter(rng2)))
rng3 = chk.rng('rings')
for i in range(N // 4):
    cases.append(('ring-%d' % i, gen_ring(rng3)))
rng5 = chk.rng('annotated')
for i in range(N // 3):
    cases.append(('annot-%d' % i, gen_annot(rng5)))
rng4 = chk.rng('stand-ins')
for i in range(N // 4):
    cases.append(('standin-%d' % i, gen_standin(rng4)))

lines, impls, meta = [], [], []
for cid, spec in cases:
    ff, mods, mol = build(spec)
    mol0 = mol.copy()
    groups_real = sorted((sorted(a), sorted(b)) for a, b in canmod.find_ptm_atoms(mol.copy()))
    run = run_real(spec, mods, mol)
    given = [[pl for _, pl in it['options']] for it in run['iters']]
    given = [[[[list(q) for q in p] for p in pls] for pls in it] for it in given]
    sortmods = int(any(len(it['used'] or []) >= 2 for it in run['iters'])
                   or sum(1 for it in run['iters'] if it['used']) >= 1 and any(
                       len([g for g in it['groups'] if any(spec_mods_of(spec, a) for a in g[0])]) >= 2
                       for it in run['iters']))
    lines.append(proto_line(spec, given, sortmods))
    impls.append(impl_canon(spec, mods, mol, run, sortmods))
    atoms_l = [[k, r, int(bool(p)), int(bool(h)), list(ml), sorted([a, v] for a, v in at.items())]
               for k, r, p, h, ml, at in spec['atoms']]
    lines.append(line('groups', atoms_l, [list(e) for e in spec['edges']]))
    impls.append(enc([[a, b] for a, b in groups_real]) + ' anchors-not-extra=1')
    meta.append((cid, spec, mods, mol0, mol, run))

models = chk.drv.ask(lines) if chk.lean_ok else [None] * len(lines)
for j, (cid, spec, mods, mol0, mol, run) in enumerate(meta):
    errs = oracle(spec, mods, mol0, mol, run)
    nflag = sum(1 for a in spec['atoms'] if a[2])
    ncand = max([sum(len(pl) for _, pl in it['options']) for it in run['iters']] + [0])
    nontriv = nflag >= 1 and ncand >= 2
    chk.count('flagged=%d' % min(nflag, 6))
    chk.count('iterations=%d' % min(len(run['iters']), 4))
    chk.count('status=' + run['status'])
    for it in run['iters']:
        chk.count('iter_unknown' if it['result'] is None else 'iter_identified')
        if it['result'] and len(it['result']) >= 2:
            chk.count('cover_of_2+_placements')
        if it['used']:
            chk.count('prelabelled_branch')
        if len(it['key']) >= 2 and len(set(it['key'])) >= 2:
            chk.count('spans_residues')
    for h in spec.get('hist', []):
        chk.count('attach_' + h)
    chk.count('candidates=%s' % ('0' if ncand == 0 else '1' if ncand == 1 else '2-5' if ncand <= 5 else '6+'))
    real, known = split_f6(errs, f6_atoms(spec, mol, run))
    case_f6(cid, lines[2 * j], impls[2 * j], models[2 * j], real, known, nontriv)
    chk.case(cid + '-groups', lines[2 * j + 1], impls[2 * j + 1], models[2 * j + 1], [], nflag >= 2)

# ----------------------------------------------------------------------------
# processor histories: ONE CanonicalizeModifications instance processes 2-3 molecules whose force fields are
# different objects with equal or different names and different modification sets, or the same object with its
# modifications edited in between; run_molecule and run_system.  Every step is compared with the model (Lean
# `Proc.runHistory`, theorem processor_stateless), with a fresh processor on a copy, and judged by the oracle.
# ----------------------------------------------------------------------------
def history_job(spec, given, sortmods):
    atoms = [[k, r, int(bool(p_)), int(bool(h)), list(ml), sorted([a, v] for a, v in at.items())]
             for k, r, p_, h, ml, at in spec['atoms']]
    mods_l = [[m['name'],
               [[k, int(bool(p_)), sorted([a, v] for a, v in at.items()),
                 None if rp is None else [[a, v] for a, v in rp.items()]] for k, p_, at, rp in m['atoms']],
               [list(e) for e in m['edges']]] for m in spec['mods']]
    return [atoms, [list(e) for e in spec['edges']], mods_l, given, sortmods]


rng7 = chk.rng('histories')
hl, hi, hm = [], [], []
for i in range(min(N // 12, 1200)):
    proc = canmod.CanonicalizeModifications()
    nstep = rng7.choice([2, 2, 3])
    naming = rng7.choice(['same-name', 'same-name', 'different-names', 'same-object-edited'])
    ff_prev = None
    jobs, impls, errs_all, known_all = [], [], [], []
    for st in range(nstep):
        spec = rng7.choice([gen_case, gen_two_iter, gen_annot, gen_standin])(rng7)
        ffname = 'c14' if naming != 'different-names' else 'c14_%d' % st
        ff, mods, mol = build(spec, ff=ff_prev if naming == 'same-object-edited' else None, ffname=ffname)
        if naming == 'same-object-edited':
            ff_prev = ff
        mol0 = mol.copy()
        # the same molecule through a fresh processor
        ff2, mods2, mol_fresh = build(spec, ffname=ffname)
        run_fresh = run_real(spec, mods2, mol_fresh)
        via_system = rng7.random() < 0.4
        run = run_real(spec, mods, mol, processor=proc, via_system=via_system)
        given = [[[[list(q) for q in p_] for p_ in pls] for _, pls in it['options']] for it in run['iters']]
        sortmods = int(any(len(it['used'] or []) >= 2 for it in run['iters'])
                       or sum(1 for it in run['iters'] if it['used']) >= 1 and any(
                           len([g for g in it['groups'] if any(spec_mods_of(spec, a) for a in g[0])]) >= 2
                           for it in run['iters']))
        jobs.append(history_job(spec, given, sortmods))
        impl = impl_canon(spec, mods, mol, run, sortmods)
        impls.append(impl)
        errs = oracle(spec, mods, mol0, mol, run)
        fresh = impl_canon(spec, mods2, mol_fresh, run_fresh, sortmods)
        if fresh != impl:
            errs.append('step %d of a history on one processor instance differs from a fresh processor on the same '
                        'molecule (force field named %r, modifications %s)' % (st, ffname, [m.name for m in mods]))
        errs, known = split_f6(errs, f6_atoms(spec, mol, run))
        errs_all += ['step %d: %s' % (st, e) for e in errs]
        known_all += ['step %d: %s' % (st, e) for e in known]
        chk.count('history_step_' + ('run_system' if via_system else 'run_molecule'))
    chk.count('history_' + naming)
    hl.append(line('history', jobs))
    hi.append(' || '.join(impls))
    hm.append((errs_all, known_all))
hmodels = chk.drv.ask(hl) if chk.lean_ok else [None] * len(hl)
for i in range(len(hl)):
    case_f6('history-%d' % i, hl[i], hi[i], hmodels[i], hm[i][0], hm[i][1], True)

# ----------------------------------------------------------------------------
# identify_ptms called directly (the way the test-suite and other callers use it): `annotated=None`, the
# modifications already known are read from the nodes of the residue.  The whole molecule is the residue.
# ----------------------------------------------------------------------------
def run_identify_direct(spec):
    ff, mods, mol = build(spec)
    ptms = canmod.find_ptm_atoms(mol)
    groups = [[sorted(a), sorted(b)] for a, b in ptms]
    depth, top_len = [0], [None]
    orig_cover, orig_nx = canmod._cover_graph, canmod.nx

    def cover_wrap(graph, to_cover, fragments, *rest, **kw):
        depth[0] += 1
        RecGM.in_cover += 1
        try:
            out = orig_cover(graph, to_cover, fragments, *rest, **kw)
        finally:
            depth[0] -= 1
            RecGM.in_cover -= 1
        if depth[0] == 0:
            top_len[0] = len(out)
        return out

    canmod._cover_graph, canmod.nx = cover_wrap, NxProxy()
    RecGM.created, RecGM.in_cover = [], 0
    options = []
    try:
        options = sorted(canmod.allowed_ptms(mol, ptms, ff.modifications),
                         key=lambda opt: len([n for n in opt[0] if opt[0].nodes[n].get('PTM_atom', False)]),
                         reverse=True)
        try:
            out = canmod.identify_ptms(mol, ptms, options)
            ncov = top_len[0] or 0
            entries = [(mods.index(p_), sorted(m.items())) for p_, m in out]
            used = sorted(enc_entry(e) for e in entries[:len(entries) - ncov])
            cov = [enc_entry(e) for e in entries[len(entries) - ncov:]]
            res = 'ok ' + ('[ ' + ' '.join(used) + ' ]' if used else '[ ]') + ' ' + ('[ ' + ' '.join(cov) + ' ]' if cov else '[ ]')
        except KeyError:
            res = 'keyerror ' + enc(sorted(idx for idxs in ptms for idx in idxs[0]))
        except RecursionError:
            res = 'crash-recursion'
        except Exception as e:  # pylint: disable=broad-except
            res = 'crash-' + type(e).__name__
    finally:
        canmod._cover_graph, canmod.nx = orig_cover, orig_nx
    given = [[[list(q) for q in sorted(m.items())] for m in gm.placements()] for _, gm in options]
    atoms_l = [[k, r, int(bool(p_)), int(bool(h)), list(ml), sorted([a, v] for a, v in at.items())]
               for k, r, p_, h, ml, at in spec['atoms']]
    mods_l = [[m['name'],
               [[k, int(bool(p_)), sorted([a, v] for a, v in at.items()),
                 None if rp is None else [[a, v] for a, v in rp.items()]] for k, p_, at, rp in m['atoms']],
               [list(e) for e in m['edges']]] for m in spec['mods']]
    ln = line('identify', atoms_l, [list(e) for e in spec['edges']], mods_l, groups, given)
    impl = enc([mods.index(g) for g, _ in options]) + ' 1 ' + res
    # independent statement: a returned cover contains every atom of every group; KeyError leaves the molecule alone
    errs = []
    snap = {k: (at.get('atomname'), at.get('element'), bool(p_)) for k, r, p_, h, ml, at in spec['atoms']}
    sedges = sorted(tuple(sorted(e)) for e in mol.edges)
    annot = {k: ml for k, r, p_, h, ml, at in spec['atoms']}
    ogroups = [(set(a), set(b)) for a, b in groups]
    if res.startswith('ok'):
        ncov = top_len[0] or 0
        for p_, m in out:
            if set(m.values()) != set(p_.nodes) or len(set(m)) != len(m):
                errs.append('identify_ptms returned a placement of %s that does not map every node once' % p_.name)
        for p_, m in out[len(out) - ncov:]:
            if not any(c == m for c in py_placements(snap, sedges, p_)):
                errs.append('identify_ptms chose a placement of %s on %s that is not induced with anchors by name and '
                            'added atoms by element' % (p_.name, sorted(m)))
        for a, b in ogroups:
            for x in a:
                n_in = sum(1 for _, m in out if x in m)
                if n_in == 0:
                    errs.append('identify_ptms returned a cover that leaves atom %d of a group out' % x)
                elif n_in > 1 and snap[x][2] and not any(annot.get(y) for y in a):
                    errs.append('identify_ptms covered the flagged atom %d %d times' % (x, n_in))
    elif res.startswith('crash'):
        errs.append('identify_ptms raised %s' % res)
    elif res.startswith('keyerror'):
        if explained_by_known(snap, sedges, ogroups, annot, mods):
            errs.append('identify_ptms raised KeyError although known modifications explain the groups %s'
                        % [sorted(a) for a, _ in ogroups])
    return ln, impl, errs, groups, res


rng6 = chk.rng('identify-direct')
dl, di, dm = [], [], []
for i in range(min(N // 6, 2500)):
    gen = [gen_annot, gen_annot, gen_case, gen_standin, gen_two_iter][i % 5]
    spec = gen(rng6)
    ln, impl, errs, groups, res = run_identify_direct(spec)
    dl.append(ln)
    di.append(impl)
    dm.append((errs, groups, res, spec))
dmodels = chk.drv.ask(dl) if chk.lean_ok else [None] * len(dl)
for i, (errs, groups, res, spec) in enumerate(dm):
    chk.count('identify_direct_' + res.split()[0])
    if any(a[4] for a in spec['atoms']):
        chk.count('identify_direct_with_live_annotations')
    chk.case('identify-%d' % i, dl[i], di[i], dmodels[i], errs, len(groups) >= 1)

# ----------------------------------------------------------------------------
# real charmm modifications on real residues (model + oracles)
# ----------------------------------------------------------------------------
exec(open(os.path.join(os.path.dirname(os.path.abspath(__file__)), 'c14_charmm.py')).read())
chk.finish()
